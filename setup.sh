#!/bin/bash
# Build the overlay interpreter /verif/.venv: python 3.12 of /venv + z3/cvc5/crosshair/deal/icontract
# from the offline wheelhouse, plus a .pth that exposes /venv's site-packages (pyhf deps).
set -e
cd "$(dirname "$0")"
if [ -x .venv/bin/python ] && .venv/bin/python -c "import z3, numpy" 2>/dev/null; then
  exit 0
fi
rm -rf .venv
/venv/bin/python -m venv .venv
PIP_NO_INDEX=1 .venv/bin/python -m pip install -q --no-index --find-links /opt/veriftools/wheels z3-solver cvc5 crosshair-tool deal icontract >/dev/null
echo "import site; site.addsitedir('/venv/lib/python3.12/site-packages')" > .venv/lib/python3.12/site-packages/_venv.pth
.venv/bin/python -c "import z3, numpy; print('overlay venv ready: z3', z3.get_version_string())"
