"""Assumed contracts of the I/O libraries used by writexml / readxml (C18): xml.etree.ElementTree, uproot,
the file system and str()/float() of numbers.  Each stores and returns what it is given - nothing is
serialised to text; an XML document is the element object itself, a ROOT file a name -> values table.
These are ASSUMPTIONS about the libraries (listed in the evidence), the code under proof is pyhf's."""
import z3

from .values import HostObj, NativeFn, PyRaise, Unsupported, is_num, is_z, is_zstr, is_obj



class Element(HostObj):
    def __init__(self, tag, attrib=None, **extra):
        self.tag = tag
        self.attrib = dict(attrib or {})
        self.attrib.update(extra)
        self.text = None
        self.tail = None
        self.children = []

    # element API used by pyhf
    def append(self, e):
        self.children.append(e)

    def findall(self, tag):
        return [c for c in self.children if c.tag == tag]

    def find(self, tag):
        for c in self.children:
            if c.tag == tag:
                return c
        return None

    def iter(self):
        out = [self]
        for c in self.children:
            out.extend(c.iter())
        return out

    def __len__(self):
        return len(self.children)

    def __iter__(self):
        return iter(self.children)

    def __bool__(self):
        return True


class Tree(HostObj):
    def __init__(self, root):
        self.root = root

    def getroot(self):
        return self.root

    def findall(self, tag):
        return self.root.findall(tag)

    def find(self, tag):
        return self.root.find(tag)


class Blob(HostObj):
    """serialised form of an element (ET.tostring): carries the element itself"""

    def __init__(self, elem, prefix=()):
        self.elem, self.prefix = elem, tuple(prefix)

    def decode(self, *_a):
        return self

    def encode(self, *_a):
        return self

    def __radd__(self, other):
        return Blob(self.elem, (other,) + self.prefix)

    def __add__(self, other):
        return Blob(self.elem, self.prefix + (other,))


class FileSystem(HostObj):
    """path -> content; a write replaces the content (new version).  Every write gives the file a new
    (modification time, size) stamp - ASSUMED of the real file system (distinct writes are distinguishable by stat)"""

    def __init__(self):
        self.files = {}
        self.stamps = {}
        self.clock = 0

    def key(self, p):
        return str(p)

    def clear(self):
        self.files.clear()
        self.stamps.clear()
        self.clock = 0

    def write(self, p, content):
        k = self.key(p)
        self.clock += 1
        self.files[k] = content
        self.stamps[k] = self.clock

    def stat(self, p):
        k = self.key(p)
        if k not in self.files:
            raise PyRaise(FileNotFoundError, (k,))
        return StatResult(self.stamps[k])

    def backup(self):
        """copy of all files with their time stamps (cp -p)"""
        return dict(self.files), dict(self.stamps)

    def restore(self, saved):
        """put saved files back WITH their old time stamps (cp -p / tar x): the stamps go backwards"""
        files, stamps = saved
        self.files.update(files)
        self.stamps.update(stamps)


class StatResult(HostObj):
    def __init__(self, version):
        self.st_mtime_ns = 1_000_000_000 + version
        self.st_mtime = 1.0 + version * 1e-9
        self.st_size = 4096
        self.st_ino = 7


class TextFile(HostObj):
    def __init__(self, fs, path, mode):
        self.fs, self.path, self.mode = fs, path, mode
        self.parts = []

    def write(self, x):
        self.parts.append(x)

    def read(self):
        return self.fs.files[self.fs.key(self.path)]

    def __enter__(self):
        return self

    def __exit__(self, *a):
        if "w" in self.mode:
            blobs = [p for p in self.parts if isinstance(p, Blob)]
            self.fs.write(self.path, blobs[-1] if blobs else list(self.parts))
        return False


class RootFile(HostObj):
    """uproot writable / readable file: histogram name -> (values, edges)"""

    def __init__(self, fs, path):
        self.fs, self.file_path = fs, str(path)
        self.hists = {}

    def __contains__(self, name):
        return name in self.hists

    def __setitem__(self, name, value):
        self.hists[name] = value

    def __getitem__(self, name):
        return Hist(self.hists[name])

    def keys(self, cycle=True):
        return list(self.hists.keys())

    def __enter__(self):
        return self

    def __exit__(self, *a):
        return False


class Hist(HostObj):
    """histogram read back: bin contents as doubles; written without weights (variances == contents)"""
    weighted = False

    def __init__(self, stored):
        values, self.edges = stored
        self.values = as_arr(values).astype("float")

    def to_numpy(self):
        return (self.values, self.edges)

    def variances(self):
        return self.values


# ---------------------------------------------------------------- numpy (the few calls writexml / readxml make)
def _is_int(x):
    if isinstance(x, bool):
        return False
    if isinstance(x, int):
        return True
    return is_z(x) and is_num(x) and x.is_int()


def _real(x):
    if is_z(x):
        return z3.ToReal(x) if x.is_int() else x
    return x


def _nz(x):
    return (x != 0)


def _div(a, b):
    a, b = _real(a), _real(b)
    if not is_z(a) and not is_z(b):
        if b == 0:
            return float("nan") if a == 0 else float("inf") * (1 if a > 0 else -1)     # numpy: warning, no exception
        return a / b
    if not is_z(b) and b == 0:
        return z3.Real("div_by_zero!")       # unconstrained
    return a / b


def _mul(a, b):
    return _real(a) * _real(b)


class NpArr(HostObj):
    """numpy array as far as pyhf's xml code uses it: nested python lists of (symbolic) numbers and a dtype kind"""

    def __init__(self, data, dtype):
        self.data, self.dtype = data, dtype

    @property
    def ndim(self):
        d, n = self.data, 0
        while isinstance(d, list):
            n += 1
            d = d[0] if d else None
        return n

    def astype(self, dtype):
        dtype = _kind(dtype)

        def conv(x):
            if isinstance(x, list):
                return [conv(y) for y in x]
            if dtype == "float":
                return float(x) if not is_z(x) else _real(x)
            return x
        return NpArr(conv(self.data), dtype)

    def tolist(self):
        return self.data

    @property
    def T(self):
        if self.ndim != 2:
            return self
        return NpArr([list(col) for col in zip(*self.data)], self.dtype)

    def __len__(self):
        if not isinstance(self.data, list):
            raise PyRaise(TypeError, ("len() of unsized object",))
        return len(self.data)

    def __iter__(self):
        if not isinstance(self.data, list):
            raise PyRaise(TypeError, ("iteration over a 0-d array",))
        return iter([NpArr(x, self.dtype) for x in self.data])

    def map2(self, other, f, dtype):
        o = other.data if isinstance(other, NpArr) else other

        def rec(a, b):
            if isinstance(a, list) and isinstance(b, list):
                if len(a) != len(b):
                    raise PyRaise(ValueError, ("operands could not be broadcast together",))
                return [rec(x, y) for x, y in zip(a, b)]
            if isinstance(a, list):
                return [rec(x, b) for x in a]
            if isinstance(b, list):
                return [rec(a, y) for y in b]
            return f(a, b)
        return NpArr(rec(self.data, o), dtype)

    def py_compare(self, opname, other):
        import operator
        fn = {"Eq": operator.eq, "NotEq": operator.ne, "Lt": operator.lt, "LtE": operator.le, "Gt": operator.gt, "GtE": operator.ge}[opname]
        return self.map2(other, lambda a, b: fn(_real(a), _real(b)), "bool")

    def __bool__(self):
        raise PyRaise(ValueError, ("truth value of an array is ambiguous",))


def _kind(dtype):
    if dtype in ("float", float, "float64", "f8"):
        return "float"
    if dtype in ("int", int, "int64"):
        return "int"
    if dtype in ("bool", bool):
        return "bool"
    raise Unsupported(f"dtype {dtype!r}")


def as_arr(x, dtype=None):
    if isinstance(x, NpArr):
        return x if dtype is None else x.astype(dtype)
    if isinstance(x, tuple):
        x = list(x)

    def strip(v):
        if isinstance(v, NpArr):
            return v.data
        if isinstance(v, (list, tuple)):
            return [strip(y) for y in v]
        return v

    def leaves(v):
        if isinstance(v, list):
            for y in v:
                yield from leaves(y)
        else:
            yield v
    data = strip(x)
    if any(v is None or isinstance(v, str) or is_zstr(v) or is_obj(v) for v in leaves(data)):
        raise Unsupported("array of non-numbers")
    kind = "int" if all(_is_int(v) for v in leaves(data)) and list(leaves(data)) else "float"
    arr = NpArr(data, kind)
    if kind == "float":
        arr = arr.astype("float")
    return arr if dtype is None else arr.astype(dtype)


def np_zeros_like(x, dtype=None):
    a = as_arr(x)
    if dtype is not None:
        a = NpArr(a.data, _kind(dtype))
    zero = 0 if a.dtype == "int" else (False if a.dtype == "bool" else 0.0)

    def rec(v):
        return [rec(y) for y in v] if isinstance(v, list) else zero
    return NpArr(rec(a.data), a.dtype)


def np_divide(a, b, out=None, where=True, dtype=None):
    """numpy.divide with out / where / dtype: the computation is done in `dtype`; storing into `out` follows the
    same_kind casting rule (float results cannot be stored into an integer array: UFuncTypeError, a TypeError)"""
    A, Bm = as_arr(a), as_arr(b)
    kind = _kind(dtype) if dtype is not None else "float"
    if out is not None and as_arr(out).dtype == "int" and kind == "float":
        raise PyRaise(TypeError, ("Cannot cast ufunc 'divide' output from dtype('float64') to dtype('int64') with casting rule 'same_kind'",))
    q = A.map2(Bm, _div, "float")
    if where is True:
        return q
    if out is None:
        raise Unsupported("np.divide(where=...) without out=")
    W, O = as_arr(where), as_arr(out)

    def rec(w, x, o):
        if isinstance(x, list):
            ws = w if isinstance(w, list) else [w] * len(x)
            os_ = o if isinstance(o, list) else [o] * len(x)
            return [rec(wi, xi, oi) for wi, xi, oi in zip(ws, x, os_)]
        if isinstance(w, bool):
            return x if w else _real(o)
        return z3.If(w, _real(x) if is_z(x) else z3.RealVal(repr(x)), _real(o) if is_z(o) else z3.RealVal(repr(float(o))))
    return NpArr(rec(W.data, q.data, O.data), "float")


def np_multiply(a, b):
    return as_arr(a).map2(as_arr(b), _mul, "float")


def np_sqrt(a):
    from .tensor import Sqrt

    def rec(v):
        if isinstance(v, list):
            return [rec(y) for y in v]
        if is_z(v):
            return Sqrt(_real(v))
        return float(v) ** 0.5 if v >= 0 else float("nan")
    return NpArr(rec(as_arr(a).data), "float")


def np_arange(n):
    if is_z(n):
        raise Unsupported("np.arange of a symbolic length")
    return NpArr(list(range(n)), "int")


# ---------------------------------------------------------------- pathlib / tqdm / re
class HPath(HostObj):
    def __init__(self, p):
        import pathlib
        self.p = p.p if isinstance(p, HPath) else pathlib.PurePosixPath(p)

    def joinpath(self, *others):
        return HPath(self.p.joinpath(*[o.p if isinstance(o, HPath) else o for o in others]))

    @property
    def parent(self):
        return HPath(self.p.parent)

    @property
    def parents(self):
        return [HPath(x) for x in self.p.parents]

    def relative_to(self, other):
        try:
            return HPath(self.p.relative_to(other.p if isinstance(other, HPath) else other))
        except ValueError as e:
            raise PyRaise(ValueError, (str(e),))

    def __str__(self):
        return str(self.p)

    def __fspath__(self):
        return str(self.p)

    def __eq__(self, o):
        return isinstance(o, HPath) and o.p == self.p

    def __hash__(self):
        return hash(self.p)


class Progress(HostObj):
    """tqdm.tqdm: iterates its iterable, set_description has no effect"""

    def __init__(self, items):
        self.items = list(items)

    def __iter__(self):
        return iter(self.items)

    def __len__(self):
        return len(self.items)

    def set_description(self, *a, **k):
        return None


class Match(HostObj):
    def __init__(self, m):
        self.m = m

    def group(self, *a):
        return self.m.group(*a)


def install(eng, fs=None):
    """register the library models in an engine's policy; returns the abstract file system"""
    fs = fs or FileSystem()
    pol = eng.policy
    P = lambda f: (lambda e, rec: f(*rec.args, **rec.kwargs))

    def et_tostring(elem, encoding=None):
        return Blob(elem)

    def et_parse(src):
        if isinstance(src, Blob):
            return Tree(src.elem)
        content = fs.files.get(fs.key(src))
        if content is None:
            raise PyRaise(FileNotFoundError, (str(src),))
        if isinstance(content, Blob):
            return Tree(content.elem)
        raise Unsupported("ET.parse of a file that does not hold an element")
    pol["ext:xml.etree.ElementTree.Element"] = P(lambda tag, attrib=None, **extra: Element(tag, attrib, **extra))
    pol["ext:xml.etree.ElementTree.tostring"] = P(et_tostring)
    pol["ext:xml.etree.ElementTree.parse"] = P(et_parse)

    def uproot_recreate(path):
        f = RootFile(fs, path)
        fs.write(path, f)
        return f

    def uproot_open(path):
        f = fs.files.get(fs.key(path))
        if not isinstance(f, RootFile):
            raise PyRaise(FileNotFoundError, (str(path),))
        # opening gives a snapshot handle of the file as it is now
        snap = RootFile(fs, path)
        snap.hists = dict(f.hists)
        return snap
    pol["ext:uproot.recreate"] = P(uproot_recreate)
    pol["ext:uproot.open"] = P(uproot_open)
    pol["ext:uproot.to_writable"] = P(lambda t: t)
    pol["ext:builtins.open"] = P(lambda path, mode="r", **kw: TextFile(fs, path, mode))
    pol["ext:shutil.copyfile"] = P(lambda a, b: None)
    pol["ext:os.stat"] = P(lambda path, **kw: fs.stat(path))
    pol["ext:os.path.getmtime"] = P(lambda path: fs.stat(path).st_mtime)
    pol["ext:numpy.asarray"] = P(lambda x, dtype=None: as_arr(x, dtype))
    pol["ext:numpy.array"] = P(lambda x, dtype=None: as_arr(x, dtype))
    pol["ext:numpy.zeros_like"] = P(np_zeros_like)
    pol["ext:numpy.divide"] = P(np_divide)
    pol["ext:numpy.multiply"] = P(np_multiply)
    pol["ext:numpy.sqrt"] = P(np_sqrt)
    pol["ext:numpy.arange"] = P(np_arange)
    pol["ext:pathlib.Path"] = P(HPath)
    pol["ext:tqdm.tqdm"] = P(lambda items, **kw: Progress(eng.iterate(items)))

    def re_search(pattern, string, flags=0):
        import re
        if is_z(pattern) or is_z(string):
            raise Unsupported("re.search on symbolic text")
        m = re.search(pattern, string, flags)
        return None if m is None else Match(m)
    pol["ext:re.search"] = P(re_search)
    return fs
