"""pyvc - a small verification-condition generator for the real pyhf sources.

Every run parses the current /repo/src/pyhf/**/*.py with ``ast`` and executes the
function bodies *symbolically* (mixed concrete / z3 values).  Contracts live in
/verif/contracts; obligations are discharged with z3 (cvc5 as second back end).
"""
import os

REPO = os.environ.get("PYVC_REPO", "/repo")
SRC_ROOT = os.path.join(REPO, "src")
VERIF = os.path.dirname(os.path.dirname(os.path.abspath(__file__)))
