"""Mixed concrete / symbolic AST interpreter with decision-replay forking (DESIGN.md 2.2-2.4)."""
import ast
import hashlib
import operator
import os

import z3

from . import SRC_ROOT
from .values import (B, I, R, S, NAN, NONE, Bound, BreakSignal, ClassV, ContinueSignal, Ext, FiltV, HostObj,
                     FuncV, Infeasible, NativeFn, Obj, PyRaise, Rec, ReturnSignal, SeqV, SuperV, SymList,
                     Unsupported, box_bool, box_real, box_str, is_num, is_obj, is_sym, is_z,
                     is_zbool, is_zstr, isnone_of, item_of, len_of, real_of, str_of, truthy_of,
                     ufunc)

DROPPED_CALL_BASES = {"log"}          # log.<level>(...) calls are dropped (assumed effect free)


# --------------------------------------------------------------------------------------
# modules
# --------------------------------------------------------------------------------------
class ModuleV:
    def __init__(self, engine, modname, path):
        self.engine, self.modname, self.path = engine, modname, path
        self.relpath = os.path.relpath(path, os.path.join(SRC_ROOT, "pyhf"))
        self.ns = {}
        self.loaded = False
        self.source = None
        self.tree = None

    def load(self):
        if self.loaded:
            return
        self.loaded = True
        with open(self.path) as f:
            self.source = f.read()
        self.tree = ast.parse(self.source)
        self.ns["__name__"] = self.modname
        eng = self.engine
        for st in self.tree.body:
            try:
                eng.exec_module_stmt(self, st)
            except Unsupported as e:
                # a module level statement outside the subset poisons only the names it binds
                for nm in _bound_names(st):
                    self.ns[nm] = _Poison(f"{self.relpath}:{st.lineno}: {e.what}")
            except PyRaise as e:
                for nm in _bound_names(st):
                    self.ns[nm] = _Poison(f"{self.relpath}:{st.lineno}: raised {e}")

    def get(self, name):
        self.load()
        if name in self.ns:
            v = self.ns[name]
            if isinstance(v, _Poison):
                raise Unsupported(f"module-level binding {name}: {v.why}")
            return v
        # submodule?
        sub = self.engine.find_module(self.modname + "." + name)
        if sub is not None:
            return sub
        raise PyRaise(AttributeError, (f"module {self.modname} has no attribute {name}",))

    def reload(self):
        """forget the module state (module-level mutable state must not leak from one explored path into the next)"""
        self.ns.clear()          # in place: functions imported elsewhere keep resolving their globals here
        self.loaded = False

    def func(self, qualname):
        """look up Class.method or function by qualified name"""
        self.load()
        parts = qualname.split(".")
        v = self.get(parts[0])
        for p in parts[1:]:
            if isinstance(v, ClassV):
                v, _ = v.lookup(p)
            else:
                raise KeyError(qualname)
        return v

    def __repr__(self):
        return f"<ModuleV {self.modname}>"


class GenList(list):
    """the eagerly evaluated items of a generator expression (next() consumes from the front)"""
    pos = 0


class _Poison:
    def __init__(self, why):
        self.why = why


def _bound_names(st):
    out = []
    if isinstance(st, (ast.FunctionDef, ast.ClassDef)):
        out.append(st.name)
    elif isinstance(st, ast.Assign):
        for t in st.targets:
            for n in ast.walk(t):
                if isinstance(n, ast.Name):
                    out.append(n.id)
    elif isinstance(st, (ast.Import, ast.ImportFrom)):
        for a in st.names:
            out.append((a.asname or a.name).split(".")[0])
    return out


# --------------------------------------------------------------------------------------
# paths
# --------------------------------------------------------------------------------------
class CallRec:
    def __init__(self, target, args, kwargs, pc, seq):
        self.target, self.args, self.kwargs, self.pc, self.seq = target, args, kwargs, pc, seq
        self.result = None
        self.raised = None

    def arg(self, i, name=None, default=KeyError):
        if i is not None and i < len(self.args):
            return self.args[i]
        if name is not None and name in self.kwargs:
            return self.kwargs[name]
        if default is KeyError:
            raise KeyError((i, name))
        return default

    def __repr__(self):
        return f"<Call#{self.seq} {self.target} args={self.args} kw={self.kwargs}>"


class Path:
    def __init__(self, prefix):
        self.prefix = list(prefix)
        self.pos = 0
        self.taken = []
        self.alternatives = []
        self.pc = []            # branch conditions
        self.facts = []         # assumed facts (requires, callee ensures, box axioms)
        self.calls = []         # CallRec in program order
        self.trace = []         # ghost trace of effects (strings / tuples)
        self.obligations = []   # (name, hyps(list), goal, meta)
        self.counter = {}
        self.opaque_used = set()
        self.dropped = []

    def hyps(self):
        return self.facts + self.pc

    def fresh(self, base):
        k = self.counter.get(base, 0)
        self.counter[base] = k + 1
        return f"{base}!{k}" if k else base


class PathResult:
    def __init__(self, path, kind, value):
        self.path, self.kind, self.value = path, kind, value   # kind: 'return' | 'raise'

    @property
    def exc_name(self):
        if self.kind != "raise":
            return None
        c = self.value.cls
        return c.name if isinstance(c, ClassV) else c.__name__


# --------------------------------------------------------------------------------------
# the engine
# --------------------------------------------------------------------------------------
class Engine:
    def __init__(self, policy=None, branch_timeout_ms=3000):
        self.modules = {}
        self.policy = dict(policy or {})      # key -> handler | 'inline' | 'opaque'
        self.path = None
        self.branch_timeout_ms = branch_timeout_ms
        self.axiom_schemas = []               # callables(term_set) -> facts (see solver.py)
        self.tensorlib = None                 # set by pyvc.tensor
        self.builtins = {}
        self.stats = {"branches": 0, "feasibility_checks": 0, "paths": 0}
        self.attr_reads = set()
        self.sources_used = {}                # relpath -> sha256
        self.max_paths = 4096
        self.reductions = {}
        self._redk = 0
        from . import builtins_model
        builtins_model.install(self)

    # ---------------- modules ----------------
    def find_module(self, modname):
        if modname in self.modules:
            return self.modules[modname]
        if not (modname == "pyhf" or modname.startswith("pyhf.")):
            return None
        rel = modname.replace(".", "/")
        for cand in (os.path.join(SRC_ROOT, rel + ".py"), os.path.join(SRC_ROOT, rel, "__init__.py")):
            if os.path.exists(cand):
                m = ModuleV(self, modname, cand)
                self.modules[modname] = m
                with open(cand, "rb") as f:
                    self.sources_used[m.relpath] = hashlib.sha256(f.read()).hexdigest()[:16]
                return m
        return None

    def module(self, relpath):
        """module by path relative to src/pyhf, e.g. 'infer/mle.py'"""
        mod = "pyhf." + relpath[:-3].replace("/", ".")
        if mod.endswith(".__init__"):
            mod = mod[: -len(".__init__")]
        m = self.find_module(mod)
        if m is None:
            raise Unsupported(f"contract target module not found: {relpath}")
        m.load()
        return m

    def func(self, key):
        relpath, qual = key.split("::")
        try:
            f = self.module(relpath).func(qual)
        except (KeyError, PyRaise):
            f = None
        if f is None:
            raise Unsupported(f"contract target not found: {key}")
        return f

    def reduction(self, kind, n, body):
        """Sigma / Pi of body(j) over 0 <= j < n for a symbolic extent n (DESIGN 2.5, rules R1-R3)"""
        from .solver import SumF, ProdF
        from .tensor import RedNode
        self._redk += 1
        j = z3.Int(f"red!{self._redk}")
        b = self.to_real(body(j))
        arr = z3.Lambda([j], b)
        n = n if is_z(n) else z3.IntVal(n)
        t = (SumF if kind == "sum" else ProdF)(n, arr)
        self.reductions[t.get_id()] = RedNode(kind, n, j, b, t)
        return t

    # ---------------- symbols ----------------
    def obj(self, name):
        return z3.Const(self.path.fresh(name), Obj)

    def real(self, name):
        return z3.Real(self.path.fresh(name))

    def int(self, name):
        return z3.Int(self.path.fresh(name))

    def bool(self, name):
        return z3.Bool(self.path.fresh(name))

    def string(self, name):
        return z3.String(self.path.fresh(name))

    def assume(self, fact):
        if fact is True:
            return
        if fact is False:
            raise Infeasible()
        self.path.facts.append(fact)

    def require(self, name, goal, **meta):
        """an obligation at the current program point (caller-side requires, assert, ...)"""
        self.path.obligations.append((name, list(self.path.hyps()), goal, meta))

    def ghost(self, *event):
        self.path.trace.append(event if len(event) > 1 else event[0])

    # ---------------- exploring paths ----------------
    def explore(self, thunk):
        """run thunk() along every feasible path; returns list of PathResult"""
        results = []
        work = [[]]
        from . import tensor as _tensor
        _tensor._CURRENT_ENGINE[0] = self
        while work:
            prefix = work.pop()
            self.path = Path(prefix)
            Rec._ids = 0
            self.stats["paths"] += 1
            if self.stats["paths"] > self.max_paths:
                raise Unsupported(f"more than {self.max_paths} paths")
            try:
                v = thunk()
                res = PathResult(self.path, "return", v)
            except PyRaise as e:
                res = PathResult(self.path, "raise", e)
            except PathCut as e:
                res = PathResult(self.path, "cut", e)
            except Infeasible:
                work.extend(self.path.alternatives)
                continue
            results.append(res)
            work.extend(self.path.alternatives)
        return results

    def feasible(self, cond):
        self.stats["feasibility_checks"] += 1
        s = z3.Solver()
        s.set("timeout", self.branch_timeout_ms)
        hyps = self.path.hyps() + [cond]
        from .solver import instantiate_axioms
        s.add(*hyps)
        s.add(*instantiate_axioms(self, hyps))
        r = s.check()
        return r != z3.unsat

    def branch(self, cond):
        """decide a symbolic condition on this path (forks by decision replay)"""
        if isinstance(cond, bool):
            return cond
        cond = z3.simplify(cond)
        if z3.is_true(cond):
            return True
        if z3.is_false(cond):
            return False
        p = self.path
        self.stats["branches"] += 1
        if p.pos < len(p.prefix):
            d = p.prefix[p.pos]
        else:
            can_t = self.feasible(cond)
            can_f = self.feasible(z3.Not(cond))
            if can_t and can_f:
                p.alternatives.append(p.taken + [False])
                d = True
            elif can_t:
                d = True
            elif can_f:
                d = False
            else:
                raise Infeasible()
        p.pos += 1
        p.taken.append(d)
        p.pc.append(cond if d else z3.Not(cond))
        return d

    # ---------------- coercions ----------------
    def to_real(self, v):
        import numpy as _np
        if isinstance(v, _np.generic) or (isinstance(v, _np.ndarray) and v.size == 1):
            v = v.item()
        if isinstance(v, bool):
            return z3.RealVal(1 if v else 0)
        if isinstance(v, int):
            return z3.RealVal(v)
        if isinstance(v, float):
            if v != v:
                return NAN
            if v in (float("inf"), float("-inf")):
                raise Unsupported("infinite float in arithmetic")
            return z3.RealVal(repr(v))
        if is_num(v):
            return z3.ToReal(v) if v.is_int() else v
        if is_zbool(v):
            return z3.If(v, z3.RealVal(1), z3.RealVal(0))
        if is_obj(v):
            return real_of(v)
        from .tensor import PT
        if isinstance(v, PT) and v.shape == ():
            return self.to_real(v.fn(()))
        raise Unsupported(f"cannot view {type(v).__name__} as a number")

    def to_arith(self, v):
        """z3 arithmetic term keeping Int-ness"""
        import numpy as _np
        if isinstance(v, _np.generic):
            v = v.item()
        if isinstance(v, bool):
            return z3.IntVal(1 if v else 0)
        if isinstance(v, int):
            return z3.IntVal(v)
        if is_num(v):
            return v
        return self.to_real(v)

    def to_bool(self, v):
        """z3 Bool / python bool view (truthiness) without forking"""
        if isinstance(v, bool):
            return v
        if isinstance(v, HostObj):
            return bool(v)
        if self.is_native_concrete(v):
            return self._concrete(lambda: bool(v))
        if v is None:
            return False
        if is_zbool(v):
            return v
        if is_num(v):
            return v != 0
        if is_zstr(v):
            return z3.Length(v) > 0
        if is_obj(v):
            return truthy_of(v)
        if isinstance(v, (SeqV, SymList)):
            return v.n > 0
        if isinstance(v, (int, float, str, list, tuple, dict, set, range, frozenset)):
            return bool(v)
        from .tensor import PT
        if isinstance(v, PT):
            if v.shape == ():
                return self.to_bool(v.fn(()))
            raise Unsupported("truth value of a non-scalar tensor")
        if isinstance(v, Rec):
            f, _ = v.cls.lookup("__len__")
            if f is not None:
                return self.to_bool(self.compare(ast.Gt(), self.call(Bound(f, v), [], {}), 0))
            return True
        return True

    def truth(self, v):
        return self.branch(self.to_bool(v))

    def box(self, v):
        """view any interpreter value as an Obj term (for arguments of uninterpreted symbols)"""
        if is_obj(v):
            return v
        if v is None:
            self._fact_once(isnone_of(NONE))
            return NONE
        if isinstance(v, bool):
            t = box_bool(z3.BoolVal(v))
            self._fact_once(truthy_of(t) == z3.BoolVal(v))
            self._fact_once(z3.Not(isnone_of(t)))
            return t
        if isinstance(v, (int, float)) or is_num(v):
            r = self.to_real(v)
            t = box_real(r)
            self._fact_once(real_of(t) == r)
            self._fact_once(z3.Not(isnone_of(t)))
            return t
        if is_zbool(v):
            t = box_bool(v)
            self._fact_once(truthy_of(t) == v)
            return t
        if isinstance(v, str) or is_zstr(v):
            s = z3.StringVal(v) if isinstance(v, str) else v
            t = box_str(s)
            self._fact_once(str_of(t) == s)
            self._fact_once(z3.Not(isnone_of(t)))
            return t
        if isinstance(v, (list, tuple)):
            elems = [self.box(e) for e in v]
            f = ufunc(f"seq{len(elems)}", *([Obj] * len(elems)), Obj)
            t = f(*elems) if elems else z3.Const("seq0", Obj)
            self._fact_once(len_of(t) == len(elems))
            self._fact_once(z3.Not(isnone_of(t)))
            self._fact_once(truthy_of(t) == z3.BoolVal(len(elems) > 0))
            for k, e in enumerate(elems):
                self._fact_once(item_of(t, self.box(k)) == e)
            return t
        if isinstance(v, dict):
            keys = list(v.keys())
            if all(isinstance(k, str) for k in keys):
                keys = sorted(keys)
                f = ufunc("dict{" + ",".join(keys) + "}", *([Obj] * len(keys)), Obj)
                elems = [self.box(v[k]) for k in keys]
                t = f(*elems) if elems else z3.Const("dict{}", Obj)
                self._fact_once(truthy_of(t) == z3.BoolVal(len(keys) > 0))
                self._fact_once(z3.Not(isnone_of(t)))
                for k, e in zip(keys, elems):
                    self._fact_once(item_of(t, self.box(k)) == e)
                return t
            elems = []
            for k in keys:
                elems += [self.box(k), self.box(v[k])]
            f = ufunc(f"dictkv{len(keys)}", *([Obj] * len(elems)), Obj)
            return f(*elems)
        if isinstance(v, FiltV):
            i = z3.Int("i!fv")
            f = ufunc("filtered_list", z3.ArraySort(I, B), z3.ArraySort(I, Obj), I, Obj)
            return f(z3.Lambda([i], _zb(self.to_bool(v.pred.at(self, i)))), z3.Lambda([i], self.box(v.elem.at(self, i))), v.n if is_z(v.n) else z3.IntVal(v.n))
        if isinstance(v, SymList):
            i = z3.Int("i!bx")
            v = SeqV(z3.Lambda([i], self.box(v.at(self, i))), v.n)
        if isinstance(v, SeqV):
            f = ufunc("seqv", z3.ArraySort(I, Obj), I, Obj)
            t = f(v.arr, v.n)
            self._fact_once(len_of(t) == v.n)
            return t
        if isinstance(v, (FuncV, ClassV, ModuleV, Ext, NativeFn, Bound, Rec, type)) or callable(v):
            return z3.Const("ref:" + self.ref_name(v), Obj)
        from .tensor import PT
        if isinstance(v, PT):
            return v.boxed(self)
        if isinstance(v, slice):
            f = ufunc("slice3", Obj, Obj, Obj, Obj)
            return f(self.box(v.start), self.box(v.stop), self.box(v.step))
        if isinstance(v, (set, frozenset)):
            return self.box(sorted(v, key=repr))
        if isinstance(v, range):
            return self.box(list(v))
        raise Unsupported(f"cannot box {type(v).__name__}")

    def ref_name(self, v):
        if isinstance(v, FuncV):
            return v.key
        if isinstance(v, ClassV):
            return f"class:{v.name}"
        if isinstance(v, ModuleV):
            return f"module:{v.modname}"
        if isinstance(v, Ext):
            return f"ext:{v.path}"
        if isinstance(v, NativeFn):
            return f"native:{v.name}"
        if isinstance(v, Bound):
            return f"bound:{self.ref_name(v.func)}@{self.ref_name(v.self_obj)}"
        if isinstance(v, Rec):
            return f"rec:{v.cls.name}#{v.id}"
        if isinstance(v, type):
            return f"type:{v.__name__}"
        return f"py:{getattr(v, '__name__', repr(v))}"

    def _fact_once(self, fact):
        p = self.path
        seen = p.__dict__.setdefault("_fact_ids", set())
        k = fact.get_id()
        if k not in seen:
            seen.add(k)
            p.facts.append(fact)

    # ---------------- equality of values ----------------
    def veq(self, a, b):
        """z3 Bool (or python bool) stating that two interpreter values are equal"""
        from .tensor import PT
        if isinstance(a, PT) or isinstance(b, PT):
            raise Unsupported("veq on tensors: use tensor obligations")
        if isinstance(a, (SeqV, SymList)) or isinstance(b, (SeqV, SymList)):
            return self._seq_eq(a, b)
        if is_obj(a) or is_obj(b):
            if is_obj(a) and is_obj(b):
                return a == b
            o, x = (a, b) if is_obj(a) else (b, a)
            if x is None:
                return isnone_of(o)
            if isinstance(x, bool) or is_zbool(x):
                return z3.And(z3.Not(isnone_of(o)), truthy_of(o) == x) if isinstance(x, bool) else truthy_of(o) == x
            if isinstance(x, (int, float)) or is_num(x):
                return real_of(o) == self.to_real(x)
            if isinstance(x, str) or is_zstr(x):
                return str_of(o) == (z3.StringVal(x) if isinstance(x, str) else x)
            return o == self.box(x)
        if is_z(a) or is_z(b):
            if is_zstr(a) or is_zstr(b):
                if isinstance(a, str):
                    a = z3.StringVal(a)
                if isinstance(b, str):
                    b = z3.StringVal(b)
                if not (is_zstr(a) and is_zstr(b)):
                    return False
                return a == b
            if is_zbool(a) and (is_zbool(b) or isinstance(b, bool)):
                return a == b
            if is_zbool(b) and isinstance(a, bool):
                return a == b
            if a is None or b is None:
                return False
            if isinstance(a, (str, list, tuple, dict)) or isinstance(b, (str, list, tuple, dict)):
                return False
            return self.to_real(a) == self.to_real(b)
        if isinstance(a, (list, tuple)) and isinstance(b, (list, tuple)):
            if type(a) is not type(b) and not (isinstance(a, (list, tuple)) and isinstance(b, (list, tuple))):
                return False
            if isinstance(a, list) != isinstance(b, list):
                return False
            if len(a) != len(b):
                return False
            return _and([self.veq(x, y) for x, y in zip(a, b)])
        if isinstance(a, dict) and isinstance(b, dict):
            if set(a.keys()) != set(b.keys()):
                return False
            return _and([self.veq(a[k], b[k]) for k in a])
        if isinstance(a, (Rec, FuncV, ClassV, ModuleV, Bound)) or isinstance(b, (Rec, FuncV, ClassV, ModuleV, Bound)):
            if isinstance(a, Bound) and isinstance(b, Bound):
                return a.func is b.func and a.self_obj is b.self_obj
            return a is b
        try:
            return bool(a == b)
        except Exception:
            return False

    def _seq_eq(self, a, b):
        if isinstance(a, SymList) or isinstance(b, SymList):
            sa, sb = self.as_symiter(a), self.as_symiter(b)
            if sa is None or sb is None:
                s, x = (sa, b) if sa is not None and sb is None else (sb, a)
                if isinstance(x, (list, tuple)):
                    return _and([s.n == len(x)] + [self.veq(s.at(self, z3.IntVal(k)), e) for k, e in enumerate(x)])
                return False
            i = z3.Int(self.path.fresh("eq_i"))
            return _and([sa.n == sb.n, z3.Implies(z3.And(i >= 0, i < sa.n), _zbv(self.veq(sa.at(self, i), sb.at(self, i))))])
        if isinstance(a, SeqV) and isinstance(b, SeqV):
            i = z3.Int(self.path.fresh("eq_i"))
            # equality of sequences is stated at a fresh (skolem) index
            return z3.And(a.n == b.n, z3.Implies(z3.And(i >= 0, i < a.n), a.elem(i) == b.elem(i)))
        s, x = (a, b) if isinstance(a, SeqV) else (b, a)
        if isinstance(x, (list, tuple)):
            return _and([s.n == len(x)] + [s.elem(z3.IntVal(k)) == self.box(e) for k, e in enumerate(x)])
        if is_obj(x):
            i = z3.Int(self.path.fresh("eq_i"))
            return z3.And(s.n == len_of(x),
                          z3.Implies(z3.And(i >= 0, i < s.n), s.elem(i) == item_of(x, self.box_int(i))))
        return False

    def box_int(self, i):
        t = box_real(z3.ToReal(i))
        self._fact_once(real_of(t) == z3.ToReal(i))
        return t

    # ---------------- statements ----------------
    def exec_module_stmt(self, mod, st):
        env = Env(mod.ns, None, mod)
        if isinstance(st, ast.Expr) and isinstance(st.value, ast.Constant):
            return
        saved = self.path
        if self.path is None:
            self.path = Path([])
        try:
            self.exec_stmt(st, env)
        finally:
            self.path = saved if saved is not None else None

    def exec_block(self, stmts, env):
        for st in stmts:
            self.exec_stmt(st, env)

    def exec_stmt(self, st, env):
        m = getattr(self, "st_" + type(st).__name__, None)
        if m is None:
            raise Unsupported(f"statement {type(st).__name__}", st, env.where(st))
        try:
            return m(st, env)
        except Unsupported as e:
            if e.where is None:
                e.where = env.where(st)
            raise

    def st_Expr(self, st, env):
        v = st.value
        if isinstance(v, ast.Constant):
            return                      # docstring / bare constant
        if isinstance(v, ast.Call) and isinstance(v.func, ast.Attribute) and isinstance(v.func.value, ast.Name) \
                and v.func.value.id in DROPPED_CALL_BASES:
            self.path.dropped.append(f"{env.where(st)} {v.func.value.id}.{v.func.attr}(...)")
            return
        self.eval(v, env)

    def st_Pass(self, st, env):
        pass

    def st_Assign(self, st, env):
        v = self.eval(st.value, env)
        if len(st.targets) == 1 and isinstance(st.targets[0], ast.Name):
            h = self.policy.get(("ghost_local", env.func_key(), st.targets[0].id))
            if h is not None:
                v = h(self, v)
            h = self.policy.get(("ghost_local", env.func_key(), "*"))       # role-based: the handler decides by the value
            if h is not None:
                v = h(self, v, st.targets[0].id)
        for t in st.targets:
            self.assign(t, v, env)

    def st_AnnAssign(self, st, env):
        if st.value is None:
            # bare annotation (dataclass field): remember the field order
            if isinstance(st.target, ast.Name):
                env.frame.setdefault("__annotations__", []).append(st.target.id)
            return
        v = self.eval(st.value, env)
        if isinstance(st.target, ast.Name):
            env.frame.setdefault("__annotations__", []).append(st.target.id)
        self.assign(st.target, v, env)

    def st_AugAssign(self, st, env):
        if isinstance(st.target, ast.Name):
            cur = env.lookup(st.target.id)
        else:
            cur = self.eval(st.target, env)
        rhs = self.eval(st.value, env)
        if isinstance(cur, list) and isinstance(st.op, ast.Add):
            # list += iterable mutates in place
            cur.extend(self.iterate(rhs))
            return
        v = self.binop(st.op, cur, rhs)
        self.assign(st.target, v, env)

    def st_Return(self, st, env):
        raise ReturnSignal(self.eval(st.value, env) if st.value is not None else None)

    def st_If(self, st, env):
        c = self.eval(st.test, env)
        if self.truth(c):
            self.exec_block(st.body, env)
        else:
            self.exec_block(st.orelse, env)

    def st_Raise(self, st, env):
        if st.exc is None:
            cur = env.lookup("__current_exception__", None)
            if cur is None:
                raise Unsupported("bare raise outside handler", st)
            raise cur
        exc = st.exc
        if isinstance(exc, ast.Call):
            cls = self.eval(exc.func, env)
            # exception message text is dropped unless cheap to evaluate (DESIGN 2.1)
            args = []
            for a in exc.args:
                try:
                    args.append(self.eval(a, env))
                except Unsupported:
                    args.append("<message>")
        else:
            cls = self.eval(exc, env)
            args = []
        if isinstance(cls, PyRaise):
            raise cls
        if isinstance(cls, Rec):       # raise instance
            raise PyRaise(cls.cls, cls.attrs.get("args", ()))
        if not (isinstance(cls, ClassV) or (isinstance(cls, type) and issubclass(cls, BaseException))):
            raise Unsupported(f"raise of non-class {cls!r}", st)
        raise PyRaise(cls, tuple(args))

    def st_Assert(self, st, env):
        c = self.eval(st.test, env)
        if not self.truth(c):
            raise PyRaise(AssertionError, ())

    def st_For(self, st, env):
        it = self.eval(st.iter, env)
        spec = self.policy.get(("loop", env.func_key(), _loop_ordinal(env, st)))
        if spec is not None:
            return self.for_by_invariant(spec, st, env, it)
        try:
            items = self.iterate(it, node=st, env=env)
        except Unsupported:
            # "out = []; for t in xs: [if c:] out.append(e)" over a sequence of symbolic length is the comprehension
            # [e for t in xs if c] (same elements, same order); recognised so that this harmless rewrite stays decidable
            shape = _append_loop_shape(st)
            if shape is None:
                raise
            out_name, elt, test = shape
            cur = env.lookup(out_name, None)
            if not (isinstance(cur, list) and cur == []):
                raise
            comp = ast.ListComp(elt=elt, generators=[ast.comprehension(target=st.target, iter=st.iter, ifs=[test] if test is not None else [], is_async=0)])
            ast.copy_location(comp, st)
            ast.fix_missing_locations(comp)
            env.bind(out_name, self.eval(comp, env))
            return
        broke = False
        live = it if type(it) is list else None       # CPython iterates a list by index over the LIVE object: mutation in the body is visible
        k = 0
        while True:
            if live is not None:
                if k >= len(live):
                    break
                x = live[k]
            else:
                if k >= len(items):
                    break
                x = items[k]
            k += 1
            self.assign(st.target, x, env)
            try:
                self.exec_block(st.body, env)
            except BreakSignal:
                broke = True
                break
            except ContinueSignal:
                continue
        if not broke:
            self.exec_block(st.orelse, env)

    def st_While(self, st, env):
        spec = self.policy.get(("loop", env.func_key(), _loop_ordinal(env, st)))
        if spec is not None:
            return self.loop_by_invariant(spec, st, env)
        n = 0
        while True:
            c = self.eval(st.test, env)
            if is_sym(c) and not (is_z(c) and (z3.is_true(z3.simplify(self.to_bool(c))) or z3.is_false(z3.simplify(self.to_bool(c))))):
                raise Unsupported("while loop with symbolic condition needs an invariant", st)
            if not self.truth(c):
                break
            n += 1
            if n > 10000:
                raise Unsupported("while loop did not terminate concretely", st)
            try:
                self.exec_block(st.body, env)
            except BreakSignal:
                return
            except ContinueSignal:
                continue
        self.exec_block(st.orelse, env)

    def loop_by_invariant(self, spec, st, env):
        """Hoare rule for a loop with a contract-supplied invariant: check it on entry, havoc the
        loop's variables under the invariant, check that one iteration re-establishes it (that path
        then ends), continue after the loop with invariant and negated condition."""
        tag = spec.name
        self.loop_node = st             # contracts may read the loop's own text to find the variables by role
        for cname, clause in spec.invariant(self, env):
            self.require(f"{tag}.{cname}.base", clause, kind="inv")
        spec.havoc(self, env)
        c = self.eval(st.test, env)
        if self.truth(c):
            try:
                self.exec_block(st.body, env)
            except (BreakSignal, ContinueSignal):
                raise Unsupported("break/continue in a loop handled by invariant", st)
            for cname, clause in spec.invariant(self, env):
                self.require(f"{tag}.{cname}.step", clause, kind="inv")
            raise PathCut(tag)
        self.exec_block(st.orelse, env)

    def for_by_invariant(self, spec, st, env, it):
        """`for target in seq` over a sequence of symbolic length n with invariant Inv(state, i):
        base Inv(0); step: havoc, assume 0 <= i < n and Inv(i), run the body on seq[i], check Inv(i+1)
        (the path ends there); exit: havoc, assume Inv(n), continue after the loop.  Paths that raise
        inside the body end as ordinary raising paths; path.loop_ctx tells the contract which i."""
        seq = self.as_symiter(it)
        if seq is None:
            if isinstance(it, (list, tuple)):
                seq = SymList(len(it), lambda e, i, it=it: self.getitem(list(it), i))
            else:
                raise Unsupported("loop invariant over a non-sequence", st)
        n = seq.n if is_z(seq.n) else z3.IntVal(seq.n)
        tag = spec.name
        self.assume(n >= 0)
        for cname, clause in spec.invariant(self, env, z3.IntVal(0)):
            self.require(f"{tag}.{cname}.base", clause, kind="inv")
        exit_b = z3.Bool(self.path.fresh("loop_exit!" + tag.split("#")[-1]))
        spec.havoc(self, env)
        if self.branch(exit_b):
            for cname, clause in spec.invariant(self, env, n):
                self.assume(clause)
            self.path.__dict__.setdefault("loop_ctx", {})[tag] = ("exit", n)
            if st.orelse:
                self.exec_block(st.orelse, env)
            return
        i = z3.Int(self.path.fresh("it!" + tag.split("#")[-1]))
        self.assume(z3.And(i >= 0, i < n))
        for cname, clause in spec.invariant(self, env, i):
            self.assume(clause)
        self.path.__dict__.setdefault("loop_ctx", {})[tag] = ("step", i)
        self.assign(st.target, seq.at(self, i), env)
        try:
            self.exec_block(st.body, env)
        except ContinueSignal:
            pass
        except BreakSignal:
            raise Unsupported("break in a loop handled by invariant", st)
        for cname, clause in spec.invariant(self, env, i + 1):
            self.require(f"{tag}.{cname}.step", clause, kind="inv")
        raise PathCut(tag)

    def st_Break(self, st, env):
        raise BreakSignal()

    def st_Continue(self, st, env):
        raise ContinueSignal()

    def st_FunctionDef(self, st, env):
        f = self.make_function(st, env)
        # decorators
        for d in reversed(st.decorator_list):
            f = self.apply_decorator(d, f, env)
        env.bind(st.name, f)

    def make_function(self, st, env, qual=None):
        qual = qual or (env.qualprefix + st.name)
        f = FuncV(st, env.module, env, qual)
        f.nested = env.in_function
        a = st.args
        f.defaults = [self.eval(d, env) for d in a.defaults]
        f.kw_defaults = [None if d is None else self.eval(d, env) for d in a.kw_defaults]
        return f

    def apply_decorator(self, d, f, env):
        name = _dotted(d.func if isinstance(d, ast.Call) else d)
        if name == "property":
            f.kind = "property"
            return f
        if name == "staticmethod":
            f.kind = "staticmethod"
            return f
        if name == "classmethod":
            f.kind = "classmethod"
            return f
        if name in ("wraps", "functools.wraps"):
            return f
        if name is not None and name.endswith(".setter"):
            prop = env.lookup(name.split(".")[0])
            prop.setter = f
            f.kind = "setter"
            f.prop = prop
            return prop
        if name in ("dataclass", "dataclasses.dataclass"):
            f.is_dataclass = True
            return f
        if isinstance(f, FuncV):
            f.decorators = getattr(f, "decorators", []) + [d]
            # click / events decorators: kept declaratively, function body unchanged
            if name and (name.startswith("click.") or name.split(".")[0] in ("cli", "events") or ".command" in name
                         or ".option" in name or ".argument" in name or ".group" in name):
                return f
        raise Unsupported(f"decorator {name}", d)

    def st_ClassDef(self, st, env):
        bases = [self.eval(b, env) for b in st.bases]
        ns = {}
        cls = ClassV(st.name, bases, ns, env.module, st)
        cenv = Env(ns, env, env.module, qualprefix=env.qualprefix + st.name + ".", in_function=env.in_function, kind="class")
        for s in st.body:
            if isinstance(s, ast.Expr) and isinstance(s.value, ast.Constant):
                continue
            self.exec_stmt(s, cenv)
        for v in ns.values():
            if isinstance(v, FuncV) and v.cls is None:
                v.cls = cls
        for d in st.decorator_list:
            name = _dotted(d.func if isinstance(d, ast.Call) else d)
            if name in ("dataclass", "dataclasses.dataclass"):
                cls.is_dataclass = True
            else:
                raise Unsupported(f"class decorator {name}", d)
        env.bind(st.name, cls)

    def st_Import(self, st, env):
        for a in st.names:
            top = a.name.split(".")[0]
            if a.asname:
                env.bind(a.asname, self.import_path(a.name))
            else:
                env.bind(top, self.import_path(top))

    def st_ImportFrom(self, st, env):
        modname = st.module or ""
        if st.level:
            base = env.module.modname.split(".")
            if not env.module.path.endswith("__init__.py"):
                base = base[:-1]
            base = base[: len(base) - (st.level - 1)]
            modname = ".".join(base + ([modname] if modname else []))
        src = self.import_path(modname)
        for a in st.names:
            if a.name == "*":
                raise Unsupported("import *", st)
            env.bind(a.asname or a.name, self.getattr(src, a.name))

    def import_path(self, dotted):
        m = self.find_module(dotted)
        if m is not None:
            return m
        if dotted == "pyhf" or dotted.startswith("pyhf."):
            # attribute of a pyhf module
            head, _, tail = dotted.rpartition(".")
            return self.getattr(self.import_path(head), tail)
        return Ext(dotted)

    def st_Global(self, st, env):
        for n in st.names:
            env.globals_decl.add(n)

    def st_Nonlocal(self, st, env):
        raise Unsupported("nonlocal", st)

    def st_Delete(self, st, env):
        for t in st.targets:
            if isinstance(t, ast.Subscript):
                c = self.eval(t.value, env)
                k = self.eval_index(t.slice, env)
                if isinstance(c, (dict, list)) and not is_sym(k):
                    self._concrete(lambda: c.__delitem__(k))
                    continue
            elif isinstance(t, ast.Name):
                env.frame.pop(t.id, None)
                continue
            raise Unsupported("del", st)

    def st_Try(self, st, env):
        try:
            try:
                self.exec_block(st.body, env)
            except PyRaise as e:
                for h in st.handlers:
                    if self.exc_matches(e, h.type, env):
                        if h.name:
                            env.bind(h.name, self.exc_value(e))
                        old = env.frame.get("__current_exception__")
                        env.frame["__current_exception__"] = e
                        try:
                            self.exec_block(h.body, env)
                        finally:
                            env.frame["__current_exception__"] = old
                        break
                else:
                    raise
            else:
                self.exec_block(st.orelse, env)
        finally:
            if st.finalbody:
                self.exec_block(st.finalbody, env)

    def exc_value(self, e):
        return _ExcValue(e)

    def exc_matches(self, e, typ, env):
        if typ is None:
            return True
        t = self.eval(typ, env)
        ts = t if isinstance(t, tuple) else (t,)
        for c in ts:
            if isinstance(e.cls, ClassV):
                if e.cls.issub(c):
                    return True
            elif isinstance(c, type) and isinstance(e.cls, type) and issubclass(e.cls, c):
                return True
        return False

    def st_With(self, st, env):
        hosts = []
        for item in st.items:
            cm = self.eval(item.context_expr, env)
            if is_obj(cm):
                entered = self.opaque_call(self.opaque_attr(cm, "__enter__"), [], {}, label="__enter__")
            elif isinstance(cm, Rec):
                f, _ = cm.cls.lookup("__enter__")
                entered = self.call(Bound(f, cm), [], {})
            elif isinstance(cm, HostObj):
                entered = cm.__enter__()
                hosts.append(cm)
            else:
                raise Unsupported(f"with over {type(cm).__name__}", st)
            if item.optional_vars is not None:
                self.assign(item.optional_vars, entered, env)
        try:
            self.exec_block(st.body, env)
        except PyRaise:
            for cm in reversed(hosts):
                cm.__exit__(Exception, None, None)
            raise
        for cm in reversed(hosts):
            cm.__exit__(None, None, None)
        # __exit__ of opaque context managers is assumed not to swallow exceptions

    # ---------------- assignment ----------------
    def assign(self, target, v, env):
        if isinstance(target, ast.Name):
            env.bind(target.id, v)
        elif isinstance(target, (ast.Tuple, ast.List)):
            elts = target.elts
            star = [k for k, e in enumerate(elts) if isinstance(e, ast.Starred)]
            if star:
                vals = list(self.iterate(v))
                k = star[0]
                after = len(elts) - k - 1
                for e, x in zip(elts[:k], vals[:k]):
                    self.assign(e, x, env)
                self.assign(elts[k].value, vals[k: len(vals) - after], env)
                for e, x in zip(elts[k + 1:], vals[len(vals) - after:]):
                    self.assign(e, x, env)
                return
            vals = self.unpack(v, len(elts))
            for e, x in zip(elts, vals):
                self.assign(e, x, env)
        elif isinstance(target, ast.Attribute):
            o = self.eval(target.value, env)
            h = self.policy.get(("ghost_attr", env.func_key(), target.attr))
            if h is not None:
                v = h(self, v)
            self.setattr(o, self.mangle(target.attr, env), v)
        elif isinstance(target, ast.Subscript):
            c = self.eval(target.value, env)
            k = self.eval_index(target.slice, env)
            self.setitem(c, k, v)
        else:
            raise Unsupported(f"assignment target {type(target).__name__}", target)

    def unpack(self, v, n):
        if isinstance(v, (list, tuple)):
            if len(v) != n:
                raise PyRaise(ValueError, ("unpack",))
            return list(v)
        if is_obj(v):
            self.assume(len_of(v) == n)
            return [self.opaque_item(v, k) for k in range(n)]
        if isinstance(v, SeqV):
            self.assume(v.n == n)
            return [v.elem(z3.IntVal(k)) for k in range(n)]
        vals = list(self.iterate(v))
        if len(vals) != n:
            raise PyRaise(ValueError, ("unpack",))
        return vals

    def setattr(self, o, name, v):
        if isinstance(o, Rec):
            f, _ = o.cls.lookup(name)
            if isinstance(f, FuncV) and f.kind == "property":
                st = getattr(f, "setter", None)
                if st is None:
                    raise PyRaise(AttributeError, (f"can't set attribute {name}",))
                self.call_function(st, [o, v], {})
                return
            o.attrs[name] = v
            self.ghost("setattr", o.id, name)
            return
        if is_obj(o):
            # effect on an opaque object: recorded in the ghost trace and call log
            rec = CallRec(("setattr", name), [o, v], {}, list(self.path.pc), len(self.path.calls))
            self.path.calls.append(rec)
            self.path.__dict__.setdefault("opaque_attrs", {})[(o.get_id(), name)] = v
            return
        if isinstance(o, ModuleV):
            o.load()
            o.ns[name] = v
            return
        if isinstance(o, ClassV):
            o.ns[name] = v
            return
        if isinstance(o, _Namespace):
            o.d[name] = v
            return
        if isinstance(o, HostObj):
            setattr(o, name, v)
            return
        raise Unsupported(f"setattr on {type(o).__name__}")

    def setitem(self, c, k, v):
        if isinstance(c, (list, dict)) and not is_sym(k):
            if isinstance(c, dict):
                try:
                    hash(k)
                except TypeError:
                    raise PyRaise(TypeError, ("unhashable",))
            self._concrete(lambda: c.__setitem__(k, v))
            return
        if isinstance(c, SeqV):
            i = self.to_index(k)
            # IndexError outside the range is a possible outcome
            if not self.branch(z3.And(i >= -c.n, i < c.n)):
                raise PyRaise(IndexError, ())
            i = z3.If(i < 0, i + c.n, i)
            c.arr = z3.Store(c.arr, i, self.box(v))
            return
        if isinstance(c, list) and is_sym(k):
            i = self.to_index(k)
            n = len(c)
            if not self.branch(z3.And(i >= -n, i < n)):
                raise PyRaise(IndexError, ())
            for j in range(n):
                cond = z3.Or(i == j, i == j - n)
                c[j] = self.ite(cond, v, c[j])
            return
        if is_obj(c):
            rec = CallRec(("setitem",), [c, k, v], {}, list(self.path.pc), len(self.path.calls))
            self.path.calls.append(rec)
            return
        from .tensor import PT
        if isinstance(c, PT):
            return c.setitem(self, k, v)
        if isinstance(c, _MapLike):
            return c.setitem(self, k, v)
        if isinstance(c, Rec) and "__dict_storage__" in c.attrs:
            return self.setitem(c.attrs["__dict_storage__"], k, v)
        if isinstance(c, HostObj):
            c[k] = v
            return
        if self.is_native_concrete(c) and not is_sym(k) and not _contains_sym(k) and not is_sym(v) and not _contains_sym(v):
            self._concrete(lambda: c.__setitem__(k, v))
            return
        raise Unsupported(f"setitem on {type(c).__name__} with key {type(k).__name__}")

    def to_index(self, k):
        if isinstance(k, int):
            return z3.IntVal(k)
        if is_num(k):
            return k if k.is_int() else z3.ToInt(k)
        if is_obj(k):
            return z3.ToInt(real_of(k))
        raise Unsupported(f"index {k!r}")

    def ite(self, c, a, b):
        """merge two values under a z3 condition"""
        if isinstance(c, bool):
            return a if c else b
        c = z3.simplify(c)
        if z3.is_true(c):
            return a
        if z3.is_false(c):
            return b
        from .tensor import PT
        if isinstance(a, PT) or isinstance(b, PT):
            from .tensor import pt_where
            return pt_where(self, c, a, b)
        if a is b:
            return a
        if is_obj(a) or is_obj(b):
            return z3.If(c, self.box(a), self.box(b))
        if isinstance(a, (list, tuple)) and isinstance(b, (list, tuple)) and len(a) == len(b) and type(a) is type(b):
            return type(a)(self.ite(c, x, y) for x, y in zip(a, b))
        if isinstance(a, bool) and isinstance(b, bool) or is_zbool(a) or is_zbool(b):
            if (isinstance(a, bool) or is_zbool(a)) and (isinstance(b, bool) or is_zbool(b)):
                return z3.If(c, _zb(a), _zb(b))
        if isinstance(a, (int, float)) or is_num(a):
            if isinstance(b, (int, float)) or is_num(b):
                return z3.If(c, self.to_real(a), self.to_real(b))
        if (isinstance(a, str) or is_zstr(a)) and (isinstance(b, str) or is_zstr(b)):
            return z3.If(c, _zs(a), _zs(b))
        try:
            return z3.If(c, self.box(a), self.box(b))
        except Unsupported:
            raise Unsupported(f"cannot merge {type(a).__name__} / {type(b).__name__}")

    # ---------------- expressions ----------------
    def eval(self, node, env):
        m = getattr(self, "ex_" + type(node).__name__, None)
        if m is None:
            raise Unsupported(f"expression {type(node).__name__}", node, env.where(node))
        try:
            return m(node, env)
        except Unsupported as e:
            if e.where is None:
                e.where = env.where(node)
            raise

    def ex_Constant(self, node, env):
        return node.value

    def ex_Name(self, node, env):
        return env.lookup(node.id)

    def ex_Tuple(self, node, env):
        return tuple(self._elts(node.elts, env))

    def ex_List(self, node, env):
        elts = node.elts
        if len(elts) == 1 and isinstance(elts[0], ast.Starred):
            v = self.eval(elts[0].value, env)
            if is_obj(v) or isinstance(v, SeqV):
                return self.seq_from(v)
        return list(self._elts(elts, env))

    def seq_from(self, v):
        """a fresh list (own identity) with the elements of a symbolic sequence"""
        if isinstance(v, SeqV):
            return SeqV(v.arr, v.n)
        i = z3.Int("i!lam")
        return SeqV(z3.Lambda([i], item_of(v, box_real(z3.ToReal(i)))), len_of(v))

    def ex_Set(self, node, env):
        return set(self._elts(node.elts, env))

    def _elts(self, elts, env):
        out = []
        for e in elts:
            if isinstance(e, ast.Starred):
                out.extend(self.iterate(self.eval(e.value, env)))
            else:
                out.append(self.eval(e, env))
        return out

    def ex_Dict(self, node, env):
        d = {}
        for k, v in zip(node.keys, node.values):
            if k is None:
                src = self.eval(v, env)
                if not isinstance(src, dict):
                    raise Unsupported("** of non-dict in dict display", node)
                d.update(src)
            else:
                kk = self.eval(k, env)
                if is_sym(kk):
                    raise Unsupported("symbolic dict key in display", node)
                d[kk] = self.eval(v, env)
        return d

    def ex_JoinedStr(self, node, env):
        parts = []
        sym = False
        for v in node.values:
            if isinstance(v, ast.Constant):
                parts.append(v.value)
            else:
                x = self.eval(v.value, env)
                if is_sym(x) or isinstance(x, (Rec, FuncV)) or _contains_sym(x):
                    sym = True
                    parts.append(x)
                else:
                    spec = ""
                    if v.format_spec is not None:
                        spec = self.ex_JoinedStr(v.format_spec, env)
                    if v.conversion == ord("r"):
                        x = repr(x)
                    elif v.conversion == ord("s"):
                        x = str(x)
                    parts.append(format(x, spec) if isinstance(spec, str) else str(x))
        if not sym:
            return "".join(parts)
        f = ufunc(f"fstr{len(parts)}", *([Obj] * len(parts)), Obj)
        return f(*[self.box(p) for p in parts])

    def ex_Attribute(self, node, env):
        o = self.eval(node.value, env)
        return self.getattr(o, self.mangle(node.attr, env))

    def mangle(self, attr, env):
        """private name mangling of __attr inside a class body"""
        if attr.startswith("__") and not attr.endswith("__"):
            e = env
            while e is not None:
                if e.func is not None and e.func.cls is not None:
                    return "_" + e.func.cls.name.lstrip("_") + attr
                e = e.parent
        return attr

    def ex_Subscript(self, node, env):
        c = self.eval(node.value, env)
        k = self.eval_index(node.slice, env)
        return self.getitem(c, k)

    def eval_index(self, sl, env):
        if isinstance(sl, ast.Slice):
            return slice(*(None if p is None else self.eval(p, env) for p in (sl.lower, sl.upper, sl.step)))
        if isinstance(sl, ast.Tuple):
            return tuple(self.eval_index(e, env) for e in sl.elts)
        return self.eval(sl, env)

    def ex_Starred(self, node, env):
        raise Unsupported("starred expression here", node)

    def ex_UnaryOp(self, node, env):
        v = self.eval(node.operand, env)
        if isinstance(node.op, ast.Not):
            b = self.to_bool(v)
            return (not b) if isinstance(b, bool) else z3.Not(b)
        from .tensor import PT
        if isinstance(v, PT):
            return v.unary(self, node.op)
        if isinstance(node.op, ast.USub):
            if is_sym(v):
                return -self.to_arith(v)
            return self._concrete(lambda: -v)
        if isinstance(node.op, ast.UAdd):
            return v
        raise Unsupported(f"unary {type(node.op).__name__}", node)

    def ex_BinOp(self, node, env):
        a = self.eval(node.left, env)
        b = self.eval(node.right, env)
        return self.binop(node.op, a, b)

    def ex_BoolOp(self, node, env):
        is_and = isinstance(node.op, ast.And)
        v = None
        for k, e in enumerate(node.values):
            v = self.eval(e, env)
            if k == len(node.values) - 1:
                return v
            t = self.truth(v)
            if is_and and not t:
                return v
            if (not is_and) and t:
                return v
        return v

    def ex_IfExp(self, node, env):
        c = self.eval(node.test, env)
        if self.truth(c):
            return self.eval(node.body, env)
        return self.eval(node.orelse, env)

    def ex_Compare(self, node, env):
        left = self.eval(node.left, env)
        res = True
        for op, rn in zip(node.ops, node.comparators):
            right = self.eval(rn, env)
            c = self.compare(op, left, right)
            res = _and2(res, c)
            if res is False:
                return False
            left = right
        return res

    def ex_Lambda(self, node, env):
        fd = ast.FunctionDef(name="<lambda>", args=node.args, body=[ast.Return(value=node.body)],
                             decorator_list=[], lineno=node.lineno, col_offset=node.col_offset)
        ast.fix_missing_locations(fd)
        f = self.make_function(fd, env, qual=env.qualprefix + f"<lambda@{node.lineno}>")
        f.nested = True
        return f

    def ex_Call(self, node, env):
        fn_node = node.func
        # dropped calls: log.<level>(...)
        if isinstance(fn_node, ast.Attribute) and isinstance(fn_node.value, ast.Name) and fn_node.value.id in DROPPED_CALL_BASES:
            return None
        # super()
        if isinstance(fn_node, ast.Name) and fn_node.id == "super" and not node.args:
            return SuperV(env.lookup("__class__"), env.lookup_self())
        f = self.eval(fn_node, env)
        args = []
        for a in node.args:
            if isinstance(a, ast.Starred):
                args.extend(self.iterate(self.eval(a.value, env)))
            else:
                args.append(self.eval(a, env))
        kwargs = {}
        for kw in node.keywords:
            if kw.arg is None:
                d = self.eval(kw.value, env)
                if isinstance(d, dict):
                    for k, v in d.items():
                        if k in kwargs:
                            raise PyRaise(TypeError, ("multiple values for keyword",))
                        kwargs[k] = v
                elif is_obj(d):
                    kwargs["**"] = d
                else:
                    raise Unsupported(f"** of {type(d).__name__}", node)
            else:
                kwargs[kw.arg] = self.eval(kw.value, env)
        return self.call(f, args, kwargs, node=node, env=env)

    def ex_ListComp(self, node, env):
        return self._comp(node, env, "list")

    def ex_GeneratorExp(self, node, env):
        out = self._comp(node, env, "list")     # evaluated eagerly, in order (DESIGN 2.3.5)
        return GenList(out) if type(out) is list else out

    def ex_SetComp(self, node, env):
        out = self._comp(node, env, "list")
        if any(is_sym(x) for x in out):
            raise Unsupported("set comprehension with symbolic elements", node)
        return set(out)

    def ex_DictComp(self, node, env):
        return self._comp(node, env, "dict")

    def _comp(self, node, env, kind):
        cenv = Env({}, env, env.module, qualprefix=env.qualprefix, in_function=env.in_function)
        cenv.is_comp = True
        out = [] if kind == "list" else {}
        gens = node.generators
        # symbolic-length source with a single generator: characterised element-wise
        if len(gens) == 1 and kind == "list":
            src = self.eval(gens[0].iter, env)
            sym = self.symbolic_comprehension(node, gens[0], src, cenv)
            if sym is not NotImplemented:
                return sym
            first_items = self.iterate(src, node=node, env=env)
        else:
            first_items = None

        def rec(gi):
            if gi == len(gens):
                if kind == "list":
                    out.append(self.eval(node.elt, cenv))
                else:
                    k = self.eval(node.key, cenv)
                    if is_sym(k):
                        if self.policy.get("generic_iteration"):
                            sym_pairs.append((k, self.eval(node.value, cenv)))
                            return
                        raise Unsupported("symbolic key in dict comprehension", node)
                    out[k] = self.eval(node.value, cenv)
                return
            g = gens[gi]
            items = first_items if (gi == 0 and first_items is not None) else self.iterate(self.eval(g.iter, cenv if gi else env), node=node, env=env)
            for x in items:
                self.assign(g.target, x, cenv)
                ok = True
                for cond in g.ifs:
                    if not self.truth(self.eval(cond, cenv)):
                        ok = False
                        break
                if ok:
                    rec(gi + 1)
        sym_pairs = []
        try:
            rec(0)
        except _OpaqueResult as e:
            return e.value
        if sym_pairs:
            # a dictionary with symbolic keys: an opaque object determined by all its (key, value) pairs
            flat = []
            for k, v in list(out.items()) + sym_pairs if isinstance(out, dict) else sym_pairs:
                flat += [self.box(k), self.box(v)]
            f = ufunc(f"dictcomp{len(flat) // 2}", *([Obj] * len(flat)), Obj)
            return f(*flat)
        return out

    def symbolic_comprehension(self, node, gen, src, cenv):
        """[elt for target in src if cond] over a source of symbolic length.
        Supported sources: SeqV, opaque, enumerate/zip of those (as _SymIter)."""
        it = self.as_symiter(src)
        if it is None or self.policy.get("generic_iteration"):
            return NotImplemented
        i = z3.Int(self.path.fresh("ci"))
        x = it.at(self, i)
        self.assign(gen.target, x, cenv)
        saved_pc = len(self.path.pc)
        pre = self.path.taken[:]
        conds = []
        for c in gen.ifs:
            conds.append(self.to_bool(self.eval(c, cenv)))
        elt = self.eval(node.elt, cenv)
        if len(self.path.taken) != len(pre):
            raise Unsupported("comprehension body over a symbolic sequence forks", node)
        pred = _and(conds) if conds else True
        if conds:
            ii = i
            return FiltV(it.n, _Abs(ii, pred), _Abs(ii, elt))
        # plain map: element-wise characterisation
        ab = _Abs(i, elt)
        return SymList(it.n, lambda eng, j: ab.at(eng, j))

    def as_symiter(self, v):
        if isinstance(v, _SymIter):
            return v
        if isinstance(v, SeqV):
            return _SymIter(v.n, lambda eng, i: v.elem(i))
        if is_obj(v):
            return _SymIter(len_of(v), lambda eng, i: item_of(v, eng.box_int(i)))
        return None

    # ---------------- operators ----------------
    _ops = {ast.Add: operator.add, ast.Sub: operator.sub, ast.Mult: operator.mul, ast.Div: operator.truediv,
            ast.FloorDiv: operator.floordiv, ast.Mod: operator.mod, ast.Pow: operator.pow,
            ast.BitAnd: operator.and_, ast.BitOr: operator.or_, ast.BitXor: operator.xor,
            ast.LShift: operator.lshift, ast.RShift: operator.rshift, ast.MatMult: operator.matmul}

    def binop(self, op, a, b):
        from .tensor import PT
        if isinstance(a, PT) or isinstance(b, PT):
            from .tensor import pt_binop
            return pt_binop(self, op, a, b)
        if not is_sym(a) and not is_sym(b) and not _contains_sym(a) and not _contains_sym(b):
            if isinstance(a, (Rec,)) or isinstance(b, (Rec,)):
                raise Unsupported("operator on interpreted instance")
            if isinstance(op, ast.Div) and isinstance(b, (int, float)) and not isinstance(b, bool) and b == 0 \
                    and isinstance(a, (int, float)):
                raise PyRaise(ZeroDivisionError, ())
            return self._concrete(lambda: self._ops[type(op)](a, b))
        if isinstance(a, (list, tuple)) and isinstance(b, (list, tuple)) and isinstance(op, ast.Add):
            return a + b
        if isinstance(a, (list, tuple)) and isinstance(b, int) and isinstance(op, ast.Mult):
            return a * b
        if isinstance(a, list) and isinstance(b, SeqV) or isinstance(a, SeqV) and isinstance(b, list):
            raise Unsupported("list + symbolic sequence")
        if isinstance(a, SeqV) and isinstance(b, SeqV) and isinstance(op, ast.Add):
            i = z3.Int("i!cat")
            arr = z3.Lambda([i], z3.If(i < a.n, z3.Select(a.arr, i), z3.Select(b.arr, i - a.n)))
            return SeqV(arr, a.n + b.n)
        if (isinstance(a, str) or is_zstr(a)) and (isinstance(b, str) or is_zstr(b)) and isinstance(op, ast.Add):
            return z3.Concat(_zs(a), _zs(b))
        if isinstance(op, ast.Add) and ((isinstance(a, str) or is_zstr(a)) and is_obj(b) or (isinstance(b, str) or is_zstr(b)) and is_obj(a)):
            return z3.Concat(_zs(a) if not is_obj(a) else str_of(a), _zs(b) if not is_obj(b) else str_of(b))
        if is_zbool(a) and is_zbool(b) and isinstance(op, (ast.BitAnd, ast.BitOr)):
            return z3.And(a, b) if isinstance(op, ast.BitAnd) else z3.Or(a, b)
        if (isinstance(a, str) and isinstance(op, ast.Mod)):
            f = ufunc("strmod", Obj, Obj, Obj)
            return f(self.box(a), self.box(b))
        x, y = self.to_arith(a), self.to_arith(b)
        if isinstance(op, ast.Add):
            return x + y
        if isinstance(op, ast.Sub):
            return x - y
        if isinstance(op, ast.Mult):
            return x * y
        if isinstance(op, ast.Div):
            return self.to_real(a) / self.to_real(b)
        if isinstance(op, ast.Pow):
            if isinstance(b, int) and 0 <= b <= 8:
                r = z3.RealVal(1)
                for _ in range(b):
                    r = r * self.to_real(a)
                return r
            from .tensor import sym_pow
            return sym_pow(self.to_real(a), self.to_real(b))
        if isinstance(op, (ast.FloorDiv, ast.Mod)) and x.is_int() and y.is_int():
            return x / y if isinstance(op, ast.FloorDiv) else x % y
        raise Unsupported(f"operator {type(op).__name__} on symbolic operands")

    def _concrete(self, thunk):
        """run a concrete python operation; python exceptions become program exceptions"""
        try:
            return thunk()
        except (KeyError, IndexError, TypeError, ValueError, AttributeError, ZeroDivisionError, StopIteration,
                OverflowError) as e:
            raise PyRaise(type(e), e.args)

    def compare(self, op, a, b):
        from .tensor import PT
        if isinstance(op, (ast.Is, ast.IsNot)):
            r = self._is(a, b)
            if isinstance(op, ast.IsNot):
                r = (not r) if isinstance(r, bool) else z3.Not(r)
            return r
        if (isinstance(a, PT) or isinstance(b, PT)) and not isinstance(op, (ast.In, ast.NotIn)):
            from .tensor import pt_compare
            return pt_compare(self, op, a, b)
        if isinstance(op, (ast.In, ast.NotIn)):
            r = self._contains(b, a)
            if isinstance(op, ast.NotIn):
                r = (not r) if isinstance(r, bool) else z3.Not(r)
            return r
        for x, y, flip in ((a, b, False), (b, a, True)):
            if isinstance(x, HostObj) and hasattr(x, "py_compare"):
                nm = type(op).__name__
                if flip:
                    nm = {"Lt": "Gt", "LtE": "GtE", "Gt": "Lt", "GtE": "LtE"}.get(nm, nm)
                return x.py_compare(nm, y)
        import numpy as _np
        if (isinstance(a, _np.ndarray) or isinstance(b, _np.ndarray)) and not is_sym(a) and not is_sym(b) \
                and not _contains_sym(a) and not _contains_sym(b):
            fn = {ast.Lt: operator.lt, ast.LtE: operator.le, ast.Gt: operator.gt, ast.GtE: operator.ge,
                  ast.Eq: operator.eq, ast.NotEq: operator.ne}[type(op)]
            return self._concrete(lambda: fn(a, b))
        if isinstance(op, ast.Eq):
            return self.veq(a, b)
        if isinstance(op, ast.NotEq):
            r = self.veq(a, b)
            return (not r) if isinstance(r, bool) else z3.Not(r)
        # ordering
        if not is_sym(a) and not is_sym(b):
            fn = {ast.Lt: operator.lt, ast.LtE: operator.le, ast.Gt: operator.gt, ast.GtE: operator.ge}[type(op)]
            return self._concrete(lambda: fn(a, b))
        for x, y, flip in ((a, b, False), (b, a, True)):
            if isinstance(x, float) and x in (float("inf"), float("-inf")):
                # comparison of a finite real with +-inf (DESIGN 2.3.1)
                is_neg = x < 0
                t = type(op)
                if flip:
                    t = {ast.Lt: ast.Gt, ast.LtE: ast.GtE, ast.Gt: ast.Lt, ast.GtE: ast.LtE}[t]
                # now evaluating  x t y  with x infinite
                if is_neg:
                    return t in (ast.Lt, ast.LtE)
                return t in (ast.Gt, ast.GtE)
        if (isinstance(a, str) or is_zstr(a)) and (isinstance(b, str) or is_zstr(b)):
            x, y = _zs(a), _zs(b)
        else:
            x, y = self.to_arith(a), self.to_arith(b)
        if isinstance(op, ast.Lt):
            return x < y
        if isinstance(op, ast.LtE):
            return x <= y
        if isinstance(op, ast.Gt):
            return x > y
        return x >= y

    def _is(self, a, b):
        if is_obj(a) or is_obj(b):
            o, x = (a, b) if is_obj(a) else (b, a)
            if x is None:
                return isnone_of(o)
            if is_obj(x):
                return o == x
            if isinstance(x, bool):
                return self.veq(o, x)
            return False
        if is_z(a) or is_z(b):
            if a is None or b is None:
                return False
            return self.veq(a, b)
        return a is b

    def _contains(self, c, x):
        if isinstance(c, (list, tuple, set, frozenset, range)):
            if not is_sym(x) and not _contains_sym(x) and not any(is_sym(e) or _contains_sym(e) for e in c):
                try:
                    return x in c
                except TypeError:
                    raise PyRaise(TypeError, ())
            return _or([self.veq(x, e) for e in c])
        if isinstance(c, dict):
            if not is_sym(x):
                try:
                    return x in c
                except TypeError:
                    raise PyRaise(TypeError, ("unhashable",))
            return _or([self.veq(x, e) for e in c.keys()])
        if isinstance(c, str) and isinstance(x, str):
            return x in c
        if (isinstance(c, str) or is_zstr(c)) and (isinstance(x, str) or is_zstr(x)):
            return z3.Contains(_zs(c), _zs(x))
        if isinstance(c, _MapLike):
            return c.contains(self, x)
        if isinstance(c, HostObj):
            return x in c
        if is_obj(c):
            f = ufunc("contains", Obj, Obj, B)
            return f(c, self.box(x))
        if isinstance(c, SeqV):
            f = ufunc("contains", Obj, Obj, B)
            return f(self.box(c), self.box(x))
        if isinstance(c, Rec):
            f, _ = c.cls.lookup("__contains__")
            if f is not None:
                return self.to_bool(self.call(Bound(f, c), [x], {}))
            if "__dict_storage__" in c.attrs:
                return self._contains(c.attrs["__dict_storage__"], x)
        raise Unsupported(f"'in' on {type(c).__name__}")

    # ---------------- attribute / item access ----------------
    def getattr(self, o, name):
        if isinstance(o, Rec):
            if name in o.attrs:
                return o.attrs[name]
            if name == "__class__":
                return o.cls
            f, owner = o.cls.lookup(name)
            if f is None and "__dict_storage__" in o.attrs and name in ("get", "items", "keys", "values", "pop", "setdefault", "update", "copy"):
                return self.builtins_model.container_method(self, o.attrs["__dict_storage__"], name)
            if f is None:
                ga, _ = o.cls.lookup("__getattr__")
                if ga is not None:
                    return self.call(Bound(ga, o), [name], {})
                raise PyRaise(AttributeError, (name,))
            return self.bind_member(f, o, o.cls)
        if isinstance(o, ClassV):
            f, owner = o.lookup(name)
            if f is None:
                if name == "__name__":
                    return o.name
                raise PyRaise(AttributeError, (name,))
            if isinstance(f, FuncV) and f.kind == "classmethod":
                return Bound(f, o)
            return f
        if isinstance(o, ModuleV):
            sp = self.special_module_attr(o, name)
            if sp is not None:
                return sp
            return o.get(name)
        if isinstance(o, Ext):
            return self.ext_attr(o, name)
        if isinstance(o, SuperV):
            mro = o.obj.cls.mro() if isinstance(o.obj, Rec) else o.cls.mro()
            k = mro.index(o.cls)
            for c in mro[k + 1:]:
                if isinstance(c, ClassV) and name in c.ns:
                    return self.bind_member(c.ns[name], o.obj, c)
            if name == "__init__":
                if isinstance(o.obj, Rec) and "__dict_storage__" in o.obj.attrs and any(isinstance(c, NativeFn) and c.name == "dict" for c in mro[k + 1:]):
                    st = o.obj.attrs["__dict_storage__"]

                    def dict_init(*a, **kw):
                        for src in a:
                            if isinstance(src, Rec) and "__dict_storage__" in src.attrs:
                                src = src.attrs["__dict_storage__"]          # an instance of an interpreted dict subclass
                            st.update(src if isinstance(src, dict) else dict(self.iterate(src)))
                        st.update(kw)
                    return NativeFn("dict.__init__", dict_init)
                return NativeFn("object.__init__", lambda *a, **k: None)
            h = self.policy.get(("super_method", name))       # a method inherited from an external (library) base class, by contract
            if h is not None:
                return NativeFn(f"super.{name}", lambda *a, **k: h(self, o.obj, *a, **k))
            raise PyRaise(AttributeError, (name,))
        if is_num(o) or (isinstance(o, (int, float)) and not isinstance(o, bool)):
            h = self.policy.get(("num_method", name))
            if h is not None:
                return NativeFn(f"number.{name}", lambda *a, **k: h(self, o, *a, **k))
            if name in ("dtype", "shape", "ndim") and self.policy.get("numbers_are_arrays"):
                # a symbolic number standing for an array element: array metadata is an opaque library value
                return {"dtype": Ext("array.dtype"), "shape": (), "ndim": 0}[name]
        if is_obj(o):
            self.attr_reads.add((_short_name(o), name))   # which attributes of opaque objects the code reads (frame obligations)
            ov = self.path.__dict__.get("opaque_attrs", {}).get((o.get_id(), name))
            if ov is not None:
                return ov
            h = self.iface_method(o, name)
            if h is not None:
                return h
            h = self.policy.get(("obj_method", name))       # library-object models: a method / attribute of ANY opaque object
            if h is not None:
                return NativeFn(f"obj.{name}", lambda *a, **k: h(self, o, *a, **k))
            h = self.policy.get(("obj_attr", name))
            if h is not None:
                return h(self, o)
            return self.opaque_attr(o, name)
        if isinstance(o, _ExcValue):
            if name == "args":
                return o.e.eargs
            raise Unsupported(f"attribute {name} of exception value")
        if isinstance(o, _Namespace):
            if name in o.d:
                return o.d[name]
            raise PyRaise(AttributeError, (name,))
        if isinstance(o, _MapLike):
            return o.getattr(self, name)
        from .tensor import PT, TensorLib, _Dist
        if isinstance(o, (TensorLib, _Dist)):
            return o.getattr(self, name)
        if isinstance(o, PT):
            return o.getattr(self, name)
        if isinstance(o, SeqV):
            return self.builtins_model.seq_method(self, o, name)
        if isinstance(o, SymList):
            if name == "tolist":
                return NativeFn("symlist.tolist", lambda: o)
            raise Unsupported(f"attribute {name} of symbolic list")
        if isinstance(o, (list, dict, str, tuple, set, int, float)):
            return self.builtins_model.container_method(self, o, name)
        if isinstance(o, HostObj):
            try:
                v = getattr(o, name)
            except AttributeError:
                raise PyRaise(AttributeError, (name,))
            if callable(v) and not isinstance(v, (type, HostObj)):
                return NativeFn(f"host:{type(o).__name__}.{name}", v)
            return v
        if self.is_native_concrete(o):
            # concrete library objects (slice, numpy arrays, ...) are evaluated by CPython itself
            try:
                v = getattr(o, name)
            except AttributeError:
                raise PyRaise(AttributeError, (name,))
            if callable(v) and not isinstance(v, type):
                def native_call(*a, _v=v, _n=name, **k):
                    if any(_contains_sym(x) or is_sym(x) for x in a) or any(is_sym(x) for x in k.values()):
                        raise Unsupported(f"native method {_n} with symbolic argument")
                    return self._concrete(lambda: _v(*a, **k))
                return NativeFn(f"native:{type(o).__name__}.{name}", native_call)
            return v
        if isinstance(o, NativeFn) and o.name == "dict" and name == "fromkeys":
            def fromkeys(keys, value=None):
                ks = self.iterate(keys)
                if any(is_sym(k) for k in ks):
                    raise Unsupported("dict.fromkeys with symbolic keys")
                return dict.fromkeys(ks, value)
            return NativeFn("dict.fromkeys", fromkeys)
        if isinstance(o, FuncV):
            if name == "__name__":
                return o.node.name
        if isinstance(o, Bound):
            if name == "__func__":
                return o.func
            if name == "__self__":
                return o.self_obj
            return self.getattr(o.func, name)
        if isinstance(o, (FuncV, NativeFn)) and name in ("__func__", "__self__"):
            raise PyRaise(AttributeError, (name,))
        if o is None:
            raise PyRaise(AttributeError, (f"'NoneType' object has no attribute '{name}'",))
        raise Unsupported(f"getattr({type(o).__name__}, {name!r})")

    def is_native_concrete(self, o):
        import numpy as _np
        return isinstance(o, (slice, range, _np.ndarray, _np.generic, bytes, frozenset))

    def bind_member(self, f, obj, cls):
        if isinstance(f, FuncV):
            if f.kind == "property":
                return self.call_function(f, [obj], {})
            if f.kind == "staticmethod":
                return f
            if f.kind == "classmethod":
                return Bound(f, cls)
            return Bound(f, obj)
        return f

    def special_module_attr(self, mod, name):
        """pyhf/__init__.py defines tensorlib / optimizer / default_backend through a module
        level __getattr__; get_backend lives in tensor/manager.py (DESIGN 2.3.3)"""
        h = self.policy.get(("module_attr", mod.modname, name))
        if h is not None:
            return h(self) if callable(h) and not isinstance(h, (FuncV, NativeFn)) else h
        if mod.modname in ("pyhf", "pyhf.tensor.manager") and name == "get_backend" and self.policy.get("model_backend", True):
            return NativeFn("get_backend", lambda eng: (eng.get_tensorlib(), eng.get_optimizer()), wants_engine=True)
        if not self.policy.get("model_backend", True) and mod.modname == "pyhf" and name in ("tensorlib", "default_backend", "optimizer", "default_optimizer"):
            # the real tensor/manager.py state is in use (C11): read it the way pyhf/__init__.py::__getattr__ does
            st = self.getattr(self.find_module("pyhf.tensor.manager"), "state")
            pair = st["default" if name.startswith("default") else "current"]
            return pair[0] if name in ("tensorlib", "default_backend") else pair[1]
        if mod.modname == "pyhf" and name in ("tensorlib", "default_backend"):
            return self.get_tensorlib()
        if mod.modname == "pyhf" and name in ("optimizer", "default_optimizer"):
            return self.get_optimizer()
        return None

    def get_tensorlib(self):
        if self.tensorlib is None:
            from .tensor import TensorLib
            self.tensorlib = TensorLib(self)
        return self.tensorlib

    def get_optimizer(self):
        o = self.policy.get("optimizer_value")
        if o is not None:
            return o(self) if callable(o) else o
        return z3.Const("OPTIMIZER", Obj)

    def ext_attr(self, o, name):
        v = self.policy.get(("ext_value", o.path + "." + name), Ext)
        if v is not Ext:
            return v             # a library constant the contract gives a value to (e.g. numpy.pi)
        return Ext(o.path + "." + name)

    def opaque_attr(self, o, name):
        f = ufunc("attr:" + name, Obj, Obj)
        return f(o)

    def opaque_item(self, o, k):
        return item_of(o, self.box(k))

    def iface_method(self, o, name):
        ifaces = self.path.__dict__.get("ifaces", {})
        d = ifaces.get(o.get_id())
        if d is not None and name in d:
            h = d[name]
            return NativeFn(f"iface:{name}", lambda eng, *a, **k: h(eng, o, *a, **k), wants_engine=True)
        return None

    def set_iface(self, o, methods):
        self.path.__dict__.setdefault("ifaces", {})[o.get_id()] = methods

    def getitem(self, c, k):
        from .tensor import PT
        if isinstance(c, PT):
            return c.getitem(self, k)
        if isinstance(c, _MapLike):
            return c.getitem(self, k)
        if is_obj(c):
            if isinstance(k, slice):
                if k.start is None and k.stop is None and k.step == -1:
                    it = self.as_symiter(c)
                    return SymList(it.n, lambda eng, j: it.at(eng, it.n - 1 - j))
                f = ufunc("slice_of", Obj, Obj, Obj, Obj, Obj)
                return f(c, self.box(k.start), self.box(k.stop), self.box(k.step))
            return self.opaque_item(c, k)
        if isinstance(c, (SeqV, SymList)):
            it = self.as_symiter(c)
            if isinstance(k, slice):
                if k.start is None and k.stop is None and k.step == -1:
                    return SymList(it.n, lambda eng, j: it.at(eng, it.n - 1 - j))
                if k.start is None and k.stop is None and k.step is None:
                    return SymList(it.n, it.at)
                raise Unsupported("slice of symbolic sequence")
            i = self.to_index(k)
            if not self.branch(z3.And(i >= -it.n, i < it.n)):
                raise PyRaise(IndexError, ())
            return it.at(self, z3.If(i < 0, i + it.n, i))
        if isinstance(c, (list, tuple)) and is_sym(k):
            i = self.to_index(k)
            n = len(c)
            if not self.branch(z3.And(i >= -n, i < n)):
                raise PyRaise(IndexError, ())
            res = c[n - 1] if n else None
            for j in range(n - 2, -1, -1):
                res = self.ite(z3.Or(i == j, i == j - n), c[j], res)
            return res
        if isinstance(c, dict) and is_sym(k):
            keys = list(c.keys())
            hit = _or([self.veq(k, kk) for kk in keys])
            if not self.branch(hit):
                raise PyRaise(KeyError, ())
            res = c[keys[-1]]
            for kk in reversed(keys[:-1]):
                res = self.ite(self.veq(k, kk), c[kk], res)
            return res
        if isinstance(c, Rec):
            f, _ = c.cls.lookup("__getitem__")
            if f is not None:
                return self.call(Bound(f, c), [k], {})
            if "__dict_storage__" in c.attrs:
                return self.getitem(c.attrs["__dict_storage__"], k)
        if isinstance(c, HostObj):
            return c[k]
        if self.is_native_concrete(c) and not is_sym(k) and not _contains_sym(k):
            return self._concrete(lambda: c[k])
        if isinstance(c, (list, tuple, dict, str, range)):
            if isinstance(k, slice) and any(is_sym(p) for p in (k.start, k.stop, k.step)):
                raise Unsupported("symbolic slice bounds")
            if isinstance(c, dict):
                try:
                    hash(k)
                except TypeError:
                    raise PyRaise(TypeError, ("unhashable",))
            return self._concrete(lambda: c[k])
        if isinstance(c, Ext):
            if c.path == "sys.modules" and isinstance(k, str):
                m = self.find_module(k)
                if m is not None:
                    return m
            return Ext(c.path + "[]")       # typing subscripts and the like
        if isinstance(c, ClassV) or c in (list, dict, tuple):
            return c       # typing subscripts
        raise Unsupported(f"getitem on {type(c).__name__}")

    # ---------------- iteration ----------------
    def iterate(self, v, node=None, env=None):
        if isinstance(v, (list, tuple, range, set, frozenset)):
            return list(v)
        if isinstance(v, dict):
            return list(v.keys())
        if isinstance(v, str):
            return list(v)
        if isinstance(v, (zip, map, enumerate, filter)) or hasattr(v, "__next__"):
            return list(v)
        if isinstance(v, type({}.keys())) or isinstance(v, type({}.values())) or isinstance(v, type({}.items())):
            return list(v)
        from .tensor import PT
        if isinstance(v, PT):
            return v.iterate(self)
        if isinstance(v, HostObj):
            return list(v)
        if self.is_native_concrete(v):
            return self._concrete(lambda: list(v))
        if isinstance(v, Rec):
            f, _ = v.cls.lookup("__iter__")
            if f is not None:
                return self.iterate(self.call(Bound(f, v), [], {}))
            if "__dict_storage__" in v.attrs:
                return list(v.attrs["__dict_storage__"].keys())
        if isinstance(v, _MapLike):
            return v.iterate(self)
        if isinstance(v, (SeqV, _SymIter)) or is_obj(v):
            known = self.known_length(v)
            if known is not None:
                it = self.as_symiter(v)
                return [it.at(self, z3.IntVal(k)) for k in range(known)]
            if self.policy.get("generic_iteration"):
                # dataflow abstraction (DESIGN 2.2): one generic element stands for all of them
                it = self.as_symiter(v)
                i = z3.Int(self.path.fresh("gen_i"))
                self.assume(z3.And(i >= 0, i < it.n))
                self.path.__dict__.setdefault("generic_iterations", []).append(str(node.lineno) if node is not None and hasattr(node, "lineno") else "?")
                return [it.at(self, i)]
            raise Unsupported("iteration over a sequence of symbolic length (needs invariant / comprehension form)", node)
        if v is None or isinstance(v, (int, float, bool)):
            raise PyRaise(TypeError, (f"'{type(v).__name__}' object is not iterable",))
        raise Unsupported(f"iteration over {type(v).__name__}", node)

    def known_length(self, v):
        n = v.n if isinstance(v, (SeqV, _SymIter)) else None
        if n is None:
            n = self.path.__dict__.get("known_len", {}).get(v.get_id()) if is_obj(v) else None
            return n
        n = z3.simplify(n) if is_z(n) else n
        if isinstance(n, int):
            return n
        if z3.is_int_value(n):
            return n.as_long()
        return None

    def set_known_length(self, o, n):
        self.path.__dict__.setdefault("known_len", {})[o.get_id()] = n
        self.assume(len_of(o) == n)

    # ---------------- calls ----------------
    def call(self, f, args, kwargs, node=None, env=None):
        if isinstance(f, Bound):
            return self.call_function(f.func, [f.self_obj] + list(args), kwargs, node=node)
        if isinstance(f, FuncV):
            return self.call_function(f, list(args), kwargs, node=node)
        if isinstance(f, NativeFn):
            if f.wants_engine:
                return f.fn(self, *args, **kwargs)
            return f.fn(*args, **kwargs)
        if isinstance(f, ClassV):
            return self.instantiate(f, args, kwargs)
        if isinstance(f, Ext):
            return self.call_ext(f, args, kwargs)
        if is_obj(f):
            return self.opaque_call(f, args, kwargs)
        if isinstance(f, type) and issubclass(f, BaseException):
            return PyRaise(f, tuple(args))
        if f in self.builtins_model.native_types:
            return self.builtins_model.native_types[f](self, *args, **kwargs)
        if isinstance(f, Rec):
            c, _ = f.cls.lookup("__call__")
            if c is not None:
                return self.call(Bound(c, f), args, kwargs)
        if isinstance(f, HostObj) and callable(f):
            return f(*args, **kwargs)
        if f is None or isinstance(f, (bool, int, float, str, list, dict, tuple)):
            raise PyRaise(TypeError, (f"'{type(f).__name__}' object is not callable",))
        raise Unsupported(f"call of {f!r}", node)

    def instantiate(self, cls, args, kwargs):
        h = self.policy.get(f"{cls.module.relpath}::{cls.name}")
        if h == "opaque":
            rec = self.log_call(f"{cls.module.relpath}::{cls.name}", args, kwargs)
            rec.result = self._opaque_apply(z3.Const(f"ref:{cls.module.relpath}::{cls.name}", Obj), args, kwargs)
            return rec.result
        if callable(h):
            rec = self.log_call(f"{cls.module.relpath}::{cls.name}", args, kwargs)
            rec.result = h(self, rec)
            return rec.result
        # exception classes
        if any((isinstance(c, type) and issubclass(c, BaseException)) for c in cls.mro()):
            init, _ = cls.lookup("__init__")
            if init is None:
                return PyRaise(cls, tuple(args))
            return PyRaise(cls, tuple(args))
        o = Rec(cls)
        if any(isinstance(c, NativeFn) and c.name == "dict" for c in cls.mro()):
            o.attrs["__dict_storage__"] = {}          # instance of a dict subclass
        if cls.is_dataclass:
            fields = []
            for c in reversed(cls.mro()):
                if isinstance(c, ClassV):
                    fields += [n for n in c.ns.get("__annotations__", []) if n not in fields]
            vals = dict(zip(fields, args))
            vals.update(kwargs)
            for n in fields:
                if n in vals:
                    o.attrs[n] = vals[n]
                elif n in cls.ns:
                    o.attrs[n] = cls.ns[n]
                else:
                    raise PyRaise(TypeError, (f"missing {n}",))
            return o
        init, _ = cls.lookup("__init__")
        if init is not None:
            self.call_function(init, [o] + list(args), kwargs)
        elif args or kwargs:
            raise PyRaise(TypeError, ("takes no arguments",))
        return o

    def log_call(self, target, args, kwargs):
        rec = CallRec(target, list(args), dict(kwargs), list(self.path.pc), len(self.path.calls))
        self.path.calls.append(rec)
        return rec

    def call_function(self, f, args, kwargs, node=None, force_inline=False):
        key = f.key
        h = None if force_inline else self.policy.get(key)
        if force_inline and self.path is not None and self.path.__dict__.get("root_module") is None:
            self.path.root_module = f.module
        if h is None and not force_inline:
            if f.nested or self.policy.get("default") == "inline" or any(key.startswith(pre) for pre in self.policy.get("inline", ())):
                h = "inline"
            elif self.path.__dict__.get("root_module") is f.module and self.policy.get("same_module", "inline") == "inline":
                # a helper in the module of the function under proof without a contract of its own is part of that
                # function's implementation: it is executed, not abstracted (a refactoring into helpers changes nothing)
                h = "inline"
            else:
                h = "opaque"
                self.path.opaque_used.add(key)
        if h == "inline" or force_inline:
            return self.run_function(f, args, kwargs)
        rec = self.log_call(key, args, kwargs)
        if h == "opaque":
            fn = z3.Const("ref:" + key, Obj)
            res = self._opaque_apply(fn, args, kwargs)
        else:
            try:
                res = h(self, rec)
            except PyRaise as e:
                rec.raised = e
                raise
        rec.result = res
        return res

    def bind_args(self, f, args, kwargs):
        a = f.node.args
        params = [p.arg for p in a.posonlyargs + a.args]
        frame = {}
        args = list(args)
        kwargs = dict(kwargs)
        n = len(params)
        for k, p in enumerate(params):
            if k < len(args):
                if p in kwargs:
                    raise PyRaise(TypeError, (f"multiple values for {p}",))
                frame[p] = args[k]
            elif p in kwargs:
                frame[p] = kwargs.pop(p)
            else:
                dk = k - (n - len(f.defaults))
                if dk >= 0:
                    frame[p] = f.defaults[dk]
                else:
                    raise PyRaise(TypeError, (f"missing argument {p}",))
        if len(args) > n:
            if a.vararg is None:
                raise PyRaise(TypeError, ("too many positional arguments",))
            frame[a.vararg.arg] = tuple(args[n:])
        elif a.vararg is not None:
            frame[a.vararg.arg] = ()
        for p, d in zip(a.kwonlyargs, f.kw_defaults):
            if p.arg in kwargs:
                frame[p.arg] = kwargs.pop(p.arg)
            elif d is not None or True:
                if p.arg not in kwargs and d is None and _kw_has_no_default(a, p):
                    raise PyRaise(TypeError, (f"missing kw-only {p.arg}",))
                frame[p.arg] = d
        if kwargs:
            if a.kwarg is None:
                raise PyRaise(TypeError, (f"unexpected keyword {sorted(kwargs)}",))
            frame[a.kwarg.arg] = kwargs
        elif a.kwarg is not None:
            frame[a.kwarg.arg] = {}
        return frame

    def ex_Yield(self, node, env):
        e = env
        while e is not None and "__yields__" not in e.frame:
            e = e.parent
        if e is None:
            raise Unsupported("yield outside generator", node)
        e.frame["__yields__"].append(self.eval(node.value, env) if node.value is not None else None)
        return None

    def ex_YieldFrom(self, node, env):
        e = env
        while e is not None and "__yields__" not in e.frame:
            e = e.parent
        if e is None:
            raise Unsupported("yield from outside generator", node)
        e.frame["__yields__"].extend(self.iterate(self.eval(node.value, env)))
        return None

    def run_function(self, f, args, kwargs):
        frame = self.bind_args(f, args, kwargs)
        if getattr(f, "is_generator", None) is None:
            f.is_generator = any(isinstance(n, (ast.Yield, ast.YieldFrom)) for n in ast.walk(f.node))
        if f.is_generator:
            frame["__yields__"] = []      # generators are run eagerly; the yielded values form a list
        if f.cls is not None:
            frame["__class__"] = f.cls
        env = Env(frame, f.env, f.module, qualprefix=f.qualname + ".", in_function=True)
        env.func = f
        depth = self.path.__dict__.get("depth", 0)
        if depth > 60:
            raise Unsupported("recursion depth")
        self.path.depth = depth + 1
        try:
            self.exec_block(f.node.body, env)
        except ReturnSignal as r:
            if f.is_generator:
                return frame["__yields__"]
            return r.value
        finally:
            self.path.depth = depth
        if f.is_generator:
            return frame["__yields__"]
        return None

    def call_ext(self, f, args, kwargs):
        h = self.policy.get("ext:" + f.path)
        if h is None:
            h = self.builtins_model.ext_models.get(f.path)
        rec = self.log_call("ext:" + f.path, args, kwargs)
        if h is not None:
            rec.result = h(self, rec)
            return rec.result
        self.path.opaque_used.add("ext:" + f.path)
        fn = z3.Const("ref:ext:" + f.path, Obj)
        rec.result = self._opaque_apply(fn, args, kwargs)
        return rec.result

    def opaque_call(self, f, args, kwargs, label=None):
        rec = self.log_call(("opaque", f), args, kwargs)
        rec.result = self._opaque_apply(f, args, kwargs)
        return rec.result

    def _opaque_apply(self, fn, args, kwargs):
        kws = sorted(kwargs)
        name = f"call{len(args)}" + ("{" + ",".join(kws) + "}" if kws else "")
        sorts = [Obj] * (1 + len(args) + len(kws)) + [Obj]
        f = ufunc(name, *sorts)
        return f(fn, *[self.box(a) for a in args], *[self.box(kwargs[k]) for k in kws])


class _OpaqueResult(Exception):
    def __init__(self, value):
        self.value = value


class PathCut(Exception):
    """the path ends here by design (after the inductive step of a loop invariant)"""


class LoopSpec:
    def __init__(self, name, invariant, havoc):
        self.name, self.invariant, self.havoc = name, invariant, havoc


class _Abs:
    """value abstracted over an index variable"""

    def __init__(self, var, body):
        self.var, self.body = var, body

    def at(self, eng, i):
        return _subst(self.body, self.var, i)


def _subst(v, var, i):
    if is_z(v):
        return z3.substitute(v, (var, i))
    if isinstance(v, (list, tuple)):
        return type(v)(_subst(x, var, i) for x in v)
    if isinstance(v, dict):
        return {k: _subst(x, var, i) for k, x in v.items()}
    return v


_SymIter = SymList


class _KwBag:
    pass


class _MapLike:
    pass


class _Namespace:
    def __init__(self, **d):
        self.d = d


class _ExcValue:
    def __init__(self, e):
        self.e = e


class Env:
    def __init__(self, frame, parent, module, qualprefix="", in_function=False, kind=None):
        self.frame, self.parent, self.module = frame, parent, module
        self.qualprefix, self.in_function = qualprefix, in_function
        self.globals_decl = set()
        self.func = None
        self.is_comp = False
        self.kind = kind or ("module" if parent is None else "function")

    def lookup(self, name, default=KeyError):
        e = self
        while e is not None:
            if name in e.frame and not (e.kind == "class" and e is not self):
                v = e.frame[name]
                if isinstance(v, _Poison):
                    raise Unsupported(f"module-level binding {name}: {v.why}")
                return v
            e = e.parent
        b = self.module.engine.builtins
        if name in b:
            return b[name]
        if default is KeyError:
            raise PyRaise(NameError, (name,))
        return default

    def lookup_self(self):
        e = self
        while e is not None:
            if e.func is not None and e.func.cls is not None:
                first = e.func.node.args.args[0].arg
                return e.frame[first]
            e = e.parent
        raise Unsupported("super() outside method")

    def bind(self, name, v):
        if name in self.globals_decl:
            self.module.ns[name] = v
            return
        if self.is_comp and False:
            pass
        self.frame[name] = v

    def func_key(self):
        e = self
        while e is not None:
            if e.func is not None and not e.func.nested:
                return e.func.key
            e = e.parent
        e = self
        while e is not None:
            if e.func is not None:
                return e.func.key
            e = e.parent
        return None

    def where(self, node):
        return f"{self.module.relpath}:{getattr(node, 'lineno', '?')}"


def _kw_has_no_default(a, p):
    k = a.kwonlyargs.index(p)
    return a.kw_defaults[k] is None


def _loop_ordinal(env, st):
    e = env
    while e is not None and e.func is None:
        e = e.parent
    if e is None:
        return 0
    k = 0
    for n in ast.walk(e.func.node):
        if isinstance(n, (ast.While, ast.For)):
            if n is st:
                return k
            k += 1
    return -1


def _dotted(n):
    if isinstance(n, ast.Name):
        return n.id
    if isinstance(n, ast.Attribute):
        b = _dotted(n.value)
        return None if b is None else b + "." + n.attr
    return None


def _zb(x):
    return z3.BoolVal(x) if isinstance(x, bool) else x


_zbv = _zb


def _zs(x):
    return z3.StringVal(x) if isinstance(x, str) else x


def _and(cs):
    cs = [c for c in cs if c is not True]
    if any(c is False for c in cs):
        return False
    if not cs:
        return True
    return z3.And(*cs) if len(cs) > 1 else cs[0]


def _or(cs):
    cs = [c for c in cs if c is not False]
    if any(c is True for c in cs):
        return True
    if not cs:
        return False
    return z3.Or(*cs) if len(cs) > 1 else cs[0]


def _and2(a, b):
    return _and([a, b])


def _append_loop_shape(st):
    """(list name, element expression, optional condition) when the loop body only appends to one local list"""
    if st.orelse or len(st.body) != 1:
        return None
    b, test = st.body[0], None
    if isinstance(b, ast.If) and not b.orelse and len(b.body) == 1:
        test, b = b.test, b.body[0]
    if not (isinstance(b, ast.Expr) and isinstance(b.value, ast.Call) and isinstance(b.value.func, ast.Attribute) and b.value.func.attr == "append"
            and isinstance(b.value.func.value, ast.Name) and len(b.value.args) == 1 and not b.value.keywords):
        return None
    out = b.value.func.value.id
    used = {n.id for x in ([b.value.args[0]] + ([test] if test is not None else [])) for n in ast.walk(x) if isinstance(n, ast.Name)}
    if out in used:
        return None
    return out, b.value.args[0], test


def _short_name(o, depth=0):
    """cheap printable name of an opaque object term: constants and attr:x(...) chains only (never prints a large term)"""
    try:
        if o.num_args() == 0:
            return o.decl().name()
        if depth < 3 and o.num_args() == 1 and o.decl().name().startswith("attr:"):
            return f"{o.decl().name()}({_short_name(o.arg(0), depth + 1)})"
    except Exception:
        pass
    return "<term>"


def _contains_sym(v, depth=0):
    if depth > 12:
        return False
    if is_sym(v):
        return True
    if isinstance(v, (list, tuple)):
        return any(_contains_sym(x, depth + 1) for x in v)
    if isinstance(v, dict):
        return any(_contains_sym(x, depth + 1) for x in v.values())
    return False
