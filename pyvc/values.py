"""Value domains of the symbolic executor (DESIGN.md 2.2).

concrete        : ordinary Python objects
scalar          : z3 Real / Int / Bool / String terms
opaque          : z3 terms of the uninterpreted sort ``Obj``
SeqV            : sequence of symbolic length (z3 Array Int->Obj + length)
Rec / ClassV    : interpreted instances / classes of the real source
FuncV / Bound   : interpreted functions of the real source (AST closures)
ModuleV / Ext   : repo modules (interpreted lazily) / external library references
PT              : pointwise tensors (pyvc.tensor)
"""
import z3

Obj = z3.DeclareSort("Obj")
R, I, B, S = z3.RealSort(), z3.IntSort(), z3.BoolSort(), z3.StringSort()

# un-boxers: the views of an opaque object as a number / truth value / string / length
real_of = z3.Function("real_of", Obj, R)
truthy_of = z3.Function("truthy_of", Obj, B)
str_of = z3.Function("str_of", Obj, S)
isnone_of = z3.Function("isnone_of", Obj, B)
len_of = z3.Function("len_of", Obj, I)
item_of = z3.Function("item_of", Obj, Obj, Obj)

box_real = z3.Function("box_real", R, Obj)
box_bool = z3.Function("box_bool", B, Obj)
box_str = z3.Function("box_str", S, Obj)
NONE = z3.Const("NONE", Obj)
NAN = z3.Const("NaN", R)          # the distinguished value float('nan') (DESIGN 2.3.1)

_funcs = {}


def ufunc(name, *sorts):
    """declare (once) an uninterpreted function symbol"""
    key = (name, tuple(str(s) for s in sorts))
    f = _funcs.get(key)
    if f is None:
        f = z3.Function(name, *sorts)
        _funcs[key] = f
    return f


def is_z(v):
    return isinstance(v, z3.ExprRef)


def is_obj(v):
    return isinstance(v, z3.ExprRef) and v.sort() == Obj


def is_num(v):
    return isinstance(v, z3.ArithRef)


def is_zbool(v):
    return isinstance(v, z3.BoolRef)


def is_zstr(v):
    return isinstance(v, z3.SeqRef)


def is_sym(v):
    """anything that is not a plain concrete python object"""
    return isinstance(v, (z3.ExprRef, SeqV, SymList))


class Unsupported(Exception):
    """the interpreter has no model for a construct: the check ends UNDECIDED (exit 2)"""

    def __init__(self, what, node=None, where=None):
        self.what, self.node, self.where = what, node, where
        super().__init__(what)


class Infeasible(Exception):
    """current path condition is unsatisfiable"""


class PyRaise(Exception):
    """an exception raised by the program under analysis"""

    def __init__(self, cls, args=(), cause=None):
        self.cls, self.eargs, self.cause = cls, args, cause
        super().__init__(cls.name if isinstance(cls, ClassV) else getattr(cls, "__name__", str(cls)))


class ReturnSignal(Exception):
    def __init__(self, value):
        self.value = value


class BreakSignal(Exception):
    pass


class ContinueSignal(Exception):
    pass


class SeqV:
    """sequence of symbolic length: elements ``arr[i]`` (Obj) for 0 <= i < n"""

    def __init__(self, arr, n, tag="seq"):
        self.arr, self.n, self.tag = arr, n, tag

    def elem(self, i):
        return z3.simplify(z3.Select(self.arr, i))

    def copy(self):
        return SeqV(self.arr, self.n, self.tag)

    def __repr__(self):
        return f"SeqV(n={self.n}, arr={self.arr})"


class SymList:
    """immutable sequence of symbolic length n whose i-th element is at(engine, i) (any value)"""

    def __init__(self, n, at):
        self.n, self.at = n, at


class FiltV:
    """order preserving sub-sequence of a source of length n: position i is kept iff
    pred(i); the kept element is elem(i) (any interpreter value).  This is the
    'characterised by membership' form of a filtered comprehension."""

    def __init__(self, n, pred, elem):
        self.n, self.pred, self.elem = n, pred, elem


class Rec:
    """instance of an interpreted class"""
    _ids = 0

    def __init__(self, cls):
        self.cls = cls
        self.attrs = {}
        Rec._ids += 1
        self.id = Rec._ids

    def __repr__(self):
        return f"<Rec {self.cls.name}#{self.id}>"


class ClassV:
    def __init__(self, name, bases, ns, module, node=None):
        self.name, self.bases, self.ns, self.module, self.node = name, bases, ns, module, node
        self.is_dataclass = False

    def mro(self):
        out = [self]
        for b in self.bases:
            if isinstance(b, ClassV):
                for c in b.mro():
                    if c not in out:
                        out.append(c)
            elif b not in out:
                out.append(b)
        return out

    def lookup(self, name):
        for c in self.mro():
            if isinstance(c, ClassV):
                if name in c.ns:
                    return c.ns[name], c
        return None, None

    def issub(self, other):
        if other is self:
            return True
        for c in self.mro():
            if c is other:
                return True
            if isinstance(c, type) and isinstance(other, type) and issubclass(c, other):
                return True
        return False

    def __repr__(self):
        return f"<ClassV {self.name}>"


class FuncV:
    def __init__(self, node, module, env, qualname, cls=None):
        self.node, self.module, self.env, self.qualname, self.cls = node, module, env, qualname, cls
        self.defaults = None        # evaluated at definition time
        self.kw_defaults = None
        self.kind = "function"      # function | staticmethod | classmethod | property
        self.nested = False

    @property
    def key(self):
        return f"{self.module.relpath}::{self.qualname}"

    def __repr__(self):
        return f"<FuncV {self.key}>"


class Bound:
    def __init__(self, func, self_obj):
        self.func, self.self_obj = func, self_obj

    def __repr__(self):
        return f"<Bound {self.func} of {self.self_obj}>"


class NativeFn:
    """a python callable that implements a modelled builtin / library function"""

    def __init__(self, name, fn, wants_engine=False):
        self.name, self.fn, self.wants_engine = name, fn, wants_engine

    def __repr__(self):
        return f"<NativeFn {self.name}>"


class HostObj:
    """base of library-model objects (pyvc.iomodel): attribute access, calls, item access, iteration, truth value and
    the context-manager protocol are executed by CPython on the model object, which handles symbolic values itself"""


class Ext:
    """reference into an external library: module, function or attribute; never executed"""

    def __init__(self, path):
        self.path = path

    def __repr__(self):
        return f"<Ext {self.path}>"

    def __eq__(self, o):
        return isinstance(o, Ext) and o.path == self.path

    def __hash__(self):
        return hash(("Ext", self.path))


class SuperV:
    def __init__(self, cls, obj):
        self.cls, self.obj = cls, obj
