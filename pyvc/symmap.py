"""Dictionaries with symbolic keys (DESIGN.md 2.2 'map'): membership / lookup arrays over a key
datatype, plus a ghost `owner` array recording which loop iteration inserted a key (used as the
witness in representation invariants)."""
import z3

from .interp import _MapLike
from .values import I, Obj, PyRaise, Unsupported, is_obj, is_zstr, str_of, ufunc

Key = z3.Datatype("Key")
Key.declare("KStr", ("s", z3.StringSort()))
Key.declare("KSeq", ("v", z3.SeqSort(z3.RealSort())))
Key.declare("KObj", ("o", Obj))
Key = Key.create()

key_of = z3.Function("key_of", Obj, Key)          # the dictionary key denoted by an opaque object
seq_of = z3.Function("seq_of", Obj, z3.SeqSort(z3.RealSort()))


def to_key(eng, k):
    if isinstance(k, str):
        return Key.KStr(z3.StringVal(k))
    if is_zstr(k):
        return Key.KStr(k)
    if isinstance(k, tuple) and all(isinstance(x, (int, float)) and not isinstance(x, bool) for x in k):
        if not k:
            return Key.KSeq(z3.Empty(z3.SeqSort(z3.RealSort())))
        units = [z3.Unit(z3.RealVal(repr(float(x)) if isinstance(x, float) else x)) for x in k]
        return Key.KSeq(z3.Concat(*units) if len(units) > 1 else units[0])
    if is_obj(k):
        return key_of(k)
    raise Unsupported(f"dictionary key {k!r}")


class SymDict(_MapLike):
    def __init__(self, eng, name, initial=None):
        self.name = name
        self.member = z3.K(Key, z3.BoolVal(False))
        self.lookup = z3.K(Key, z3.Const(f"{name}!absent", Obj))
        self.owner = z3.K(Key, z3.IntVal(-1))
        self.ghost_index = z3.IntVal(-1)          # set by the loop contract: the iteration doing the insertions
        self.version = 0
        for k, v in (initial or {}).items():
            kk = to_key(eng, k)
            self.member = z3.Store(self.member, kk, z3.BoolVal(True))
            self.lookup = z3.Store(self.lookup, kk, eng.box(v))

    def havoc(self, eng):
        self.version += 1
        v = self.version
        self.member = z3.Const(f"{self.name}!member!{v}", z3.ArraySort(Key, z3.BoolSort()))
        self.lookup = z3.Const(f"{self.name}!lookup!{v}", z3.ArraySort(Key, Obj))
        self.owner = z3.Const(f"{self.name}!owner!{v}", z3.ArraySort(Key, I))

    def contains(self, eng, k):
        return z3.Select(self.member, to_key(eng, k))

    def getitem(self, eng, k):
        kk = to_key(eng, k)
        if not eng.branch(z3.Select(self.member, kk)):
            raise PyRaise(KeyError, ())
        return z3.Select(self.lookup, kk)

    def setitem(self, eng, k, v):
        kk = to_key(eng, k)
        self.member = z3.Store(self.member, kk, z3.BoolVal(True))
        self.lookup = z3.Store(self.lookup, kk, eng.box(v))
        self.owner = z3.Store(self.owner, kk, self.ghost_index)

    def getattr(self, eng, name):
        from .values import NativeFn
        if name == "get":
            def get(k, default=None):
                kk = to_key(eng, k)
                if eng.branch(z3.Select(self.member, kk)):
                    return z3.Select(self.lookup, kk)
                return default
            return NativeFn("symdict.get", get)
        raise Unsupported(f"method {name} of a dictionary with symbolic keys")

    def iterate(self, eng):
        raise Unsupported("iteration over a dictionary with symbolic keys")
