"""Obligations about pointwise tensors: shape equality and value at a generic in-bounds index."""
import z3

from .tensor import PT, lift
from .values import is_z


def dims_goal(actual_shape, expected_shape):
    if len(actual_shape) != len(expected_shape):
        return z3.BoolVal(False)
    gs = []
    for a, b in zip(actual_shape, expected_shape):
        a = a if is_z(a) else z3.IntVal(a)
        b = b if is_z(b) else z3.IntVal(b)
        gs.append(a == b)
    return z3.And(*gs) if gs else z3.BoolVal(True)


def generic_index(shape, prefix="g"):
    idx = tuple(z3.Int(f"{prefix}{k}") for k in range(len(shape)))
    bounds = [z3.And(i >= 0, i < (d if is_z(d) else z3.IntVal(d))) for i, d in zip(idx, shape)]
    return idx, bounds


def tensor_obligation(T, eng, name, hyps, actual, expected_shape, expected_fn, kind="value", **meta):
    """actual is a PT (or scalar); expected_fn(idx) the specified element. Two obligations: shape, element."""
    t = actual if isinstance(actual, PT) else lift(eng, actual)
    ok1 = T.ob(eng, name + ".shape", hyps, dims_goal(t.shape, tuple(expected_shape)), kind=kind, **meta)
    if len(t.shape) != len(expected_shape):
        return False
    idx, bounds = generic_index(expected_shape)
    val = t.fn(idx)
    exp = expected_fn(idx)
    if t.kind == "bool" and not z3.is_bool(exp):
        val = z3.If(val, z3.RealVal(1), z3.RealVal(0))
    if z3.is_bool(val) and z3.is_bool(exp):
        goal = val == exp
    else:
        goal = eng.to_real(val) == eng.to_real(exp)
    ok2 = T.ob(eng, name, list(hyps) + bounds, goal, kind=kind, **meta)
    return ok1 and ok2
