"""Discharging obligations: axiom instantiation, reduction congruence pass, z3 then cvc5."""
import os
import subprocess
import tempfile
import time

import z3

from .values import R, I

Z3_TIMEOUT_MS = int(os.environ.get("PYVC_Z3_TIMEOUT_MS", "10000"))


def _ms(x):
    """solver budgets are wall-clock: a task whose obligation timed out is re-run by the harness with PYVC_TIMEOUT_FACTOR > 1
    (serially), so that a busy machine delays a verdict instead of flipping it"""
    return int(x * float(os.environ.get("PYVC_TIMEOUT_FACTOR", "1")))
CVC5_TIMEOUT_S = int(os.environ.get("PYVC_CVC5_TIMEOUT_S", "10"))

# z3's LP-based tightening of monomial bounds (nla::monomial_bounds::tighten_lp) can spend unbounded time in big-rational
# powers WITHOUT honouring the solver timeout (observed: a worker at 100 % CPU for 20+ minutes under load); it is switched off.
# All obligations of all 20 checks are discharged without it (and slightly faster).  The harness additionally runs every task
# under a hard wall-clock limit (harness._run_tasks_guarded).
z3.set_param("smt.arith.nl.optimize_bounds", False)
# optional z3 parameters for experiments: PYVC_Z3_PARAMS="smt.arith.nl.optimize_bounds=false,..."
for _kv in filter(None, os.environ.get("PYVC_Z3_PARAMS", "").split(",")):
    _k, _v = _kv.split("=")
    z3.set_param(_k, {"true": True, "false": False}.get(_v, int(_v) if _v.isdigit() else _v))

SumF = z3.Function("SumF", I, z3.ArraySort(I, R), R)
ProdF = z3.Function("ProdF", I, z3.ArraySort(I, R), R)


def _apps(formulas, names):
    """all application terms whose head symbol is in names (DAG walk)"""
    seen = set()
    out = {n: [] for n in names}
    stack = list(formulas)
    while stack:
        t = stack.pop()
        if not z3.is_expr(t):
            continue
        i = t.get_id()
        if i in seen:
            continue
        seen.add(i)
        if z3.is_quantifier(t):
            stack.append(t.body())
            continue
        if z3.is_app(t):
            nm = t.decl().name()
            if nm in out and t.num_args() > 0:
                out[nm].append(t)
            stack.extend(t.children())
    return out


def _ground(t):
    """no de-Bruijn variables inside (instances must be closed terms)"""
    seen = set()
    stack = [t]
    while stack:
        x = stack.pop()
        if x.get_id() in seen:
            continue
        seen.add(x.get_id())
        if z3.is_var(x):
            return False
        if z3.is_app(x):
            stack.extend(x.children())
    return True


def instantiate_axioms(eng, formulas, rounds=1):
    """ground instances of the axioms of Phi, sqrt, pow, log, exp for the terms that occur.
    These are the *only* facts about those symbols that any proof uses (trusted base)."""
    from .tensor import Phi, Sqrt
    names = ["Phi", "usqrt", "upow", "ulog", "uexp", "lgamma", "erfc", "xlogy"]
    if not getattr(eng, "use_axioms", True):
        return []
    facts = []
    found = _apps(formulas, names)
    # --- Phi: range, symmetry, strict monotonicity
    phis = [t for t in found["Phi"] if _ground(t)]
    args = {t.arg(0).get_id(): t.arg(0) for t in phis}
    neg = {}
    for a in list(args.values()):
        na = z3.simplify(-a)
        if na.get_id() not in args:
            neg[na.get_id()] = na
        facts.append(Phi(na) == 1 - Phi(a))
    allargs = list(args.values()) + list(neg.values())
    for a in allargs:
        facts.append(z3.And(Phi(a) > 0, Phi(a) < 1))
    for i in range(len(allargs)):
        for j in range(len(allargs)):
            if i != j:
                facts.append(z3.Implies(allargs[i] < allargs[j], Phi(allargs[i]) < Phi(allargs[j])))
    # --- sqrt
    sq = [t for t in found["usqrt"] if _ground(t)]
    sargs = list({t.arg(0).get_id(): t.arg(0) for t in sq}.values())
    for a in sargs:
        facts.append(z3.Implies(a >= 0, z3.And(Sqrt(a) >= 0, Sqrt(a) * Sqrt(a) == a)))
    for i in range(len(sargs)):
        for j in range(len(sargs)):
            if i != j:
                facts.append(z3.Implies(z3.And(0 <= sargs[i], sargs[i] < sargs[j]), Sqrt(sargs[i]) < Sqrt(sargs[j])))
    # --- pow
    from .tensor import Pow
    pw = [t for t in found["upow"] if _ground(t)]
    for t in pw:
        x, y = t.arg(0), t.arg(1)
        facts.append(z3.Implies(y == 0, t == 1))
        facts.append(z3.Implies(y == 1, t == x))
        facts.append(z3.Implies(x > 0, t > 0))
        facts.append(z3.Implies(x == 1, t == 1))
    for extra in getattr(eng, "axiom_schemas", []):
        facts.extend(extra(found, formulas))
    return facts


class Result:
    __slots__ = ("name", "status", "backend", "seconds", "model", "detail", "meta")

    def __init__(self, name, status, backend, seconds, model=None, detail="", meta=None):
        self.name, self.status, self.backend, self.seconds = name, status, backend, seconds
        self.model, self.detail, self.meta = model, detail, meta or {}

    def as_dict(self):
        return {"name": self.name, "status": self.status, "backend": self.backend, "seconds": round(self.seconds, 4),
                "model": self.model, "detail": self.detail, "meta": self.meta}


def congruence_facts(eng, formulas, hyps):
    """R1: for every pair of reduction terms of equal kind and extent whose bodies are proved
    equal at a fresh index, add the equality of the two reductions (inner terms first)."""
    reds = getattr(eng, "reductions", None)
    if not reds:
        return []
    found = _apps(formulas, ["SumF", "ProdF"])
    facts = []
    # R4 (split): a reduction over an extent that is a sum n1 + ... + nk (each part >= 0 under the hypotheses) is the
    # combination of the reductions over the parts; a reduction over the extent 1 is its single element.
    split_facts = []
    for nm, F in (("SumF", SumF), ("ProdF", ProdF)):
        for t in list({t.get_id(): t for t in found[nm] if _ground(t)}.values()):
            n, arr = t.arg(0), t.arg(1)
            parts = getattr(eng, "extent_parts", {}).get(n.get_id()) or (list(n.children()) if z3.is_add(n) else None)
            if parts and 2 <= len(parts) <= 10:
                s = z3.Solver()
                s.set("timeout", _ms(2000))
                s.add(*hyps)
                s.add(z3.Not(z3.And(*[p >= 0 for p in parts])))
                if s.check() != z3.unsat:
                    continue
                off, pieces = z3.IntVal(0), []
                for k, p in enumerate(parts):
                    j = z3.Int(f"sp!{t.get_id()}!{k}")
                    sub = z3.Lambda([j], z3.Select(arr, z3.simplify(off) + j))
                    if z3.is_int_value(p) and p.as_long() == 1:
                        pieces.append(z3.Select(arr, z3.simplify(off)))
                    else:
                        pieces.append(F(p, sub))
                    off = off + p
                comb = pieces[0]
                for x in pieces[1:]:
                    comb = comb + x if nm == "SumF" else comb * x
                split_facts.append(t == comb)
            elif z3.is_int_value(n) and n.as_long() == 1:
                split_facts.append(t == z3.Select(arr, z3.IntVal(0)))
    if split_facts:
        facts.extend(split_facts)
        found = _apps(list(formulas) + split_facts, ["SumF", "ProdF"])
    for nm in ("SumF", "ProdF"):
        terms = list({t.get_id(): t for t in found[nm] if _ground(t)}.values())
        terms.sort(key=lambda t: len(t.sexpr()))
        for a in range(len(terms)):
            for b in range(a + 1, len(terms)):
                t1, t2 = terms[a], terms[b]
                if t1.eq(t2):
                    continue
                n1, n2 = t1.arg(0), t2.arg(0)
                if not n1.eq(n2) and not z3.is_true(z3.simplify(n1 == n2)):
                    continue            # different extents: no congruence (keeps the pass linear in practice)
                j = z3.Int(f"cg!{t1.get_id()}!{t2.get_id()}")
                s = z3.Solver()
                s.set("timeout", _ms(3000))
                s.add(*hyps)
                s.add(*facts)
                body_eq = z3.Select(t1.arg(1), j) == z3.Select(t2.arg(1), j)
                s.add(z3.Not(z3.And(n1 == n2, z3.Implies(z3.And(j >= 0, j < n1), body_eq))))
                if s.check() == z3.unsat:
                    facts.append(t1 == t2)
                    continue
                if nm != "SumF":
                    continue
                # R3 (monotonicity): forall j. f(j) <= g(j)  =>  Sum f <= Sum g   (and symmetrically)
                for (x, y) in ((t1, t2), (t2, t1)):
                    s = z3.Solver()
                    s.set("timeout", _ms(3000))
                    s.add(*hyps)
                    s.add(*facts)
                    s.add(z3.Not(z3.And(n1 == n2, z3.Implies(z3.And(j >= 0, j < n1), z3.Select(x.arg(1), j) <= z3.Select(y.arg(1), j)))))
                    if s.check() == z3.unsat:
                        facts.append(x <= y)
        if nm == "SumF":
            # R3 (bounds): forall j. l <= f(j) <= u  =>  n*l <= Sum f <= n*u, instantiated for indicator-like bodies (l=0, u=1)
            for t in terms:
                n = t.arg(0)
                j = z3.Int(f"bd!{t.get_id()}")
                s = z3.Solver()
                s.set("timeout", _ms(3000))
                s.add(*hyps)
                body = z3.Select(t.arg(1), j)
                s.add(z3.Not(z3.Implies(z3.And(j >= 0, j < n), z3.And(body >= 0, body <= 1))))
                if s.check() == z3.unsat:
                    facts.append(z3.Implies(n >= 0, z3.And(t >= 0, t <= z3.ToReal(n))))
    return facts


HEAVY = ("xlogy", "ulog", "usqrt", "lgamma", "uexp", "upow", "Phi")


def application_hints(eng, hyps, goal, ax, budget_pairs=400, budget_s=12.0):
    """lemma hints: for pairs of applications of the same uninterpreted special function occurring in the goal,
    prove the arguments equal (small separate queries) and hand the resulting equalities of the applications to the
    main query.  Sound: each hint is itself proved under the same hypotheses."""
    found = _apps([goal], list(HEAVY))
    hints = []
    pairs = 0
    t_start = time.time()
    for nm in HEAVY:
        terms = list({t.get_id(): t for t in found[nm] if _ground(t)}.values())
        terms.sort(key=lambda t: len(t.sexpr()))
        for a in range(len(terms)):
            for b in range(a + 1, len(terms)):
                if pairs >= budget_pairs or time.time() - t_start > budget_s:
                    return hints
                t1, t2 = terms[a], terms[b]
                pairs += 1
                s = z3.Solver()
                s.set("timeout", _ms(400))
                s.add(*hyps)
                s.add(*ax)
                s.add(*hints)
                s.add(z3.Not(z3.And(*[t1.arg(k) == t2.arg(k) for k in range(t1.num_args())])))
                if s.check() == z3.unsat:
                    hints.append(t1 == t2)
    return hints


def _real_consts(formulas):
    seen, out, stack = set(), {}, list(formulas)
    while stack:
        t = stack.pop()
        if t.get_id() in seen:
            continue
        seen.add(t.get_id())
        if z3.is_quantifier(t):
            stack.append(t.body())
        elif z3.is_app(t):
            if t.num_args() == 0 and t.decl().kind() == z3.Z3_OP_UNINTERPRETED and t.sort() in (R, I):
                out[t.get_id()] = t
            stack.extend(t.children())
    return list(out.values())


def _depth_apps(goal, names):
    """applications of the named symbols in the goal, innermost first"""
    found = _apps([goal], names)
    terms = {}
    for nm in names:
        for t in found[nm]:
            if _ground(t):
                terms[t.get_id()] = t
    return sorted(terms.values(), key=lambda t: len(t.sexpr()))


def _ite_conditions(t):
    seen, out, stack = set(), {}, [t]
    while stack:
        x = stack.pop()
        if x.get_id() in seen:
            continue
        seen.add(x.get_id())
        if z3.is_app(x):
            if x.decl().kind() == z3.Z3_OP_ITE:
                c = x.arg(0)
                out[c.get_id()] = c
            stack.extend(x.children())
    return list(out.values())


def prune_ites(hyps, goal, limit=80):
    """replace if-conditions that the hypotheses decide by their truth value (each decided by a small separate query)"""
    conds = _ite_conditions(goal)[:limit]
    sub = []
    for c in conds:
        for val, neg in ((z3.BoolVal(True), z3.Not(c)), (z3.BoolVal(False), c)):
            s = z3.Solver()
            s.set("timeout", _ms(600))
            s.add(*hyps)
            s.add(neg)
            if s.check() == z3.unsat:
                sub.append((c, val))
                break
    if not sub:
        return goal
    return z3.simplify(z3.substitute(goal, *sub))


def abstraction_tactic(eng, hyps, goal, ax, timeout_ms):
    """Prove an identity between sums of special-function terms by (i) grouping the applications of each special function
    into classes with provably equal arguments (small polynomial queries, candidates pre-filtered by evaluating the
    arguments at a random rational point), (ii) replacing every application by the constant of its class (innermost
    first) and (iii) proving the abstracted goal.  Sound: equal terms are replaced by equal constants."""
    import random
    rng = random.Random(12345)
    names = list(HEAVY)
    cur_goal = z3.simplify(goal)
    # the axiom instances must talk about the (simplified) terms that are going to be abstracted
    cur_hyps = list(hyps) + list(ax) + instantiate_axioms(eng, [cur_goal])
    subst_all = []
    for _round in range(6):
        cur_goal = z3.simplify(cur_goal)
        apps = _depth_apps(cur_goal, names)
        # only applications whose arguments are free of further applications (innermost layer)
        layer = [t for t in apps if not any(_apps([a], names)[n] for a in t.children() for n in names)]
        if not layer:
            break
        consts = _real_consts([cur_goal])
        point = [(c, z3.RealVal(f"{rng.randint(11, 97)}/{rng.randint(7, 13)}") if c.sort() == R else z3.IntVal(rng.randint(2, 5))) for c in consts]
        classes = []          # (head, representative term, const, fingerprint)
        mapping = []
        for t in layer:
            try:
                fp = tuple(z3.simplify(z3.substitute(a, *point)).sexpr() for a in t.children())
            except z3.Z3Exception:
                fp = None
            hit = None
            for cl in classes:
                if cl[0] != t.decl().name() or (fp is not None and cl[3] is not None and cl[3] != fp):
                    continue
                s = z3.Solver()
                s.set("timeout", _ms(1500))
                s.add(*cur_hyps)
                s.add(z3.Not(z3.And(*[t.arg(k) == cl[1].arg(k) for k in range(t.num_args())])))
                if s.check() == z3.unsat:
                    hit = cl
                    break
            if hit is None:
                k = z3.Real(f"abs!{len(subst_all) + len(classes)}!{_round}")
                hit = (t.decl().name(), t, k, fp)
                classes.append(hit)
            mapping.append((t, hit[2]))
        cur_goal = z3.substitute(cur_goal, *mapping)
        cur_hyps = [z3.substitute(h, *mapping) for h in cur_hyps]
        subst_all += mapping
        cur_goal = prune_ites(cur_hyps, cur_goal)
    s = z3.Solver()
    s.set("timeout", _ms(timeout_ms))
    s.add(*cur_hyps)
    s.add(z3.Not(cur_goal))
    return s.check() == z3.unsat


def manual_instances(hyps, goal, limit=60):
    """instances of the universally quantified hypotheses (Int-bound) at the integer terms of the goal - E-matching by
    hand; sound (instances of hypotheses), helps the solver with loop / map invariants"""
    import itertools
    ints = {}
    stack, seen = [goal], set()
    while stack:
        t = stack.pop()
        if t.get_id() in seen:
            continue
        seen.add(t.get_id())
        if z3.is_quantifier(t):
            continue
        if z3.is_app(t):
            if t.sort() == I and _ground(t) and (t.num_args() == 0 and t.decl().kind() == z3.Z3_OP_UNINTERPRETED or z3.is_int_value(t) or t.num_args() > 0):
                if len(t.sexpr()) < 60:
                    ints[t.get_id()] = t
            stack.extend(t.children())
    terms = list(ints.values())[:12]
    out = []
    for h in hyps:
        qs = [h] if z3.is_quantifier(h) else [c for c in (h.children() if z3.is_and(h) else []) if z3.is_quantifier(c)]
        for q in qs:
            if not q.is_forall() or q.num_vars() > 2 or any(q.var_sort(k) != I for k in range(q.num_vars())):
                continue
            for combo in itertools.product(terms, repeat=q.num_vars()):
                if len(out) >= limit:
                    return out
                out.append(z3.substitute_vars(q.body(), *reversed(combo)))
    return out


def discharge(eng, name, hyps, goal, meta=None, timeout_ms=None):
    """prove hyps => goal.  status: proved | refuted | unknown"""
    meta = meta or {}
    t0 = time.time()
    if goal is True:
        return Result(name, "proved", "trivial", 0.0, meta=_meta_out(meta))
    if goal is False:
        goal = z3.BoolVal(False)
    formulas = list(hyps) + [goal]
    ax = instantiate_axioms(eng, formulas)
    cg = congruence_facts(eng, formulas + ax, list(hyps) + ax)
    if meta.get("kind") == "canary":
        timeout_ms = 1500
    s = z3.Solver()
    s.set("timeout", _ms(timeout_ms or Z3_TIMEOUT_MS))
    s.add(*hyps)
    s.add(*ax)
    s.add(*cg)
    if any(z3.is_quantifier(h) or (z3.is_and(h) and any(z3.is_quantifier(c) for c in h.children())) for h in hyps):
        try:
            s.add(*manual_instances(list(hyps), goal))
        except z3.Z3Exception:
            pass
    s.add(z3.Not(goal))
    heavy_present = any(_apps([goal], list(HEAVY))[n] for n in HEAVY) and z3.is_eq(goal)
    if heavy_present and meta.get("kind") not in ("canary",):
        try:
            if abstraction_tactic(eng, list(hyps), goal, ax + cg, 4000):
                return Result(name, "proved", "z3-abstraction", time.time() - t0, meta=_meta_out(meta))
        except z3.Z3Exception:
            pass
    if cg and meta.get("kind") not in ("canary",):
        try:
            if reduction_abstraction(list(hyps), ax, cg, goal, 5000):
                return Result(name, "proved", "z3-reduction-abstraction", time.time() - t0, meta=_meta_out(meta))
        except z3.Z3Exception:
            pass
    s.set("timeout", _ms(min(timeout_ms or Z3_TIMEOUT_MS, 4000)))
    r = s.check()
    if r == z3.unknown and not heavy_present:
        # second attempt: abstraction of the special-function applications into classes with provably equal arguments
        try:
            if abstraction_tactic(eng, list(hyps), goal, ax + cg, timeout_ms or Z3_TIMEOUT_MS):
                return Result(name, "proved", "z3-abstraction", time.time() - t0, meta=_meta_out(meta))
        except z3.Z3Exception:
            pass
        s.set("timeout", _ms(timeout_ms or Z3_TIMEOUT_MS))
        r = s.check()
    if r == z3.unknown and cg:
        # reductions as opaque reals: with the congruence / split facts in place the remaining goal is plain arithmetic over them
        try:
            if reduction_abstraction(list(hyps), ax, cg, goal, timeout_ms or Z3_TIMEOUT_MS):
                return Result(name, "proved", "z3-reduction-abstraction", time.time() - t0, meta=_meta_out(meta))
        except z3.Z3Exception:
            pass
    dt = time.time() - t0
    if r == z3.unsat:
        return Result(name, "proved", "z3", dt, meta=_meta_out(meta))
    if r == z3.sat:
        return Result(name, "refuted", "z3", dt, model=_model_out(s.model(), meta), meta=_meta_out(meta))
    if meta.get("kind") == "canary":
        return Result(name, "unknown", "z3", time.time() - t0, detail="canary not provable (as it should be)", meta=_meta_out(meta))
    # second back end
    try:
        smt2 = s.to_smt2()
        r2, out = run_cvc5(smt2, CVC5_TIMEOUT_S)
    except Exception as e:      # cvc5 cannot read some z3 constructs (lambdas): stays unknown
        r2, out = "unknown", f"cvc5 not applicable: {e}"
    dt = time.time() - t0
    if r2 == "unsat":
        return Result(name, "proved", "cvc5", dt, meta=_meta_out(meta))
    if r2 == "sat":
        return Result(name, "refuted", "cvc5", dt, model=None, detail=out[:2000], meta=_meta_out(meta))
    return Result(name, "unknown", "z3+cvc5", dt, detail=f"z3: {s.reason_unknown()}; cvc5: {out[:300]}", meta=_meta_out(meta))


def reduction_abstraction(hyps, ax, cg, goal, timeout_ms):
    """sound strengthening of the query: every ground SumF / ProdF term becomes a fresh real constant (same term -> same
    constant), selections from lambdas are beta-reduced; unsat of the abstracted query implies unsat of the original"""
    fs = [z3.simplify(f) for f in list(hyps) + list(ax) + list(cg) + [z3.Not(goal)]]
    found = _apps(fs, ["SumF", "ProdF"])
    terms = sorted({t.get_id(): t for nm in ("SumF", "ProdF") for t in found[nm] if _ground(t)}.values(), key=lambda t: -len(t.sexpr()))
    subs = [(t, z3.Real(f"red!abs!{k}")) for k, t in enumerate(terms)]
    if not subs:
        return False
    fs = [z3.simplify(z3.substitute(f, *subs)) for f in fs]
    s = z3.Solver()
    s.set("timeout", _ms(min(timeout_ms, 20000)))
    s.add(*fs)
    return s.check() == z3.unsat


def run_cvc5(smt2, tlimit_s):
    with tempfile.NamedTemporaryFile("w", suffix=".smt2", delete=False) as f:
        f.write("(set-logic ALL)\n" + smt2)
        path = f.name
    try:
        p = subprocess.run(["/usr/bin/cvc5", "--lang=smt2", f"--tlimit={_ms(tlimit_s * 1000)}", "--strings-exp", path],
                           capture_output=True, text=True, timeout=_ms(tlimit_s * 1000) / 1000 + 5)
        out = (p.stdout + p.stderr).strip()
        first = out.splitlines()[0] if out else ""
        if first in ("sat", "unsat"):
            return first, out
        return "unknown", out
    except subprocess.TimeoutExpired:
        return "unknown", "timeout"
    finally:
        os.unlink(path)


def _meta_out(meta):
    return {k: v for k, v in meta.items() if k not in ("inputs",) and isinstance(v, (str, int, float, bool, list, dict, type(None)))}


def _model_out(model, meta):
    out = {}
    for k, e in (meta.get("inputs") or {}).items():
        try:
            v = model.eval(e, model_completion=True)
            out[k] = _pyval(v)
        except Exception as ex:     # pragma: no cover
            out[k] = f"<{ex}>"
    return out


def _pyval(v):
    if z3.is_int_value(v):
        return v.as_long()
    if z3.is_rational_value(v):
        return {"num": v.numerator_as_long(), "den": v.denominator_as_long()}
    if z3.is_algebraic_value(v):
        return {"approx": v.approx(12).as_decimal(12)}
    if z3.is_true(v):
        return True
    if z3.is_false(v):
        return False
    if z3.is_string_value(v):
        return v.as_string()
    return str(v)


def is_sat(hyps, timeout_ms=3000, eng=None):
    s = z3.Solver()
    s.set("timeout", _ms(timeout_ms))
    s.add(*hyps)
    if eng is not None:
        s.add(*instantiate_axioms(eng, hyps))
    return s.check()
