"""Discharging obligations: axiom instantiation, reduction congruence pass, z3 then cvc5."""
import os
import subprocess
import tempfile
import time

import z3

from .values import R, I

Z3_TIMEOUT_MS = int(os.environ.get("PYVC_Z3_TIMEOUT_MS", "10000"))
CVC5_TIMEOUT_S = int(os.environ.get("PYVC_CVC5_TIMEOUT_S", "10"))

SumF = z3.Function("SumF", I, z3.ArraySort(I, R), R)
ProdF = z3.Function("ProdF", I, z3.ArraySort(I, R), R)


def _apps(formulas, names):
    """all application terms whose head symbol is in names (DAG walk)"""
    seen = set()
    out = {n: [] for n in names}
    stack = list(formulas)
    while stack:
        t = stack.pop()
        if not z3.is_expr(t):
            continue
        i = t.get_id()
        if i in seen:
            continue
        seen.add(i)
        if z3.is_quantifier(t):
            stack.append(t.body())
            continue
        if z3.is_app(t):
            nm = t.decl().name()
            if nm in out and t.num_args() > 0:
                out[nm].append(t)
            stack.extend(t.children())
    return out


def _ground(t):
    """no de-Bruijn variables inside (instances must be closed terms)"""
    seen = set()
    stack = [t]
    while stack:
        x = stack.pop()
        if x.get_id() in seen:
            continue
        seen.add(x.get_id())
        if z3.is_var(x):
            return False
        if z3.is_app(x):
            stack.extend(x.children())
    return True


def instantiate_axioms(eng, formulas, rounds=1):
    """ground instances of the axioms of Phi, sqrt, pow, log, exp for the terms that occur.
    These are the *only* facts about those symbols that any proof uses (trusted base)."""
    from .tensor import Phi, Sqrt
    names = ["Phi", "usqrt", "upow", "ulog", "uexp", "lgamma", "erfc", "xlogy"]
    if not getattr(eng, "use_axioms", True):
        return []
    facts = []
    found = _apps(formulas, names)
    # --- Phi: range, symmetry, strict monotonicity
    phis = [t for t in found["Phi"] if _ground(t)]
    args = {t.arg(0).get_id(): t.arg(0) for t in phis}
    neg = {}
    for a in list(args.values()):
        na = z3.simplify(-a)
        if na.get_id() not in args:
            neg[na.get_id()] = na
        facts.append(Phi(na) == 1 - Phi(a))
    allargs = list(args.values()) + list(neg.values())
    for a in allargs:
        facts.append(z3.And(Phi(a) > 0, Phi(a) < 1))
    for i in range(len(allargs)):
        for j in range(len(allargs)):
            if i != j:
                facts.append(z3.Implies(allargs[i] < allargs[j], Phi(allargs[i]) < Phi(allargs[j])))
    # --- sqrt
    sq = [t for t in found["usqrt"] if _ground(t)]
    sargs = list({t.arg(0).get_id(): t.arg(0) for t in sq}.values())
    for a in sargs:
        facts.append(z3.Implies(a >= 0, z3.And(Sqrt(a) >= 0, Sqrt(a) * Sqrt(a) == a)))
    for i in range(len(sargs)):
        for j in range(len(sargs)):
            if i != j:
                facts.append(z3.Implies(z3.And(0 <= sargs[i], sargs[i] < sargs[j]), Sqrt(sargs[i]) < Sqrt(sargs[j])))
    # --- pow
    from .tensor import Pow
    pw = [t for t in found["upow"] if _ground(t)]
    for t in pw:
        x, y = t.arg(0), t.arg(1)
        facts.append(z3.Implies(y == 0, t == 1))
        facts.append(z3.Implies(y == 1, t == x))
        facts.append(z3.Implies(x > 0, t > 0))
        facts.append(z3.Implies(x == 1, t == 1))
    for extra in getattr(eng, "axiom_schemas", []):
        facts.extend(extra(found, formulas))
    return facts


class Result:
    __slots__ = ("name", "status", "backend", "seconds", "model", "detail", "meta")

    def __init__(self, name, status, backend, seconds, model=None, detail="", meta=None):
        self.name, self.status, self.backend, self.seconds = name, status, backend, seconds
        self.model, self.detail, self.meta = model, detail, meta or {}

    def as_dict(self):
        return {"name": self.name, "status": self.status, "backend": self.backend, "seconds": round(self.seconds, 4),
                "model": self.model, "detail": self.detail, "meta": self.meta}


def congruence_facts(eng, formulas, hyps):
    """R1: for every pair of reduction terms of equal kind and extent whose bodies are proved
    equal at a fresh index, add the equality of the two reductions (inner terms first)."""
    reds = getattr(eng, "reductions", None)
    if not reds:
        return []
    found = _apps(formulas, ["SumF", "ProdF"])
    facts = []
    for nm in ("SumF", "ProdF"):
        terms = list({t.get_id(): t for t in found[nm] if _ground(t)}.values())
        terms.sort(key=lambda t: len(t.sexpr()))
        for a in range(len(terms)):
            for b in range(a + 1, len(terms)):
                t1, t2 = terms[a], terms[b]
                if t1.eq(t2):
                    continue
                n1, n2 = t1.arg(0), t2.arg(0)
                j = z3.Int(f"cg!{t1.get_id()}!{t2.get_id()}")
                s = z3.Solver()
                s.set("timeout", 3000)
                s.add(*hyps)
                s.add(*facts)
                body_eq = z3.Select(t1.arg(1), j) == z3.Select(t2.arg(1), j)
                s.add(z3.Not(z3.And(n1 == n2, z3.Implies(z3.And(j >= 0, j < n1), body_eq))))
                if s.check() == z3.unsat:
                    facts.append(t1 == t2)
    return facts


HEAVY = ("xlogy", "ulog", "usqrt", "lgamma", "uexp", "upow", "Phi")


def application_hints(eng, hyps, goal, ax, budget_pairs=300):
    """lemma hints: for pairs of applications of the same uninterpreted special function occurring in the goal,
    prove the arguments equal (small separate queries) and hand the resulting equalities of the applications to the
    main query.  Sound: each hint is itself proved under the same hypotheses."""
    found = _apps([goal], list(HEAVY))
    hints = []
    pairs = 0
    for nm in HEAVY:
        terms = list({t.get_id(): t for t in found[nm] if _ground(t)}.values())
        terms.sort(key=lambda t: len(t.sexpr()))
        for a in range(len(terms)):
            for b in range(a + 1, len(terms)):
                if pairs >= budget_pairs:
                    return hints
                t1, t2 = terms[a], terms[b]
                pairs += 1
                s = z3.Solver()
                s.set("timeout", 1500)
                s.add(*hyps)
                s.add(*ax)
                s.add(*hints)
                s.add(z3.Not(z3.And(*[t1.arg(k) == t2.arg(k) for k in range(t1.num_args())])))
                if s.check() == z3.unsat:
                    hints.append(t1 == t2)
    return hints


def discharge(eng, name, hyps, goal, meta=None, timeout_ms=None):
    """prove hyps => goal.  status: proved | refuted | unknown"""
    meta = meta or {}
    t0 = time.time()
    if goal is True:
        return Result(name, "proved", "trivial", 0.0, meta=_meta_out(meta))
    if goal is False:
        goal = z3.BoolVal(False)
    formulas = list(hyps) + [goal]
    ax = instantiate_axioms(eng, formulas)
    cg = congruence_facts(eng, formulas + ax, list(hyps) + ax)
    s = z3.Solver()
    s.set("timeout", timeout_ms or Z3_TIMEOUT_MS)
    s.add(*hyps)
    s.add(*ax)
    s.add(*cg)
    s.add(z3.Not(goal))
    s.set("timeout", min(timeout_ms or Z3_TIMEOUT_MS, 4000))
    r = s.check()
    if r == z3.unknown:
        # second attempt with proved congruence hints for the special-function applications
        hints = application_hints(eng, list(hyps), goal, ax + cg)
        s.set("timeout", timeout_ms or Z3_TIMEOUT_MS)
        s.add(*hints)
        r = s.check()
    dt = time.time() - t0
    if r == z3.unsat:
        return Result(name, "proved", "z3", dt, meta=_meta_out(meta))
    if r == z3.sat:
        return Result(name, "refuted", "z3", dt, model=_model_out(s.model(), meta), meta=_meta_out(meta))
    # second back end
    try:
        smt2 = s.to_smt2()
        r2, out = run_cvc5(smt2, CVC5_TIMEOUT_S)
    except Exception as e:      # cvc5 cannot read some z3 constructs (lambdas): stays unknown
        r2, out = "unknown", f"cvc5 not applicable: {e}"
    dt = time.time() - t0
    if r2 == "unsat":
        return Result(name, "proved", "cvc5", dt, meta=_meta_out(meta))
    if r2 == "sat":
        return Result(name, "refuted", "cvc5", dt, model=None, detail=out[:2000], meta=_meta_out(meta))
    return Result(name, "unknown", "z3+cvc5", dt, detail=f"z3: {s.reason_unknown()}; cvc5: {out[:300]}", meta=_meta_out(meta))


def run_cvc5(smt2, tlimit_s):
    with tempfile.NamedTemporaryFile("w", suffix=".smt2", delete=False) as f:
        f.write("(set-logic ALL)\n" + smt2)
        path = f.name
    try:
        p = subprocess.run(["/usr/bin/cvc5", "--lang=smt2", f"--tlimit={tlimit_s * 1000}", "--strings-exp", path],
                           capture_output=True, text=True, timeout=tlimit_s + 5)
        out = (p.stdout + p.stderr).strip()
        first = out.splitlines()[0] if out else ""
        if first in ("sat", "unsat"):
            return first, out
        return "unknown", out
    except subprocess.TimeoutExpired:
        return "unknown", "timeout"
    finally:
        os.unlink(path)


def _meta_out(meta):
    return {k: v for k, v in meta.items() if k not in ("inputs",) and isinstance(v, (str, int, float, bool, list, dict, type(None)))}


def _model_out(model, meta):
    out = {}
    for k, e in (meta.get("inputs") or {}).items():
        try:
            v = model.eval(e, model_completion=True)
            out[k] = _pyval(v)
        except Exception as ex:     # pragma: no cover
            out[k] = f"<{ex}>"
    return out


def _pyval(v):
    if z3.is_int_value(v):
        return v.as_long()
    if z3.is_rational_value(v):
        return {"num": v.numerator_as_long(), "den": v.denominator_as_long()}
    if z3.is_algebraic_value(v):
        return {"approx": v.approx(12).as_decimal(12)}
    if z3.is_true(v):
        return True
    if z3.is_false(v):
        return False
    if z3.is_string_value(v):
        return v.as_string()
    return str(v)


def is_sat(hyps, timeout_ms=3000, eng=None):
    s = z3.Solver()
    s.set("timeout", timeout_ms)
    s.add(*hyps)
    if eng is not None:
        s.add(*instantiate_axioms(eng, hyps))
    return s.check()
