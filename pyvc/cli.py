import sys
from pyvc.harness import main
if __name__ == "__main__":
    sys.exit(main())
