"""Check driver: runs the proof tasks of one property in a process pool, classifies the results
(proved / known finding / violation / undecided), replays counterexamples natively, writes the
evidence file and sets the exit code (DESIGN.md 2.6, 2.7, 2.9, 2.10)."""
import hashlib
import importlib
import json
import multiprocessing
import os
import re
import sys
import time
import traceback

import z3

from . import REPO, SRC_ROOT, VERIF
from .interp import Engine
from .solver import Result, discharge, is_sat
from .values import Infeasible, PyRaise, Unsupported

EXIT_OK, EXIT_VIOLATION, EXIT_UNDECIDED, EXIT_CRASH = 0, 1, 2, 3

PROPERTY_MODULES = {}       # filled by contracts/__init__.py


class TaskCtx:
    def __init__(self, prop, task, tier, seed):
        self.prop, self.task, self.tier, self.seed = prop, task, tier, seed
        self.results = []
        self.functions = {}
        self.opaque_used = set()
        self.dropped = set()
        self.tensor_ops = set()
        self.bounded = []
        self.crosscheck = 0
        self.notes = []
        self.engines = []

    # ---- engines
    def engine(self, policy=None, **kw):
        e = Engine(policy, **kw)
        self.engines.append(e)
        return e

    def under_contract(self, eng, key):
        """register a function as being under contract in this run (evidence)"""
        f = eng.func(key)
        src = ""
        try:
            import ast as _ast
            src = _ast.get_source_segment(f.module.source, f.node) or ""
        except Exception:
            pass
        self.functions[key] = hashlib.sha256(src.encode()).hexdigest()[:12]
        return f

    def absorb(self, eng, results=None):
        for r in results or []:
            self.opaque_used |= set(map(str, r.path.opaque_used))
            self.dropped |= set(r.path.dropped)
        if eng.tensorlib is not None:
            self.tensor_ops |= eng.tensorlib.used

    # ---- obligations
    def ob(self, eng, name, hyps, goal, kind="value", **meta):
        meta["kind"] = kind
        try:
            r = discharge(eng, name, hyps, goal, meta)
        except z3.Z3Exception as e:
            r = Result(name, "unknown", "z3", 0.0, detail=f"z3 exception: {e}", meta={"kind": kind})
        self.results.append(r.as_dict())
        return r.status == "proved"

    def ob_path(self, eng, name, res, goal, kind="value", **meta):
        """obligation under the hypotheses (facts + path condition) of an explored path"""
        return self.ob(eng, name, res.path.hyps(), goal, kind=kind, **meta)

    def discharge_required(self, eng, res, suffix=""):
        """obligations recorded on the path itself (caller-side requires, loop invariants, asserts)"""
        for name, hyps, goal, meta in res.path.obligations:
            meta = dict(meta)
            kind = meta.pop("kind", "value")
            self.ob(eng, name + suffix, hyps, goal, kind=kind, **meta)

    def fail(self, name, why, kind="value", **meta):
        """an obligation that is refuted without a solver call (e.g. a required raising path is absent)"""
        meta["kind"] = kind
        meta.pop("inputs", None)
        self.results.append(Result(name, "refuted", "structural", 0.0, detail=why, meta=meta).as_dict())

    def ok(self, name, kind="value", backend="structural", **meta):
        meta["kind"] = kind
        meta.pop("inputs", None)
        self.results.append(Result(name, "proved", backend, 0.0, meta=meta).as_dict())

    def undecided(self, name, why, **meta):
        meta.pop("inputs", None)
        self.results.append(Result(name, "unknown", "engine", 0.0, detail=why, meta=meta).as_dict())

    def cover(self, eng, name, hyps):
        """vacuity guard: the hypotheses must be satisfiable"""
        r = is_sat(hyps, eng=eng)
        st = "proved" if r == z3.sat else ("unknown" if r == z3.unknown else "vacuous")
        self.results.append(Result(name, st, "z3-cover", 0.0, meta={"kind": "cover"}).as_dict())
        return st == "proved"

    def canary(self, eng, name, hyps, goal):
        """a deliberately false variant must NOT be provable (guards against contradictory hypotheses)"""
        r = discharge(eng, name, hyps, goal, {"kind": "canary"})
        st = "proved" if r.status != "proved" else "vacuous"
        self.results.append(Result(name, st, "z3-canary", r.seconds, meta={"kind": "canary"}).as_dict())
        return st == "proved"

    def bounded_block(self, name, bound, cases, failures, detail=""):
        self.bounded.append({"name": name, "bound": bound, "cases": cases, "failures": failures, "detail": detail})


def _run_task(args):
    prop, modname, idx, tier, seed = args
    mod = importlib.import_module(modname)
    name, fn = mod.tasks(tier)[idx]
    T = TaskCtx(prop, name, tier, seed)
    t0 = time.time()
    try:
        fn(T)
        status = "ok"
        err = ""
    except Unsupported as e:
        status = "unsupported"
        err = f"UNSUPPORTED {e.what} at {e.where}"
        T.undecided(f"{name}#engine", err)
    except Exception:
        status = "crash"
        err = traceback.format_exc()
    return {"task": name, "status": status, "error": err, "seconds": time.time() - t0, "results": T.results,
            "functions": T.functions, "opaque_used": sorted(T.opaque_used), "dropped": sorted(T.dropped),
            "tensor_ops": sorted(T.tensor_ops), "bounded": T.bounded, "crosscheck": T.crosscheck, "notes": T.notes,
            "sources": {k: v for e in T.engines for k, v in e.sources_used.items()},
            "stats": {k: sum(e.stats[k] for e in T.engines) for k in ("branches", "feasibility_checks", "paths")}}


def clause_of(name):
    return re.split(r"[@|]", name)[0]


def load_known(prop):
    path = os.path.join(VERIF, "KNOWN_FINDINGS.jsonl")
    out = []
    if os.path.exists(path):
        for line in open(path):
            line = line.strip()
            if not line or line.startswith("#"):
                continue
            d = json.loads(line)
            if d.get("property") == prop:
                out.append(d)
    return out


def load_expected(prop, tier="quick"):
    """clauses recorded as producing VCs on the unchanged tree; a tier whose clause set differs from the quick tier's has its own
    record under '<prop>@<tier>' (the thorough tier of C15 adds composed rewrites)"""
    path = os.path.join(VERIF, "contracts", "EXPECTED_OBLIGATIONS.json")
    if os.path.exists(path):
        allexp = json.load(open(path))
        return allexp.get(f"{prop}@{tier}", allexp.get(prop, {}))
    return {}


def sanitize(name):
    return re.sub(r"[^A-Za-z0-9_.#@=-]+", "_", name)[:180]


def _child(conn, a, attempt):
    try:
        if attempt:
            z3.set_param("smt.random_seed", 17 * attempt)       # another search order on the retry
        conn.send(_run_task(a))
    except BaseException:
        conn.send({"task": f"task{a[2]}", "status": "crash", "error": traceback.format_exc(), "seconds": 0.0, "results": [], "functions": {},
                   "opaque_used": [], "dropped": [], "tensor_ops": [], "bounded": [], "crosscheck": 0, "notes": [], "sources": {},
                   "stats": {"branches": 0, "feasibility_checks": 0, "paths": 0}})
    finally:
        conn.close()


def _run_tasks_guarded(args, jobs, tier):
    """every task runs in its own forked process under a hard wall-clock limit: a solver call that ignores its timeout
    (z3's nonlinear bound propagation can) is killed, the task is retried once with another solver seed, and if it hangs
    again its obligations are reported UNDECIDED - never a verdict, never a hung check."""
    hard = float(os.environ.get("PYVC_TASK_HARD_S", "200" if tier == "quick" else "900"))
    ctx = multiprocessing.get_context("fork")
    pending = [(i, a, 0) for i, a in enumerate(args)]
    running = {}
    outs = [None] * len(args)
    while pending or running:
        while pending and len(running) < jobs:
            i, a, attempt = pending.pop(0)
            rc, sc = ctx.Pipe(duplex=False)
            pr = ctx.Process(target=_child, args=(sc, a, attempt))
            pr.start()
            sc.close()
            running[i] = (pr, rc, time.time(), a, attempt)
        for i in list(running):
            pr, rc, t0, a, attempt = running[i]
            if rc.poll(0.05):
                try:
                    outs[i] = rc.recv()
                except EOFError:
                    outs[i] = None
                pr.join(5)
                rc.close()
                del running[i]
                if outs[i] is None:
                    outs[i] = _hung_result(a, "worker died without a result")
            elif not pr.is_alive():
                pr.join(1)
                rc.close()
                del running[i]
                outs[i] = _hung_result(a, f"worker exited with code {pr.exitcode}")
            elif time.time() - t0 > hard:
                pr.kill()
                pr.join(5)
                rc.close()
                del running[i]
                if attempt == 0:
                    pending.append((i, a, 1))
                else:
                    outs[i] = _hung_result(a, f"task exceeded the hard limit of {hard:.0f} s twice (a solver call ignored its timeout)")
    return outs


def _hung_result(a, why):
    prop, modname, idx, tier, seed = a
    try:
        name = importlib.import_module(modname).tasks(tier)[idx][0]
    except Exception:
        name = f"task{idx}"
    return {"task": name, "status": "unsupported", "error": why, "seconds": 0.0,
            "results": [Result(f"{name}#engine", "unknown", "engine", 0.0, detail=why, meta={}).as_dict()], "functions": {}, "opaque_used": [],
            "dropped": [], "tensor_ops": [], "bounded": [], "crosscheck": 0, "notes": [why], "sources": {},
            "stats": {"branches": 0, "feasibility_checks": 0, "paths": 0}}


def run_property(prop, tier="quick", seed=0, record_expected=False, only=None, jobs=None):
    t0 = time.time()
    modname = PROPERTY_MODULES[prop]
    mod = importlib.import_module(modname)
    tasks = mod.tasks(tier)
    idxs = [i for i, (n, _) in enumerate(tasks) if only is None or re.search(only, n)]
    jobs = jobs or int(os.environ.get("PYVC_JOBS", "16"))
    args = [(prop, modname, i, tier, seed) for i in idxs]
    if jobs == 1 and os.environ.get("PYVC_INPROCESS"):
        outs = [_run_task(a) for a in args]
    else:
        outs = _run_tasks_guarded(args, min(jobs, len(args)), tier)
        # a solver timeout is a statement about the machine, not about the code: tasks with timed-out obligations are run again, few at a
        # time and with a larger budget, before anything is reported
        for factor, width in ((4, 4),):
            again = [k for k, o in enumerate(outs) if any(r["status"] == "unknown" and "timeout" in str(r.get("detail", "")).lower() and "hard limit" not in str(r.get("detail", "")) for r in o["results"])]
            if not again or os.environ.get("PYVC_TIMEOUT_FACTOR"):
                break
            if any(r["status"] == "refuted" for o in outs for r in o["results"]):
                break       # something is refuted already: the verdict will not be "held", more solver time cannot change that
            os.environ["PYVC_TIMEOUT_FACTOR"] = str(factor)
            try:
                redo = _run_tasks_guarded([args[k] for k in again], min(width, len(again)), tier)
            finally:
                os.environ.pop("PYVC_TIMEOUT_FACTOR", None)
            for k, o in zip(again, redo):
                o.setdefault("notes", []).append(f"re-run with solver budgets x{factor} after a timeout")
                outs[k] = o

    known = load_known(prop)
    known_open = {k["obligation"]: k for k in known if k.get("status", "finding") == "finding"}
    expected = load_expected(prop, tier)
    all_results = []
    crashes = []
    for o in outs:
        if o["status"] == "crash":
            crashes.append(o)
        all_results.extend(o["results"])

    proved = [r for r in all_results if r["status"] == "proved" and r["meta"].get("kind") not in ("cover", "canary")]
    guards = [r for r in all_results if r["meta"].get("kind") in ("cover", "canary")]
    refuted = [r for r in all_results if r["status"] == "refuted"]
    unknown = [r for r in all_results if r["status"] in ("unknown",)]
    vacuous = [r for r in all_results if r["status"] == "vacuous"]

    lines = []
    violations = []
    known_hits = []
    undecided = list(unknown)
    replay_dir = os.path.join(VERIF, "replays", prop)
    def known_key(name):
        # a finding is identified by "clause@class=<failing-input class>"; the part after '|' names the instance
        base = name.split("|")[0]
        return base if base in known_open else (name if name in known_open else None)
    for r in refuted + unknown:
        kk = known_key(r["name"])
        if kk is not None:
            r["known_key"] = kk
            known_hits.append(r)
            if r in undecided:
                undecided.remove(r)
            continue
        # native replay arbitrates (DESIGN 2.7)
        rep = None
        replay_fn = getattr(mod, "replay", None)
        if replay_fn is not None:
            import signal

            def _alarm(signum, frame):
                raise TimeoutError("native replay exceeded its time budget")
            old = signal.signal(signal.SIGALRM, _alarm)
            signal.alarm(int(os.environ.get("PYVC_REPLAY_TIMEOUT_S", "120")))
            try:
                rep = replay_fn(r)
            except TimeoutError as e:
                rep = {"reproduced": None, "detail": str(e)}
            except Exception:
                rep = {"reproduced": None, "detail": "replay crashed: " + traceback.format_exc()[-1500:]}
            finally:
                signal.alarm(0)
                signal.signal(signal.SIGALRM, old)
        os.makedirs(replay_dir, exist_ok=True)
        rpath = os.path.join(replay_dir, sanitize(r["name"]) + ".json")
        payload = {"property": prop, "obligation": r["name"], "solver": r["backend"], "solver_output": r.get("detail", ""),
                   "model": r.get("model"), "meta": r.get("meta"), "replay": rep}
        with open(rpath, "w") as f:
            json.dump(payload, f, indent=1, default=str)
        exp = expected.get(clause_of(r["name"]))
        if r["status"] == "unknown":
            # the solver did not decide; a natively reproduced disagreement with the oracle is still a real failing input
            if rep is not None and rep.get("reproduced") is True and exp == "proved":
                undecided.remove(r)
                violations.append((r, rpath, ""))
            continue
        if rep is not None and rep.get("reproduced") is True:
            violations.append((r, rpath, ""))
        elif rep is not None and rep.get("reproduced") is False:
            r = dict(r)
            r["detail"] = (r.get("detail") or "") + " | refuted by the solver but the native replay did not reproduce it"
            undecided.append(r)
        elif exp == "proved" or r["backend"] == "structural":
            violations.append((r, rpath, " no-failing-input-found"))
        else:
            undecided.append(r)

    # every expected clause must have produced at least one VC (DESIGN 2.9.1)
    produced = {clause_of(r["name"]) for r in all_results}
    missing = [c for c in expected if c not in produced] if only is None else []
    # a clause that was proved on the recorded tree and has no VC now (the code moved outside the interpreter's subset, a
    # contracted helper disappeared, a task crashed): the native replay arbitrates - a reproduced disagreement with the oracle is a
    # violation with a failing input, otherwise the clause stays UNDECIDED
    replay_fn = getattr(mod, "replay", None)
    if missing and replay_fn is not None:
        import signal
        still = []
        memo = {}
        for c in missing:
            if expected.get(c) != "proved":
                still.append(c)
                continue
            pseudo = {"name": c, "status": "unknown", "backend": "no-vc", "detail": "expected clause produced no VC", "model": None, "meta": {}}

            def _alarm(signum, frame):
                raise TimeoutError("native replay exceeded its time budget")
            old = signal.signal(signal.SIGALRM, _alarm)
            signal.alarm(int(os.environ.get("PYVC_REPLAY_TIMEOUT_S", "120")))
            try:
                rep = replay_fn(pseudo)
            except TimeoutError as e:
                rep = {"reproduced": None, "detail": str(e)}
            except Exception:
                rep = {"reproduced": None, "detail": "replay crashed: " + traceback.format_exc()[-1500:]}
            finally:
                signal.alarm(0)
                signal.signal(signal.SIGALRM, old)
            if rep is not None and rep.get("reproduced") is True:
                os.makedirs(replay_dir, exist_ok=True)
                rpath = os.path.join(replay_dir, sanitize(c) + ".json")
                with open(rpath, "w") as f:
                    json.dump({"property": prop, "obligation": c, "solver": "none (no VC could be generated)", "solver_output": pseudo["detail"],
                               "model": None, "meta": {}, "replay": rep}, f, indent=1, default=str)
                violations.append((pseudo, rpath, ""))
            else:
                still.append(c)
        missing = still

    printed = set()
    for k in known_hits:
        if k["known_key"] in printed:
            continue
        printed.add(k["known_key"])
        kf = known_open[k["known_key"]]
        n_inst = len([x for x in known_hits if x["known_key"] == k["known_key"]])
        lines.append(f"KNOWN-FINDING: property={prop} {k['known_key']} ({n_inst} instance(s) this run) :: {kf.get('what', '')}")
    # a listed finding that no longer fails is simply not printed
    for r, rpath, suffix in violations:
        lines.append(f"VIOLATION property={prop} replay={rpath}{suffix}")
        verb = "refuted by" if r["status"] == "refuted" else "not decided by the solvers, a failing input was found by the native replay; back ends"
        lines.append(f"  obligation {r['name']} {verb} {r['backend']}: {(r.get('detail') or '')[:300]} model={json.dumps(r.get('model'), default=str)[:400]}")
    for r in undecided:
        lines.append(f"UNDECIDED property={prop} obligation={r['name']} ({r['backend']}): {(r.get('detail') or '')[:300]}")
    for c in missing:
        lines.append(f"UNDECIDED property={prop} expected clause produced no VC: {c}")
    for v in vacuous:
        lines.append(f"VACUOUS property={prop} guard={v['name']}")
    for c in crashes:
        lines.append(f"CRASH property={prop} task={c['task']}\n{c['error']}")

    if crashes or vacuous:
        code = EXIT_CRASH
    elif violations:
        code = EXIT_VIOLATION
    elif undecided or missing:
        code = EXIT_UNDECIDED
    else:
        code = EXIT_OK
    if violations:
        code = EXIT_VIOLATION

    n_ob = len(proved) + len(unknown) + len([1 for r, _, _ in violations]) + len([u for u in undecided if u["status"] == "refuted"])
    wall = time.time() - t0
    solver_s = sum(r["seconds"] for r in all_results)
    backends = {}
    for r in proved:
        backends[r["backend"]] = backends.get(r["backend"], 0) + 1
    functions = {}
    sources = {}
    opaque_used, dropped, tensor_ops, bounded, notes = set(), set(), set(), [], []
    crosscheck = 0
    for o in outs:
        functions.update(o["functions"])
        sources.update(o["sources"])
        opaque_used |= set(o["opaque_used"])
        dropped |= set(o["dropped"])
        tensor_ops |= set(o["tensor_ops"])
        bounded += o["bounded"]
        crosscheck += o["crosscheck"]
        notes += o["notes"]
    level = getattr(mod, "LEVEL", "proof")
    samples = [{"obligation": r["name"], "status": r["status"], "backend": r["backend"], "seconds": r["seconds"]}
               for r in (proved[:6] + refuted[:6])]
    evidence = {
        "property_id": prop, "tier": tier, "seed": int(seed), "level": level,
        "coverage": {
            "obligations": n_ob, "discharged": len(proved),
            "checker_cmd": f"./check {prop} --tier {tier}",
            "trusted_base": sorted(set(getattr(mod, "TRUSTED", [])) | {f"tensor op contract: {o}" for o in tensor_ops}
                                   | {f"uninterpreted callee (assumed pure, deterministic): {o}" for o in opaque_used}),
            "samples": samples,
            "explanation": getattr(mod, "EXPLANATION", ""),
            "functions_under_contract": functions,
            "source_files_hashed": sources,
            "discharged_by_backend": backends,
            "solver_seconds": round(solver_s, 3),
            "vacuity_guards": {"total": len(guards), "passed": len([g for g in guards if g["status"] == "proved"])},
            "known_finding_obligations": [k["name"] for k in known_hits],
            "undecided_obligations": [u["name"] for u in undecided] + [f"missing:{c}" for c in missing],
            "bounded_blocks": bounded,
            "encoding_crosscheck_cases": crosscheck,
            "extraction_drops": ["docstrings", "type annotations", "exception message texts", "log.<level>(...) calls"] + sorted(dropped)[:40],
            "engine_stats": {k: sum(o["stats"][k] for o in outs) for k in ("branches", "feasibility_checks", "paths")},
            "tasks": [{"task": o["task"], "status": o["status"], "seconds": round(o["seconds"], 2), "obligations": len(o["results"])} for o in outs],
            "notes": notes,
        },
        "assumptions": list(getattr(mod, "ASSUMPTIONS", [])) + [
            "python float arithmetic treated as real arithmetic; ints mathematical (DESIGN 2.3.1)",
            "python semantics subset of DESIGN.md 2.3 (evaluation order, attribute lookup, fresh identities, eager comprehensions, dict order)",
        ],
        "wall_s": round(wall, 2),
        "violations": len(violations),
    }
    # runs against deliberately modified trees (seed / mutation / refactoring evaluation) write their evidence elsewhere
    evdir = os.environ.get("PYVC_EVIDENCE_DIR") or os.path.join(VERIF, "evidence")
    os.makedirs(evdir, exist_ok=True)
    with open(os.path.join(evdir, f"{prop}.json"), "w") as f:
        json.dump(evidence, f, indent=1, default=str)

    if record_expected:
        path = os.path.join(VERIF, "contracts", "EXPECTED_OBLIGATIONS.json")
        allexp = json.load(open(path)) if os.path.exists(path) else {}
        cur = {}
        for r in all_results:
            if r["meta"].get("kind") in ("cover", "canary"):
                continue
            c = clause_of(r["name"])
            st = r["status"]
            if known_key(r["name"]) is not None:
                st = "known-finding"
            prev = cur.get(c)
            order = {"proved": 0, "known-finding": 1, "unknown": 2, "refuted": 3}
            if prev is None or order.get(st, 3) > order.get(prev, 0):
                cur[c] = st
        if tier == "quick":
            allexp[prop] = dict(sorted(cur.items()))
        elif set(cur) != set(allexp.get(prop, cur)):
            allexp[f"{prop}@{tier}"] = dict(sorted(cur.items()))       # this tier produces other clauses than the quick tier
        else:
            allexp[prop] = dict(sorted(cur.items()))
            allexp.pop(f"{prop}@{tier}", None)
        with open(path, "w") as f:
            json.dump(allexp, f, indent=1, sort_keys=True)

    print(f"[{prop}] tier={tier} tasks={len(outs)} obligations={n_ob} discharged={len(proved)} known-findings={len(known_hits)} "
          f"violations={len(violations)} undecided={len(undecided) + len(missing)} guards={len(guards)} wall={wall:.1f}s solver={solver_s:.1f}s")
    for ln in lines:
        print(ln)
    return code


def main(argv=None):
    import argparse
    ap = argparse.ArgumentParser()
    ap.add_argument("prop")
    ap.add_argument("--tier", default=os.environ.get("VERIF_TIER", "quick"))
    ap.add_argument("--replay")
    ap.add_argument("--record-expected", action="store_true")
    ap.add_argument("--only")
    ap.add_argument("--jobs", type=int)
    a = ap.parse_args(argv)
    sys.path.insert(0, VERIF)
    import contracts  # noqa: F401  (fills PROPERTY_MODULES)
    seed = int(os.environ.get("VERIF_SEED", "0") or 0)
    if a.replay:
        mod = importlib.import_module(PROPERTY_MODULES[a.prop])
        payload = json.load(open(a.replay))
        r = {"name": payload["obligation"], "model": payload.get("model"), "meta": payload.get("meta") or {}}
        rep = mod.replay(r) if hasattr(mod, "replay") else None
        print(json.dumps(rep, indent=1, default=str))
        if rep and rep.get("reproduced"):
            print(f"VIOLATION property={a.prop} replay={a.replay}")
            return EXIT_VIOLATION
        return EXIT_OK
    try:
        return run_property(a.prop, a.tier, seed, a.record_expected, a.only, a.jobs)
    except Exception:
        traceback.print_exc()
        return EXIT_CRASH


if __name__ == "__main__":
    sys.exit(main())
