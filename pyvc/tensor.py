"""Pointwise-tensor semantics and the assumed contracts of the tensor-backend operations
(DESIGN.md 2.5).  A tensor is (shape, fn) with fn: index tuple -> z3 term; scalars of the wiring
layer are plain z3 Real terms.  Reductions over a symbolic extent are RedNode terms handled by the
congruence pass in solver.py."""
import ast
import itertools

import z3

from .values import (B, I, R, NAN, Obj, PyRaise, SeqV, SymList, Unsupported, is_num, is_obj, is_sym, is_z, is_zbool,
                     real_of, ufunc)

Phi = z3.Function("Phi", R, R)          # standard normal cdf (axioms in solver.py)
Sqrt = z3.Function("usqrt", R, R)
Log = z3.Function("ulog", R, R)
Exp = z3.Function("uexp", R, R)
Pow = z3.Function("upow", R, R, R)
Lgamma = z3.Function("lgamma", R, R)
Xlogy = z3.Function("xlogy", R, R, R)
Erfc = z3.Function("erfc", R, R)


def sym_pow(x, y):
    y = z3.simplify(y)
    if z3.is_rational_value(y) and y.denominator_as_long() == 1 and 0 <= y.numerator_as_long() <= 8:
        r = z3.RealVal(1)
        for _ in range(y.numerator_as_long()):
            r = r * x
        return r
    return Pow(x, y)


_CURRENT_ENGINE = [None]


def _dim_eq(a, b):
    """extents equal: syntactically, or provably under the current path condition"""
    if isinstance(a, int) and isinstance(b, int):
        return a == b
    a = z3.simplify(a) if is_z(a) else z3.IntVal(a)
    b = z3.simplify(b) if is_z(b) else z3.IntVal(b)
    if a.eq(b):
        return True
    eng = _CURRENT_ENGINE[0]
    if eng is None or eng.path is None:
        return False
    key = (a.get_id(), b.get_id(), len(eng.path.pc), len(eng.path.facts))
    cache = eng.path.__dict__.setdefault("dim_eq_cache", {})
    if key not in cache:
        s = z3.Solver()
        s.set("timeout", 2000)
        s.add(*eng.path.hyps())
        s.add(a != b)
        cache[key] = s.check() == z3.unsat
    return cache[key]


def _as_dim(d):
    if is_z(d):
        d = z3.simplify(d)
        if z3.is_int_value(d):
            return d.as_long()
    return d


class PT:
    """pointwise tensor"""

    backend = None          # (name, precision) of the tensor library instance that produced it, when known

    def __init__(self, shape, fn, kind="real"):
        self.shape = tuple(_as_dim(d) for d in shape)
        self.fn = fn
        self.kind = kind          # real | bool | int

    @property
    def ndim(self):
        return len(self.shape)

    def at(self, *idx):
        return self.fn(tuple(idx))

    def getattr(self, eng, name):
        from .values import NativeFn
        if name == "shape":
            return self.shape
        if name == "T":
            return transpose(eng, self)
        if name == "tolist":
            return NativeFn("PT.tolist", lambda: tolist(eng, self))
        if name == "ndim":
            return self.ndim
        if name in ("any", "all") and all(isinstance(d, int) for d in self.shape):
            import itertools

            def reduce_truth():
                cells = [self.fn(tuple(z3.IntVal(j) for j in i)) for i in itertools.product(*[range(d) for d in self.shape])]
                truths = [c if self.kind == "bool" else (eng.to_real(c) != 0) for c in cells]
                truths = [z3.BoolVal(t) if isinstance(t, bool) else t for t in truths]
                return z3.simplify((z3.Or if name == "any" else z3.And)(*truths)) if truths else z3.BoolVal(name == "all")
            return NativeFn(f"PT.{name}", reduce_truth)
        raise Unsupported(f"tensor attribute {name}")

    def unary(self, eng, op):
        if isinstance(op, ast.USub):
            return PT(self.shape, lambda i: -self.fn(i), self.kind)
        if isinstance(op, ast.Invert) and self.kind == "bool":
            return PT(self.shape, lambda i: z3.Not(self.fn(i)), "bool")
        raise Unsupported(f"unary {type(op).__name__} on tensor")

    def concrete_shape(self):
        return all(isinstance(d, int) for d in self.shape)

    def iterate(self, eng):
        if not self.shape:
            raise PyRaise(TypeError, ("iteration over 0-d tensor",))
        n = self.shape[0]
        if not isinstance(n, int):
            raise Unsupported("iteration over tensor with symbolic leading extent")
        return [self.getitem(eng, k) for k in range(n)]

    def getitem(self, eng, k):
        import numpy as _np
        if isinstance(k, _np.ndarray) and k.dtype == bool or (isinstance(k, list) and k and all(isinstance(x, (bool, _np.bool_)) for x in k)):
            # boolean mask on the leading axis (concrete mask): the selected positions, in order
            mask = [bool(x) for x in (k.tolist() if isinstance(k, _np.ndarray) else k)]
            if not isinstance(self.shape[0], int) or len(mask) != self.shape[0]:
                raise PyRaise(IndexError, ("boolean index did not match",))
            pos = [i for i, m in enumerate(mask) if m]
            src = self
            return PT((len(pos),) + self.shape[1:], lambda idx: src.fn((_pick(pos, idx[0]),) + tuple(idx[1:])), self.kind)
        if isinstance(k, list) and k and all(isinstance(x, int) and not isinstance(x, bool) for x in k):
            k = _np.asarray(k)
        if isinstance(k, _np.ndarray) and _np.issubdtype(k.dtype, _np.integer) and k.ndim == 1:
            pos = [int(x) for x in k.tolist()]
            src = self
            return PT((len(pos),) + self.shape[1:], lambda idx: src.fn((_pick(pos, idx[0]),) + tuple(idx[1:])), self.kind)
        ks = k if isinstance(k, tuple) else (k,)
        # expand Ellipsis
        if any(x is Ellipsis for x in ks):
            p = [x is Ellipsis for x in ks].index(True)
            fill = self.ndim - (len(ks) - 1)
            ks = ks[:p] + (slice(None),) * fill + ks[p + 1:]
        ks = ks + (slice(None),) * (self.ndim - len(ks))
        if len(ks) > self.ndim:
            raise PyRaise(IndexError, ("too many indices",))
        # boolean-mask / fancy indexing is not in the subset
        plan = []        # per source axis: ('fix', idx) | ('slice', start, step, newlen)
        new_shape = []
        for ax, x in enumerate(ks):
            n = self.shape[ax]
            if isinstance(x, slice):
                if x.start is None and x.stop is None and x.step is None:
                    plan.append(("slice", 0, 1))
                    new_shape.append(n)
                elif x.start is None and x.stop is None and x.step == -1:
                    plan.append(("rev", n))
                    new_shape.append(n)
                elif isinstance(n, int) and all(p is None or isinstance(p, int) for p in (x.start, x.stop, x.step)):
                    r = range(*x.indices(n))
                    plan.append(("slice", r.start, r.step))
                    new_shape.append(len(r))
                else:
                    raise Unsupported("general slice on symbolic extent")
            elif isinstance(x, PT):
                raise Unsupported("fancy indexing of tensors")
            else:
                i = eng.to_index(x)
                i = z3.simplify(i)
                if z3.is_int_value(i) and i.as_long() < 0:
                    i = (n + i.as_long()) if isinstance(n, int) else n + i
                    i = z3.IntVal(i) if isinstance(i, int) else i
                plan.append(("fix", i))
        src = self

        def fn(idx):
            out = []
            it = iter(idx)
            for p in plan:
                if p[0] == "fix":
                    out.append(p[1])
                elif p[0] == "rev":
                    out.append(p[1] - 1 - next(it))
                else:
                    j = next(it)
                    out.append(j if (p[1] == 0 and p[2] == 1) else p[1] + p[2] * j)
            return src.fn(tuple(out))
        if not new_shape:
            return fn(())
        return PT(new_shape, fn, self.kind)

    def setitem(self, eng, k, v):
        """in-place update a[mask] = value with a (possibly symbolic) boolean mask over the leading axis"""
        import numpy as _np
        if isinstance(k, _np.ndarray):
            k = k.tolist()
        if isinstance(k, list) and isinstance(self.shape[0], int) and len(k) == self.shape[0] and self.ndim == 1:
            conds = [eng.to_bool(x) for x in k]
            old = self.fn
            val = eng.to_real(v) if not isinstance(v, PT) else None
            if val is None:
                raise Unsupported("masked assignment of a tensor value")

            def fn(idx, old=old):
                j = idx[0]
                jc = j if isinstance(j, int) else (z3.simplify(j).as_long() if z3.is_int_value(z3.simplify(j)) else None)
                if jc is not None:
                    c = conds[jc]
                    return val if c is True else (old(idx) if c is False else z3.If(c, val, old(idx)))
                r = old(idx)
                for jj, c in enumerate(conds):
                    cc = z3.BoolVal(c) if isinstance(c, bool) else c
                    r = z3.If(z3.And(j == jj, cc), val, r)
                return r
            self.fn = fn
            return
        raise Unsupported(f"item assignment on tensor with key {type(k).__name__}")

    def boxed(self, eng):
        """Obj view of a tensor: a term determined by shape and the generic element"""
        idx = [z3.Int(f"bx!{k}") for k in range(self.ndim)]
        body = self.fn(tuple(idx))
        if self.kind == "bool":
            body = z3.If(body, z3.RealVal(1), z3.RealVal(0))
        body = eng.to_real(body)
        if not idx:
            return eng.box(body)
        arr = z3.Lambda(idx, body)
        f = ufunc(f"tensor{self.ndim}", arr.sort(), *([I] * self.ndim), Obj)
        return f(arr, *[d if is_z(d) else z3.IntVal(d) for d in self.shape])


def _symbolic(x, depth=0):
    from .values import Rec, FuncV, Bound
    if is_z(x) or isinstance(x, (PT, SeqV, SymList)):
        return True
    if isinstance(x, (FuncV, Bound, Rec)):
        return True          # interpreted callables / objects cannot be handed to native code
    if depth < 6 and isinstance(x, (list, tuple)):
        return any(_symbolic(e, depth + 1) for e in x)
    if depth < 6 and isinstance(x, dict):
        return any(_symbolic(e, depth + 1) for e in x.values())
    return False


def _pick(pos, j):
    """pos[j] for a concrete table pos and a concrete or symbolic index j"""
    jc = j if isinstance(j, int) else (z3.simplify(j).as_long() if z3.is_int_value(z3.simplify(j)) else None)
    if jc is not None:
        return z3.IntVal(pos[jc])
    r = z3.IntVal(pos[-1]) if pos else z3.IntVal(0)
    for t in range(len(pos) - 2, -1, -1):
        r = z3.If(j == t, z3.IntVal(pos[t]), r)
    return r


def scalar_of(eng, x):
    """z3 term for a scalar-like value (python number, z3, opaque, 0-d PT)"""
    if isinstance(x, PT):
        if x.shape != ():
            raise Unsupported("expected a scalar")
        return x.fn(())
    return x


def lift(eng, x, kind=None):
    """view a value as a PT (scalars become 0-d)"""
    if isinstance(x, PT):
        return x
    import numpy as _np
    if isinstance(x, _np.ndarray):
        kind = "bool" if x.dtype == bool else ("int" if _np.issubdtype(x.dtype, _np.integer) else "real")
        t = from_nested(eng, x.tolist()) if x.ndim else lift(eng, x.item())
        return t if (not isinstance(t, PT) or t.kind == kind or x.size == 0) else t
    if isinstance(x, _np.generic):
        x = x.item()
    if isinstance(x, (list, tuple)):
        return from_nested(eng, x)
    if isinstance(x, bool) or is_zbool(x):
        v = z3.BoolVal(x) if isinstance(x, bool) else x
        return PT((), lambda i: v, "bool")
    if isinstance(x, SeqV):
        return PT((x.n,), lambda i: real_of(x.elem(i[0])), "real")
    if isinstance(x, SymList):
        return from_symlist(eng, x)
    v = eng.to_arith(x)
    return PT((), lambda i: v, "int" if v.is_int() else "real")


def from_nested(eng, x):
    """tensor from nested python lists of scalars / tensors"""
    import numpy as _np
    if isinstance(x, _np.ndarray):
        return lift(eng, x)
    if not isinstance(x, (list, tuple)):
        return lift(eng, x)
    if len(x) == 0:
        return PT((0,), lambda i: z3.RealVal(0))
    subs = [from_nested(eng, e) for e in x]
    sh = subs[0].shape
    for s in subs[1:]:
        if len(s.shape) != len(sh) or not all(_dim_eq(a, b) for a, b in zip(s.shape, sh)):
            raise PyRaise(ValueError, ("ragged nested sequence",))
    kinds = {s.kind for s in subs}
    kind = "bool" if kinds == {"bool"} else ("int" if kinds <= {"int", "bool"} else "real")

    def fn(idx):
        j = idx[0]
        rest = idx[1:]
        if isinstance(j, int) or z3.is_int_value(z3.simplify(j) if is_z(j) else z3.IntVal(j)):
            jj = j if isinstance(j, int) else z3.simplify(j).as_long()
            return _cast(subs[jj].fn(rest), subs[jj].kind, kind)
        r = _cast(subs[-1].fn(rest), subs[-1].kind, kind)
        for k in range(len(subs) - 2, -1, -1):
            r = z3.If(j == k, _cast(subs[k].fn(rest), subs[k].kind, kind), r)
        return r
    return PT((len(subs),) + sh, fn, kind)


def from_symlist(eng, x):
    """tensor from a list of symbolic length whose generic element is a scalar or a nested list"""
    probe = x.at(eng, z3.Int("i!probe"))
    if isinstance(probe, (list, tuple)):
        inner = from_nested(eng, probe)
        sh = inner.shape

        def fn(idx):
            return from_nested(eng, x.at(eng, idx[0])).fn(idx[1:])
        return PT((x.n,) + sh, fn, inner.kind)
    if isinstance(probe, PT):
        return PT((x.n,) + probe.shape, lambda idx: x.at(eng, idx[0]).fn(idx[1:]), probe.kind)
    return PT((x.n,), lambda idx: eng.to_real(x.at(eng, idx[0])), "real")


def _cast(v, frm, to):
    if frm == to:
        return v
    if to == "real":
        if frm == "bool":
            return z3.If(v, z3.RealVal(1), z3.RealVal(0))
        return z3.ToReal(v) if v.is_int() else v
    if to == "int":
        if frm == "bool":
            return z3.If(v, z3.IntVal(1), z3.IntVal(0))
        return v if v.is_int() else z3.ToInt(v)
    if to == "bool":
        return v != 0
    return v


def broadcast_shapes(*shapes):
    nd = max(len(s) for s in shapes)
    out = []
    for ax in range(nd):
        dims = []
        for s in shapes:
            k = ax - (nd - len(s))
            dims.append(1 if k < 0 else s[k])
        d = 1
        for x in dims:
            if isinstance(x, int) and x == 1:
                continue
            if isinstance(d, int) and d == 1:
                d = x
            elif not _dim_eq(d, x):
                raise PyRaise(ValueError, (f"shapes not broadcastable {shapes}",))
        out.append(d)
    return tuple(out)


def _bidx(shape, out_nd, idx):
    """index into an operand of given shape from an index of the broadcast result"""
    off = out_nd - len(shape)
    return tuple(0 if (isinstance(d, int) and d == 1) else idx[off + k] for k, d in enumerate(shape))


def pointwise(eng, f, kind, *xs):
    ts = [lift(eng, x) for x in xs]
    if all(t.shape == () for t in ts):
        return f(*[t.fn(()) for t in ts])
    sh = broadcast_shapes(*[t.shape for t in ts])
    nd = len(sh)
    out = PT(sh, lambda idx: f(*[t.fn(_bidx(t.shape, nd, idx)) for t in ts]), kind)
    tags = {t.backend for t in ts if getattr(t, "backend", None) is not None}
    if tags:
        out.backend = tags.pop() if len(tags) == 1 else ("mixed",) + tuple(sorted(map(str, tags)))
    return out


def _num(v, kind):
    return _cast(v, kind, "real") if kind == "bool" else v


def pt_binop(eng, op, a, b):
    ta, tb = lift(eng, a), lift(eng, b)

    def f(x, y):
        x, y = _num(x, ta.kind), _num(y, tb.kind)
        if isinstance(op, ast.Add):
            return x + y
        if isinstance(op, ast.Sub):
            return x - y
        if isinstance(op, ast.Mult):
            return x * y
        if isinstance(op, ast.Div):
            return eng.to_real(x) / eng.to_real(y)
        if isinstance(op, ast.Pow):
            return sym_pow(eng.to_real(x), eng.to_real(y))
        if isinstance(op, (ast.BitAnd, ast.BitOr)) and ta.kind == "bool" and tb.kind == "bool":
            return z3.And(x, y) if isinstance(op, ast.BitAnd) else z3.Or(x, y)
        raise Unsupported(f"tensor operator {type(op).__name__}")
    kind = "int" if (ta.kind == "int" and tb.kind == "int" and not isinstance(op, ast.Div)) else "real"
    if isinstance(op, (ast.BitAnd, ast.BitOr)):
        kind = "bool"
    return pointwise(eng, f, kind, ta, tb)


def pt_compare(eng, op, a, b):
    ta, tb = lift(eng, a), lift(eng, b)

    def f(x, y):
        x, y = _num(x, ta.kind), _num(y, tb.kind)
        t = type(op)
        if t is ast.Lt:
            return x < y
        if t is ast.LtE:
            return x <= y
        if t is ast.Gt:
            return x > y
        if t is ast.GtE:
            return x >= y
        if t is ast.Eq:
            return x == y
        if t is ast.NotEq:
            return x != y
        raise Unsupported(f"tensor comparison {t.__name__}")
    return pointwise(eng, f, "bool", ta, tb)


def pt_where(eng, c, a, b):
    tc, ta, tb = lift(eng, c), lift(eng, a), lift(eng, b)
    kind = "bool" if (ta.kind == "bool" and tb.kind == "bool") else ("int" if ta.kind == tb.kind == "int" else "real")

    def f(m, x, y):
        m = m if tc.kind == "bool" else (m != 0)
        return z3.If(m, _cast(x, ta.kind, kind), _cast(y, tb.kind, kind))
    return pointwise(eng, f, kind, tc, ta, tb)


def transpose(eng, t):
    if t.ndim < 2:
        return t
    sh = tuple(reversed(t.shape))
    return PT(sh, lambda idx: t.fn(tuple(reversed(idx))), t.kind)


def tolist(eng, t):
    if isinstance(t, (list, tuple)):
        return list(t)
    if not isinstance(t, PT):
        return t
    if t.shape == ():
        return t.fn(())
    n = t.shape[0]
    if not isinstance(n, int):
        if t.ndim == 1:
            return SymList(n, lambda e, i: t.fn((i,)))
        raise Unsupported("tolist on symbolic leading extent")
    return [tolist(eng, t.getitem(eng, k)) for k in range(n)]


class RedNode:
    """marker stored in engine.reductions: an uninterpreted application standing for a
    reduction (sum/product) of body(i) over 0 <= i < n"""

    def __init__(self, kind, n, var, body, term):
        self.kind, self.n, self.var, self.body, self.term = kind, n, var, body, term


def reduce_axis(eng, t, axis, kind):
    """sum / product of a tensor along one axis"""
    nd = t.ndim
    if axis < 0:
        axis += nd
    n = t.shape[axis]
    new_shape = t.shape[:axis] + t.shape[axis + 1:]
    unit = z3.RealVal(0) if kind == "sum" else z3.RealVal(1)

    def fn(idx):
        def body(j):
            return eng.to_real(_num(t.fn(idx[:axis] + (j,) + idx[axis:]), t.kind))
        if isinstance(n, int):
            r = None
            for j in range(n):
                x = body(z3.IntVal(j))
                r = x if r is None else (r + x if kind == "sum" else r * x)
            return unit if r is None else r
        return eng.reduction(kind, n, body)
    if not new_shape:
        return fn(())
    return PT(new_shape, fn, "real")


# --------------------------------------------------------------------------------------
# the tensorlib model (names of pyhf.tensor.*_backend methods)
# --------------------------------------------------------------------------------------
# operations that, on fully concrete operands (index arrays, masks, shapes), are executed by CPython with the real numpy
# backend; special functions always stay symbolic so that their values are the specification symbols (Phi, sqrt, log, ...)
NATIVE_STRUCTURAL = {"astensor", "tolist", "shape", "ones", "zeros", "reshape", "ravel", "transpose", "tile", "stack", "concatenate",
                     "gather", "einsum", "sum", "product", "where", "clip", "abs", "isfinite", "boolean_mask", "outer", "erf", "erfinv"} - {"erf", "erfinv"}


def _tag(res, backend):
    """remember which backend instance produced a tensor (C11: stale tensors are recognisable)"""
    if isinstance(res, PT):
        res.backend = backend
    elif isinstance(res, (list, tuple)):
        for x in res:
            _tag(x, backend)
    return res


class BackendArray(__import__("numpy").ndarray):
    """a concrete array that remembers which backend instance produced it (history checks only)"""
    pyvc_backend = None

    def __array_finalize__(self, obj):
        self.pyvc_backend = getattr(obj, "pyvc_backend", None)


def _tag_concrete(res, backend):
    import numpy as _np
    if isinstance(res, _np.ndarray) and res.ndim > 0:
        out = res.view(BackendArray)
        out.pyvc_backend = backend
        return out
    return res


def _foreign_inputs(args, mine, opname, depth=0):
    """inputs of a tensor operation that were produced by ANOTHER backend instance (stale tensors): symbolic tensors by their
    tag, concrete float arrays by a precision that is not the current one (conversions through astensor are exempt)"""
    import numpy as _np
    out = set()
    for x in args:
        if isinstance(x, PT):
            if x.backend is not None and x.backend != mine and opname != "astensor":
                out.add(str(x.backend))
        elif isinstance(x, _np.ndarray) and opname != "astensor":
            want = "float64" if mine[1] == "64b" else "float32"
            if x.dtype.kind == "f" and str(x.dtype) != want:
                out.add(f"array:{x.dtype}")
        elif isinstance(x, (list, tuple)) and depth < 3:
            out |= _foreign_inputs(x, mine, opname, depth + 1)
    return out


class TensorLib:
    def __init__(self, eng, name="numpy", precision="64b"):
        self.eng = eng
        _CURRENT_ENGINE[0] = eng
        self.name = name
        self.precision = precision
        self.default_do_grad = False
        self.dtypemap = {"float": "float", "int": "int", "bool": "bool"}
        self.used = set()

    def getattr(self, eng, name):
        from .values import NativeFn
        if name in ("name", "precision", "default_do_grad", "dtypemap"):
            return getattr(self, name)
        if name == "_setup":
            return NativeFn("tensorlib._setup", lambda: None)
        m = getattr(self, "op_" + name, None)
        native = getattr(self.native_backend(), name, None)
        if m is None and native is None:
            raise Unsupported(f"tensorlib.{name} has no op contract")

        def dispatch(*a, **k):
            # fully concrete arguments: the real numpy backend of the tree under test is executed by CPython
            if native is not None and name in NATIVE_STRUCTURAL and not any(_symbolic(x) for x in a) \
                    and not any(_symbolic(x) for x in k.values()):
                try:
                    res = native(*a, **k)
                except (ValueError, TypeError, IndexError, KeyError) as e:
                    raise PyRaise(type(e), e.args)
                if self.eng.policy.get("track_backend_mixing"):
                    res = _tag_concrete(res, (self.name, self.precision))
                return res
            if m is None:
                raise Unsupported(f"tensorlib.{name} has no op contract")
            self.used.add(name)
            import numpy as _np
            a = tuple(x.item() if isinstance(x, (_np.ndarray, _np.generic)) and getattr(x, "ndim", 0) == 0 else x for x in a)
            mine = (self.name, self.precision)
            foreign = _foreign_inputs(list(a) + list(k.values()), mine, name) if self.eng.policy.get("track_backend_mixing") else None
            return _tag(m(*a, **k), mine if not foreign else ("mixed", name) + tuple(sorted(foreign)))
        return NativeFn("tensorlib." + name, dispatch)

    def native_backend(self):
        if getattr(self, "_native", None) is None:
            from pyhf.tensor.numpy_backend import numpy_backend
            self._native = numpy_backend(precision=self.precision)
        return self._native

    # -- construction / conversion
    def op_astensor(self, x, dtype="float"):
        eng = self.eng
        if isinstance(x, float) and x in (float("inf"), float("-inf")):
            return x                # stays the concrete IEEE infinity; only comparisons are modelled for it
        if isinstance(x, PT):
            t = x
        elif isinstance(x, (list, tuple)):
            t = from_nested(eng, x)
        elif isinstance(x, (SeqV, SymList)):
            t = lift(eng, x)
        elif is_obj(x):
            if dtype == "bool":
                from .values import truthy_of
                return truthy_of(x)
            return x            # opaque tensors stay opaque; arithmetic views them through real_of
        else:
            t = lift(eng, x)
        if dtype not in ("float", "int", "bool"):
            raise PyRaise(KeyError, (dtype,))
        kind = {"float": "real", "int": "int", "bool": "bool"}[dtype]
        if t.kind != kind:
            src = t
            t = PT(src.shape, lambda i: _cast(src.fn(i), src.kind, kind), kind)
        if t.shape == ():
            return t.fn(())
        return t

    def op_tolist(self, t):
        return tolist(self.eng, t)

    def op_shape(self, t):
        if isinstance(t, PT):
            return t.shape
        if isinstance(t, (list, tuple)):
            return from_nested(self.eng, t).shape
        if is_obj(t):
            f = ufunc("shape_of", Obj, Obj)
            return f(t)
        return ()

    def op_ones(self, shape, dtype="float"):
        return self._const(shape, 1, dtype)

    def op_zeros(self, shape, dtype="float"):
        return self._const(shape, 0, dtype)

    def _const(self, shape, c, dtype):
        if is_obj(shape):
            f = ufunc("const_tensor", Obj, R, Obj)
            return f(shape, z3.RealVal(c))
        if isinstance(shape, (int,)) or is_num(shape):
            shape = (shape,)
        shape = tuple(shape)
        kind = {"float": "real", "int": "int", "bool": "bool"}[dtype]
        v = z3.RealVal(c) if kind == "real" else (z3.IntVal(c) if kind == "int" else z3.BoolVal(bool(c)))
        if shape == ():
            return v
        return PT(shape, lambda i: v, kind)

    # -- pointwise
    def op_where(self, mask, a, b):
        eng = self.eng
        if not any(isinstance(x, PT) for x in (mask, a, b)):
            c = eng.to_bool(mask)
            if isinstance(c, bool):
                return a if c else b
            return eng.ite(c, a, b)
        return pt_where(eng, mask, a, b)

    def op_clip(self, x, min_value, max_value):
        eng = self.eng

        def f(v):
            v = eng.to_real(v)
            if min_value is not None:
                lo = eng.to_real(min_value)
                v = z3.If(v < lo, lo, v)
            if max_value is not None:
                hi = eng.to_real(max_value)
                v = z3.If(v > hi, hi, v)
            return v
        return pointwise(eng, f, "real", x)

    def _unary(self, x, fn):
        eng = self.eng
        return pointwise(eng, lambda v: fn(eng.to_real(v)), "real", x)

    def op_sqrt(self, x):
        return self._unary(x, Sqrt)

    def op_log(self, x):
        return self._unary(x, Log)

    def op_exp(self, x):
        return self._unary(x, Exp)

    def op_abs(self, x):
        return self._unary(x, lambda v: z3.If(v < 0, -v, v))

    def op_normal_cdf(self, x, mu=0.0, sigma=1.0):
        eng = self.eng
        if isinstance(mu, (int, float)) and mu == 0 and isinstance(sigma, (int, float)) and sigma == 1:
            return self._unary(x, Phi)
        return pointwise(eng, lambda v, m, s: Phi((eng.to_real(v) - eng.to_real(m)) / eng.to_real(s)), "real", x, mu, sigma)

    def op_power(self, x, y):
        eng = self.eng
        return pointwise(eng, lambda a, b: sym_pow(eng.to_real(a), eng.to_real(b)), "real", x, y)

    def op_divide(self, x, y):
        eng = self.eng
        return pointwise(eng, lambda a, b: eng.to_real(a) / eng.to_real(b), "real", x, y)

    def op_isfinite(self, x):
        return pointwise(self.eng, lambda a: z3.BoolVal(True), "bool", x)

    def op_conditional(self, predicate, true_callable, false_callable):
        eng = self.eng
        if eng.truth(scalar_of(eng, predicate)):
            return eng.call(true_callable, [], {})
        return eng.call(false_callable, [], {})

    # -- structure
    def op_reshape(self, t, newshape):
        return reshape(self.eng, lift(self.eng, t), newshape)

    def op_ravel(self, t):
        t = lift(self.eng, t) if not is_obj(t) else t
        if is_obj(t):
            f = ufunc("ravel", Obj, Obj)
            return f(t)
        return reshape(self.eng, t, (-1,))

    def op_transpose(self, t):
        return transpose(self.eng, lift(self.eng, t))

    def op_sum(self, t, axis=None):
        eng = self.eng
        t = lift(eng, t)
        if axis is None:
            r = t
            while isinstance(r, PT):
                r = reduce_axis(eng, r, 0, "sum")
            return eng.to_real(_num(r, t.kind)) if not isinstance(r, PT) else r
        return reduce_axis(eng, t, axis, "sum")

    def op_product(self, t, axis=None):
        eng = self.eng
        t = lift(eng, t)
        if axis is None:
            r = t
            while isinstance(r, PT):
                r = reduce_axis(eng, r, 0, "prod")
            return r
        return reduce_axis(eng, t, axis, "prod")

    def op_stack(self, seq, axis=0):
        eng = self.eng
        ts = [lift(eng, x) for x in seq]
        sh = ts[0].shape
        nd = len(sh)
        if axis < 0:
            axis += nd + 1
        new_shape = sh[:axis] + (len(ts),) + sh[axis:]
        kind = ts[0].kind

        def fn(idx):
            j = idx[axis]
            rest = idx[:axis] + idx[axis + 1:]
            j = z3.simplify(j) if is_z(j) else j
            if isinstance(j, int) or z3.is_int_value(j):
                jj = j if isinstance(j, int) else j.as_long()
                return ts[jj].fn(rest)
            r = ts[-1].fn(rest)
            for k in range(len(ts) - 2, -1, -1):
                r = z3.If(j == k, ts[k].fn(rest), r)
            return r
        return PT(new_shape, fn, kind)

    def op_concatenate(self, seq, axis=0):
        eng = self.eng
        ts = [lift(eng, x) for x in seq]
        nd = ts[0].ndim
        if axis < 0:
            axis += nd
        offs = [0]
        for t in ts:
            offs.append(offs[-1] + t.shape[axis])
        sh = list(ts[0].shape)
        sh[axis] = _as_dim(offs[-1])
        if z3.is_expr(sh[axis]) and len(ts) > 1:
            # remember the order of the parts of this extent (z3 normalises sums): the split rule R4 follows the block boundaries
            eng.__dict__.setdefault("extent_parts", {})[sh[axis].get_id()] = [t.shape[axis] if z3.is_expr(t.shape[axis]) else z3.IntVal(t.shape[axis]) for t in ts]
        kinds = {t.kind for t in ts}
        kind = ts[0].kind if len(kinds) == 1 else "real"

        def fn(idx):
            j = idx[axis]
            jc = j if isinstance(j, int) else (z3.simplify(j).as_long() if z3.is_int_value(z3.simplify(j)) else None)
            if jc is not None and all(isinstance(o, int) for o in offs):
                for k in range(len(ts)):
                    if offs[k] <= jc < offs[k + 1]:
                        loc = idx[:axis] + (z3.IntVal(jc - offs[k]),) + idx[axis + 1:]
                        return _cast(ts[k].fn(loc), ts[k].kind, kind)
                raise PyRaise(IndexError, ("concatenate index",))
            r = None
            for k in range(len(ts) - 1, -1, -1):
                loc = idx[:axis] + (j - offs[k],) + idx[axis + 1:]
                v = _cast(ts[k].fn(loc), ts[k].kind, kind)
                r = v if r is None else z3.If(j < offs[k + 1], v, r)
            return r
        return PT(sh, fn, kind)

    def op_tile(self, t, repeats):
        eng = self.eng
        t = lift(eng, t)
        reps = tuple(repeats)
        nd = max(t.ndim, len(reps))
        sh = (1,) * (nd - t.ndim) + t.shape
        reps = (1,) * (nd - len(reps)) + reps
        new_shape = tuple(_mul_dim(d, r) for d, r in zip(sh, reps))
        off = nd - t.ndim

        def fn(idx):
            src = []
            for k in range(nd):
                d, r, j = sh[k], reps[k], idx[k]
                if isinstance(r, int) and r == 1:
                    src.append(j)
                elif isinstance(d, int) and d == 1:
                    src.append(0)
                else:
                    src.append(j % d)
            return t.fn(tuple(src[off:]))
        return PT(new_shape, fn, t.kind)

    def op_gather(self, t, indices):
        eng = self.eng
        t = lift(eng, t)
        ind = lift(eng, indices)
        if t.ndim > 1:
            # numpy semantics tensor[indices]: indexing along the leading axis
            k = len(ind.shape)
            return PT(ind.shape + t.shape[1:], lambda idx: t.fn((_cast(ind.fn(idx[:k]), ind.kind, "int"),) + tuple(idx[k:])), t.kind)
        if ind.shape == ():
            return t.fn((_cast(ind.fn(()), ind.kind, "int"),))
        return PT(ind.shape, lambda idx: t.fn((_cast(ind.fn(idx), ind.kind, "int"),)), t.kind)

    def op_einsum(self, subscripts, *operands):
        return einsum(self.eng, subscripts, [lift(self.eng, o) for o in operands])

    def op_percentile(self, t, q, axis=None, interpolation="linear"):
        eng = self.eng
        f = ufunc("percentile{" + str(interpolation) + "}", Obj, Obj, Obj, Obj)
        return f(eng.box(t), eng.box(q), eng.box(axis))

    # -- probability (C04 contracts are stated on the real backends; here the spec functions)
    def op_poisson_logpdf(self, n, lam):
        eng = self.eng
        return pointwise(eng, lambda a, b: Xlogy(eng.to_real(a), eng.to_real(b)) - eng.to_real(b) - Lgamma(eng.to_real(a) + 1), "real", n, lam)

    def op_normal_logpdf(self, x, mu, sigma):
        eng = self.eng
        LOG_SQRT_2PI = z3.Real("LOG_SQRT_2PI")
        return pointwise(eng, lambda a, m, s: -Log(eng.to_real(s)) - LOG_SQRT_2PI - ((eng.to_real(a) - eng.to_real(m)) * (eng.to_real(a) - eng.to_real(m))) / (2 * eng.to_real(s) * eng.to_real(s)), "real", x, mu, sigma)

    def op_poisson_dist(self, rate):
        from .values import Rec
        return _Dist("poisson", (rate,), self)

    def op_normal_dist(self, mu, sigma):
        return _Dist("normal", (mu, sigma), self)


class _Dist:
    """backend distribution object (numpy_backend._BasicPoisson/_BasicNormal as proved in C04):
    log_prob forwards to poisson_logpdf / normal_logpdf, sample to an uninterpreted sampler"""

    def __init__(self, family, params, lib=None):
        self.family, self.params, self.lib = family, params, lib

    def getattr(self, eng, name):
        from .values import NativeFn
        if name == "log_prob":
            if self.family == "poisson":
                return NativeFn("dist.log_prob", lambda value: self.lib.op_poisson_logpdf(value, self.params[0]))
            return NativeFn("dist.log_prob", lambda value: self.lib.op_normal_logpdf(value, self.params[0], self.params[1]))
        if name == "sample":
            def sample(sample_shape=()):
                f = ufunc("sample:" + self.family, Obj, Obj, Obj)
                return f(eng.box(list(self.params)), eng.box(sample_shape))
            return NativeFn("dist.sample", sample)
        if name in ("rate", "loc") and self.params:
            return self.params[0]
        if name == "scale" and len(self.params) > 1:
            return self.params[1]
        raise Unsupported(f"distribution attribute {name}")


def _mul_dim(d, r):
    if isinstance(d, int) and isinstance(r, int):
        return d * r
    if isinstance(r, int) and r == 1:
        return d
    if isinstance(d, int) and d == 1:
        return r
    return _as_dim((d if is_z(d) else z3.IntVal(d)) * (r if is_z(r) else z3.IntVal(r)))


def reshape(eng, t, newshape):
    if isinstance(newshape, int):
        newshape = (newshape,)
    newshape = tuple(_as_dim(d) for d in newshape)
    old = t.shape
    # drop/insert unit axes, or full flatten / unflatten of concrete shapes
    if all(isinstance(d, int) for d in old) and all(isinstance(d, int) for d in newshape):
        total = 1
        for d in old:
            total *= d
        ns = list(newshape)
        if -1 in ns:
            k = ns.index(-1)
            rest = 1
            for j, d in enumerate(ns):
                if j != k:
                    rest *= d
            ns[k] = total // rest if rest else 0
        prod = 1
        for d in ns:
            prod *= d
        if prod != total:
            raise PyRaise(ValueError, ("cannot reshape",))
        ns = tuple(ns)

        def fn(idx):
            # flat index then unflatten (concrete strides, symbolic indices allowed)
            flat = 0
            for d, j in zip(ns, idx):
                flat = flat * d + j
            src = []
            rem = flat
            strides = []
            s = 1
            for d in reversed(old):
                strides.append(s)
                s *= d
            strides = list(reversed(strides))
            if isinstance(rem, int):
                for d, st in zip(old, strides):
                    src.append((rem // st) % d if d else 0)
            else:
                rem = z3.simplify(rem)
                if z3.is_int_value(rem):
                    r = rem.as_long()
                    for d, st in zip(old, strides):
                        src.append((r // st) % d if d else 0)
                else:
                    for d, st in zip(old, strides):
                        src.append((rem / st) % d)
            return t.fn(tuple(src))
        if ns == ():
            return fn(())
        return PT(ns, fn, t.kind)
    # symbolic shapes: only structure-preserving reshapes (unit axes added / removed, -1 flatten of rank 1)
    core_old = [d for d in old if not (isinstance(d, int) and d == 1)]
    ns = list(newshape)
    if ns.count(-1) == 1:
        others = [d for d in ns if not (isinstance(d, int) and d in (1, -1))]
        if not others and len(core_old) <= 1:
            k = ns.index(-1)
            ns[k] = core_old[0] if core_old else 1
        elif len(ns) == 1 and len(core_old) >= 2:
            # flatten of a rank>=2 symbolic tensor: flat index a*NP + k kept symbolic (rule R4)
            return FlatPT(t)
        else:
            raise Unsupported(f"reshape {old} -> {newshape} with symbolic extents")
    core_new = [d for d in ns if not (isinstance(d, int) and d == 1)]
    if len(core_old) != len(core_new) or not all(_dim_eq(a, b) for a, b in zip(core_old, core_new)):
        raise Unsupported(f"reshape {old} -> {newshape} with symbolic extents")
    old_pos = [k for k, d in enumerate(old) if not (isinstance(d, int) and d == 1)]
    new_pos = [k for k, d in enumerate(ns) if not (isinstance(d, int) and d == 1)]

    def fn2(idx):
        src = [0] * len(old)
        for po, pn in zip(old_pos, new_pos):
            src[po] = idx[pn]
        return t.fn(tuple(src))
    if not ns:
        return fn2(())
    return PT(tuple(ns), fn2, t.kind)


class FlatPT(PT):
    """reshape(T, (-1,)) of a rank-2 tensor with symbolic extents: indexable only by indices of
    the form a*NP + k given structurally as FlatIndex (trusted rule R4, DESIGN 2.5)"""

    def __init__(self, src):
        if src.ndim != 2:
            raise Unsupported("flatten of symbolic tensor of rank > 2")
        self.src = src
        n = _mul_dim(src.shape[0], src.shape[1])
        super().__init__((n,), self._fn, src.kind)

    def _fn(self, idx):
        j = idx[0]
        if isinstance(j, FlatIndex):
            return self.src.fn((j.row, j.col))
        dec = decode_flat(j, self.src.shape[1])
        if dec is not None:
            return self.src.fn(dec)
        raise Unsupported("flat index not of the form a*NP + k")


class FlatIndex:
    def __init__(self, row, col):
        self.row, self.col = row, col


_flat_registry = {}


def flat_index(row, ncols, col):
    """the Int term row*ncols + col, remembered so that FlatPT can decode it"""
    t = row * ncols + col
    _flat_registry[t.get_id()] = (row, col, ncols)
    return t


def decode_flat(j, ncols):
    if not is_z(j):
        return None
    hit = _flat_registry.get(j.get_id())
    if hit is not None and (_dim_eq(hit[2], ncols)):
        return (hit[0], hit[1])
    return None


def einsum(eng, subscripts, ts):
    subscripts = subscripts.replace(" ", "")
    lhs, rhs = subscripts.split("->")
    ins = lhs.split(",")
    if len(ins) != len(ts):
        raise PyRaise(ValueError, ("einsum operand count",))
    if "..." in subscripts:
        # ellipsis: the remaining (broadcast) axes get fresh upper-case letters
        letters = [c for c in "ZYXWVUTSRQPONMLKJIHGFEDCBA" if c not in subscripts]
        n_extra = max(t.ndim - (len(spec) - 3) for spec, t in zip(ins, ts) if "..." in spec)
        ell = "".join(letters[:n_extra])
        ins = [spec.replace("...", ell[len(ell) - (t.ndim - (len(spec) - 3)):] if "..." in spec else "") if "..." in spec else spec
               for spec, t in zip(ins, ts)]
        rhs = rhs.replace("...", ell)
    extent = {}
    for spec, t in zip(ins, ts):
        if len(spec) != t.ndim:
            raise PyRaise(ValueError, (f"einsum rank mismatch {spec} vs {t.shape}",))
        for ch, d in zip(spec, t.shape):
            if ch in extent:
                if not _dim_eq(extent[ch], d):
                    if isinstance(d, int) and d == 1:
                        continue
                    if isinstance(extent[ch], int) and extent[ch] == 1:
                        extent[ch] = d
                        continue
                    raise PyRaise(ValueError, (f"einsum extent mismatch on {ch}: {extent[ch]} vs {d}",))
            else:
                extent[ch] = d
    contracted = [ch for ch in extent if ch not in rhs]
    out_shape = tuple(extent[ch] for ch in rhs)

    def fn(idx):
        env = dict(zip(rhs, idx))

        def prod(env2):
            r = None
            for spec, t in zip(ins, ts):
                v = t.fn(tuple(0 if (isinstance(t.shape[k], int) and t.shape[k] == 1 and not _dim_eq(extent[ch], 1)) else env2[ch]
                               for k, ch in enumerate(spec)))
                v = eng.to_real(_num(v, t.kind))
                r = v if r is None else r * v
            return r
        if not contracted:
            return prod(env)

        def summed(chs, env2):
            if not chs:
                return prod(env2)
            ch, rest = chs[0], chs[1:]
            n = extent[ch]
            if isinstance(n, int):
                r = z3.RealVal(0)
                for j in range(n):
                    e3 = dict(env2)
                    e3[ch] = z3.IntVal(j)
                    r = r + summed(rest, e3)
                return z3.simplify(r) if n == 0 else r
            return eng.reduction("sum", n, lambda j: summed(rest, {**env2, ch: j}))
        return summed(contracted, env)
    if not out_shape:
        return fn(())
    return PT(out_shape, fn, "real")
