"""Models of python builtins, container methods and a few pure library functions.

These are *assumed contracts* (DESIGN.md 2.3.6): each is the obvious semantics of the python
operation on concrete containers whose leaves may be symbolic."""
import ast
import functools

import z3

from .values import (B, I, Bound, ClassV, Ext, FiltV, FuncV, HostObj, NativeFn, Obj, PyRaise, Rec, SeqV, SymList, Unsupported,
                     is_num, is_obj, is_sym, is_z, is_zbool, is_zstr, isnone_of, len_of, real_of, str_of, ufunc)


def install(eng):
    eng.builtins_model = _Model
    b = eng.builtins
    N = lambda name, fn, we=True: NativeFn(name, fn, wants_engine=we)
    b.update({
        "len": N("len", _len), "list": N("list", _list), "tuple": N("tuple", _tuple), "dict": N("dict", _dict),
        "set": N("set", _set), "zip": N("zip", _zip), "enumerate": N("enumerate", _enumerate),
        "range": N("range", _range), "map": N("map", _map), "filter": N("filter", _filter),
        "sorted": N("sorted", _sorted), "isinstance": N("isinstance", _isinstance), "getattr": N("getattr", _getattr),
        "hasattr": N("hasattr", _hasattr), "any": N("any", _any), "all": N("all", _all), "max": N("max", _max),
        "min": N("min", _min), "sum": N("sum", _sum), "float": N("float", _float), "int": N("int", _int),
        "str": N("str", _str), "bool": N("bool", _bool), "abs": N("abs", _abs), "iter": N("iter", _iter),
        "next": N("next", _next), "repr": N("repr", _repr), "type": N("type", _type), "print": N("print", lambda eng, *a, **k: None),
        "reversed": N("reversed", _reversed), "slice": N("slice", lambda eng, *a: slice(*a)), "id": N("id", lambda eng, x: id(x)),
        "callable": N("callable", lambda eng, x: isinstance(x, (FuncV, Bound, NativeFn, ClassV, Ext))),
        "issubclass": N("issubclass", _issubclass), "frozenset": N("frozenset", lambda eng, x=(): frozenset(eng.iterate(x))),
        "round": N("round", _round), "bytes": N("bytes", _bytes), "object": object, "super": None, "open": Ext("builtins.open"),
        "None": None, "True": True, "False": False, "__name__": "__pyvc__", "NotImplemented": NotImplemented,
        "Ellipsis": Ellipsis,
    })
    for name in ("Exception", "ValueError", "KeyError", "TypeError", "IndexError", "RuntimeError", "AttributeError",
                 "AssertionError", "ImportError", "ModuleNotFoundError", "NotImplementedError", "StopIteration",
                 "ZeroDivisionError", "OSError", "FileNotFoundError", "NameError", "BaseException", "Warning",
                 "DeprecationWarning", "UserWarning", "LookupError", "ArithmeticError", "OverflowError"):
        b[name] = getattr(__builtins__, name, None) if not isinstance(__builtins__, dict) else __builtins__[name]


class _Model:
    native_types = {}
    ext_models = {}

    @staticmethod
    def container_method(eng, o, name):
        if isinstance(o, dict):
            m = _dict_methods.get(name)
            if m is not None:
                return NativeFn(f"dict.{name}", functools.partial(m, eng, o))
        if isinstance(o, list):
            m = _list_methods.get(name)
            if m is not None:
                return NativeFn(f"list.{name}", functools.partial(m, eng, o))
        if isinstance(o, str):
            m = _str_methods.get(name)
            if m is not None:
                return NativeFn(f"str.{name}", functools.partial(m, eng, o))
        if isinstance(o, (int, float)) and name in ("real", "imag"):
            return getattr(o, name)
        if isinstance(o, (str, tuple, list, dict, set)) and hasattr(o, name):
            pm = getattr(o, name)

            def call(*a, **k):
                if any(is_sym(x) for x in a) or any(is_sym(x) for x in k.values()):
                    raise Unsupported(f"{type(o).__name__}.{name} with symbolic argument")
                return eng._concrete(lambda: pm(*a, **k))
            return NativeFn(f"{type(o).__name__}.{name}", call)
        raise PyRaise(AttributeError, (name,))

    @staticmethod
    def seq_method(eng, s, name):
        if name == "append":
            def append(x):
                s.arr = z3.Store(s.arr, s.n, eng.box(x))
                s.n = s.n + 1
            return NativeFn("seq.append", append)
        if name == "copy":
            return NativeFn("seq.copy", lambda: s.copy())
        raise Unsupported(f"method {name} of symbolic sequence")


# ---- dict methods (keys concrete; symbolic keys only where stated) ----
def _d_get(eng, d, k, default=None):
    if is_sym(k):
        keys = list(d.keys())
        res = default
        for kk in reversed(keys):
            res = eng.ite(eng.veq(k, kk), d[kk], res)
        return res
    try:
        return d.get(k, default)
    except TypeError:
        raise PyRaise(TypeError, ("unhashable",))


def _d_pop(eng, d, k, *default):
    if is_sym(k):
        raise Unsupported("dict.pop with symbolic key")
    if k in d:
        return d.pop(k)
    if default:
        return default[0]
    raise PyRaise(KeyError, (k,))


def _d_setdefault(eng, d, k, default=None):
    if is_sym(k):
        raise Unsupported("dict.setdefault with symbolic key")
    return d.setdefault(k, default)


def _d_update(eng, d, other=(), **kw):
    if isinstance(other, dict):
        d.update(other)
    else:
        for k, v in eng.iterate(other):
            d[k] = v
    d.update(kw)


_dict_methods = {
    "get": _d_get, "pop": _d_pop, "setdefault": _d_setdefault, "update": _d_update,
    "items": lambda eng, d: list(d.items()), "keys": lambda eng, d: list(d.keys()),
    "values": lambda eng, d: list(d.values()), "copy": lambda eng, d: dict(d),
}


def _l_index(eng, l, x):
    if is_sym(x) or any(is_sym(e) for e in l):
        # first position equal to x; ValueError if absent
        conds = [eng.veq(x, e) for e in l]
        from .interp import _or
        if not eng.branch(_or(conds) if conds else False):
            raise PyRaise(ValueError, ("not in list",))
        res = z3.IntVal(len(l) - 1)
        for j in range(len(l) - 2, -1, -1):
            res = eng.ite(conds[j], z3.IntVal(j), res)
        return res
    return eng._concrete(lambda: l.index(x))


def _l_sort(eng, l, key=None, reverse=False):
    l[:] = _sorted(eng, l, key=key, reverse=reverse)


def _l_extend(eng, l, it):
    l.extend(eng.iterate(it))


def _l_remove(eng, l, x):
    if is_sym(x) or any(is_sym(e) for e in l):
        raise Unsupported("list.remove with symbolic values")
    eng._concrete(lambda: l.remove(x))


_list_methods = {
    "append": lambda eng, l, x: l.append(x), "extend": _l_extend, "index": _l_index, "sort": _l_sort,
    "insert": lambda eng, l, i, x: l.insert(i, x), "pop": lambda eng, l, *a: eng._concrete(lambda: l.pop(*a)),
    "copy": lambda eng, l: list(l), "remove": _l_remove, "reverse": lambda eng, l: l.reverse(),
    "count": lambda eng, l, x: eng._concrete(lambda: l.count(x)),
}


def _s_join(eng, s, it):
    parts = eng.iterate(it)
    if any(is_sym(p) for p in parts):
        out = None
        for k, p in enumerate(parts):
            pz = p if is_zstr(p) else (z3.StringVal(p) if isinstance(p, str) else str_of(eng.box(p)))
            out = pz if out is None else z3.Concat(out, z3.StringVal(s), pz)
        return out if out is not None else ""
    return eng._concrete(lambda: s.join(parts))


def _s_format(eng, s, *a, **k):
    if any(is_sym(x) for x in a) or any(is_sym(x) for x in k.values()):
        f = ufunc(f"strformat{len(a)}", *([Obj] * (1 + len(a) + len(k))), Obj)
        return f(eng.box(s), *[eng.box(x) for x in a], *[eng.box(k[n]) for n in sorted(k)])
    return eng._concrete(lambda: s.format(*a, **k))


_str_methods = {"join": _s_join, "format": _s_format}


# ---- builtins ----
def _len(eng, x):
    from .tensor import PT
    if isinstance(x, (list, tuple, dict, str, set, range, frozenset)):
        return len(x)
    if isinstance(x, (SeqV, SymList)):
        return x.n
    if isinstance(x, FiltV):
        raise Unsupported("len of filtered symbolic sequence")
    if is_obj(x):
        return len_of(x)
    if is_zstr(x):
        return z3.Length(x)
    if isinstance(x, PT):
        return x.shape[0]
    if isinstance(x, Rec):
        f, _ = x.cls.lookup("__len__")
        if f is not None:
            return eng.call(Bound(f, x), [], {})
        if "__dict_storage__" in x.attrs:
            return len(x.attrs["__dict_storage__"])
    if isinstance(x, HostObj):
        return len(x)
    if eng.is_native_concrete(x):
        return eng._concrete(lambda: len(x))
    raise PyRaise(TypeError, ("len",))


def _list(eng, x=()):
    from .interp import _MapLike
    if isinstance(x, _MapLike):
        x = x.iterate(eng)
    if isinstance(x, SymList) and eng.known_length(x) is None:
        return SymList(x.n, x.at)
    if is_obj(x) or isinstance(x, SeqV):
        known = eng.known_length(x)
        if known is None:
            return eng.seq_from(x)
    return list(eng.iterate(x))


def _tuple(eng, x=()):
    if isinstance(x, (SeqV, SymList)) and eng.known_length(x) is None:
        f = ufunc("tuple_of", Obj, Obj)
        return f(eng.box(x))
    if is_obj(x):
        known = eng.known_length(x)
        if known is None:
            f = ufunc("tuple_of", Obj, Obj)
            return f(x)
    return tuple(eng.iterate(x))


def _dict(eng, *a, **kw):
    d = {}
    if a:
        src = a[0]
        if isinstance(src, Rec) and "__dict_storage__" in src.attrs:
            src = src.attrs["__dict_storage__"]
        if isinstance(src, dict):
            d.update(src)
        elif is_obj(src):
            if kw:
                raise Unsupported("dict(opaque, **kw)")
            f = ufunc("dict_of", Obj, Obj)
            return f(src)
        else:
            for kv in eng.iterate(src):
                k, v = eng.unpack(kv, 2)
                if is_sym(k):
                    raise Unsupported("dict() with symbolic key")
                d[k] = v
    d.update(kw)
    return d


def _has_sym(v):
    from .interp import _contains_sym
    return _contains_sym(v)


def _set(eng, x=()):
    items = eng.iterate(x)
    if any(is_sym(i) or _has_sym(i) for i in items):
        if eng.policy.get("generic_iteration"):
            f = ufunc("set_of", Obj, Obj)
            return f(eng.box(items))
        raise Unsupported("set() of symbolic elements")
    try:
        return set(items)
    except TypeError:
        raise PyRaise(TypeError, ("unhashable",))


def _zip(eng, *its):
    from .interp import _SymIter
    syms = [eng.as_symiter(i) if (is_obj(i) or isinstance(i, (SeqV, _SymIter))) and eng.known_length(i) is None else None for i in its]
    if any(s is not None for s in syms):
        if not all(s is not None for s in syms):
            raise Unsupported("zip of symbolic and concrete sequences")
        # zip stops at the shortest: contracts state equal lengths as a requires
        n = syms[0].n
        for s in syms[1:]:
            n = z3.If(s.n < n, s.n, n)
        return _SymIter(z3.simplify(n), lambda e, i: tuple(s.at(e, i) for s in syms))
    lists = [eng.iterate(i) for i in its]
    return list(zip(*lists))


def _enumerate(eng, it, start=0):
    from .interp import _SymIter
    if (is_obj(it) or isinstance(it, (SeqV, _SymIter))) and eng.known_length(it) is None:
        s = eng.as_symiter(it)
        return _SymIter(s.n, lambda e, i: (i + start, s.at(e, i)))
    return list(enumerate(eng.iterate(it), start))


def _range(eng, *a):
    if any(is_sym(x) for x in a):
        from .interp import _SymIter
        if len(a) == 1:
            n = eng.to_index(a[0])
            return _SymIter(n, lambda e, i: i)
        raise Unsupported("range with symbolic bounds")
    return eng._concrete(lambda: range(*a))


def _map(eng, f, *its):
    lists = [eng.iterate(i) for i in its]
    return [eng.call(f, list(xs), {}) for xs in zip(*lists)]


def _filter(eng, f, it):
    out = []
    for x in eng.iterate(it):
        if eng.truth(x if f is None else eng.call(f, [x], {})):
            out.append(x)
    return out


def _sorted(eng, it, key=None, reverse=False):
    items = eng.iterate(it)
    if not isinstance(items, (list, tuple)):
        raise Unsupported("sorted() of a sequence of symbolic length")
    keys = [eng.call(key, [x], {}) for x in items] if key is not None else items
    if any(is_sym(k) or isinstance(k, (Rec,)) or _has_sym(k) for k in keys):
        if eng.policy.get("generic_iteration"):
            f = ufunc("sorted_of", Obj, Obj)
            return f(eng.box(items))
        raise Unsupported("sorted() with symbolic keys")
    try:
        order = sorted(range(len(items)), key=lambda i: keys[i], reverse=bool(reverse))
    except TypeError:
        raise PyRaise(TypeError, ("unorderable",))
    return [items[i] for i in order]


def _reversed(eng, it):
    return list(reversed(eng.iterate(it)))


def _isinstance(eng, x, t):
    ts = t if isinstance(t, tuple) else (t,)
    for c in ts:
        if isinstance(c, HostObj) and hasattr(c, "instancecheck"):
            if c.instancecheck(x):
                return True
            continue
        if isinstance(c, ClassV):
            if isinstance(x, Rec) and x.cls.issub(c):
                return True
            continue
        if c is float and (isinstance(x, float) or (is_num(x) and not x.is_int())):
            return True
        if c is int and (isinstance(x, int) or (is_num(x) and x.is_int())):
            return True
        if c is str and (isinstance(x, str) or is_zstr(x)):
            return True
        if c is bool and (isinstance(x, bool) or is_zbool(x)):
            return True
        if c is list and isinstance(x, (list, SeqV)):
            return True
        if isinstance(c, type) and not is_sym(x) and isinstance(x, c):
            return True
        if isinstance(c, NativeFn):
            py = {"list": (list, SeqV), "tuple": tuple, "dict": dict, "str": str, "int": int, "float": float,
                  "bool": bool, "set": set, "bytes": bytes}.get(c.name)
            if py is not None:
                if is_obj(x):
                    f = ufunc("isinstance:" + c.name, Obj, B)
                    if eng.branch(f(x)):
                        return True
                    continue
                if c.name == "str" and is_zstr(x):
                    return True
                if c.name == "bool" and is_zbool(x):
                    return True
                if c.name == "float" and is_num(x) and not x.is_int():
                    return True
                if c.name == "int" and is_num(x) and x.is_int():
                    return True
                if c.name == "int" and isinstance(x, bool):
                    return True
                if not is_sym(x) and isinstance(x, py):
                    return True
                continue
        if is_obj(x):
            f = ufunc("isinstance:" + eng.ref_name(c), Obj, B)
            if eng.branch(f(x)):
                return True
    return False


def _issubclass(eng, a, b):
    if isinstance(a, ClassV):
        return a.issub(b)
    if isinstance(a, type) and isinstance(b, type):
        return issubclass(a, b)
    return False


def _getattr(eng, o, name, *default):
    if is_sym(name):
        raise Unsupported("getattr with symbolic name")
    if is_obj(o) and default:
        # attribute may be absent: fork
        f = ufunc("hasattr:" + name, Obj, B)
        if eng.branch(f(o)):
            return eng.getattr(o, name)
        return default[0]
    try:
        return eng.getattr(o, name)
    except PyRaise as e:
        if default and e.cls is AttributeError:
            return default[0]
        raise


def _hasattr(eng, o, name):
    if is_obj(o):
        f = ufunc("hasattr:" + name, Obj, B)
        return f(o)
    try:
        eng.getattr(o, name)
        return True
    except PyRaise as e:
        if e.cls is AttributeError:
            return False
        raise
    except Unsupported:
        return False


def _any(eng, it):
    from .interp import _or
    if is_obj(it):
        # opaque sequence: any(x) is an uninterpreted predicate of x; it implies that x is non-empty
        f = ufunc("any_true", Obj, B)
        eng._fact_once(z3.Implies(f(it), len_of(it) > 0))
        return f(it)
    items = eng.iterate(it)
    return _or([eng.to_bool(x) for x in items])


def _all(eng, it):
    from .interp import _and
    if is_obj(it):
        f = ufunc("all_true", Obj, B)
        eng._fact_once(z3.Implies(len_of(it) == 0, f(it)))
        return f(it)
    items = eng.iterate(it)
    return _and([eng.to_bool(x) for x in items])


def _max(eng, *a, **kw):
    items = eng.iterate(a[0]) if len(a) == 1 else list(a)
    if kw:
        if "key" in kw:
            raise Unsupported("max with key")
    if not items:
        if "default" in kw:
            return kw["default"]
        raise PyRaise(ValueError, ("max of empty",))
    if not any(is_sym(x) for x in items):
        return eng._concrete(lambda: max(items))
    r = eng.to_arith(items[0])
    for x in items[1:]:
        x = eng.to_arith(x)
        r = z3.If(x > r, x, r)
    return r


def _min(eng, *a, **kw):
    items = eng.iterate(a[0]) if len(a) == 1 else list(a)
    if not items:
        raise PyRaise(ValueError, ("min of empty",))
    if not any(is_sym(x) for x in items):
        return eng._concrete(lambda: min(items))
    r = eng.to_arith(items[0])
    for x in items[1:]:
        x = eng.to_arith(x)
        r = z3.If(x < r, x, r)
    return r


def _sum(eng, it, start=0):
    r = start
    for x in eng.iterate(it):
        r = eng.binop(ast.Add(), r, x)
    return r


def _float(eng, x=0.0):
    if is_sym(x):
        if is_zstr(x):
            f = ufunc("float_of_str", z3.StringSort(), z3.RealSort())
            return f(x)
        return eng.to_real(x)
    from .tensor import PT
    if isinstance(x, PT):
        return eng.to_real(x)
    return eng._concrete(lambda: float(x))


def _int(eng, x=0):
    if is_sym(x):
        if is_num(x):
            return x if x.is_int() else z3.ToInt(x)
        if is_obj(x):
            return z3.ToInt(real_of(x))
        raise Unsupported("int() of symbolic non-number")
    return eng._concrete(lambda: int(x))


def _str(eng, x=""):
    if is_zstr(x):
        return x
    if is_num(x):
        # str() of a number: uninterpreted text with float(str(x)) == x (assumed of CPython's repr / float round trip)
        ns = ufunc("numstr", z3.RealSort(), z3.StringSort())
        fs = ufunc("float_of_str", z3.StringSort(), z3.RealSort())
        r = eng.to_real(x)
        eng._fact_once(fs(ns(r)) == r)
        return ns(r)
    if is_sym(x):
        f = ufunc("str_of_obj", Obj, z3.StringSort())
        return f(eng.box(x))
    if isinstance(x, (Rec, FuncV)):
        raise Unsupported("str() of interpreted object")
    return str(x)


def _bytes(eng, x=b"", *a):
    if is_sym(x):
        raise Unsupported("bytes() of a symbolic value")
    return bytes(x, *a) if a else bytes(x)


def _bool(eng, x=False):
    return eng.to_bool(x)


def _abs(eng, x):
    if is_sym(x):
        r = eng.to_arith(x)
        return z3.If(r < 0, -r, r)
    return abs(x)


def _round(eng, x, n=None):
    if is_sym(x):
        raise Unsupported("round() of symbolic")
    return round(x, n) if n is not None else round(x)


class _Iter:
    def __init__(self, items):
        self.items, self.pos = items, 0


def _counter(eng, items=()):
    """collections.Counter of concrete hashable items: the dictionary of their multiplicities (first-seen order)"""
    import collections
    xs = eng.iterate(items)
    if any(is_sym(x) for x in xs):
        raise Unsupported("collections.Counter of symbolic items")
    return dict(collections.Counter(xs))


def _iter(eng, x):
    return _Iter(eng.iterate(x))


def _next(eng, it, *default):
    if isinstance(it, _Iter):
        if it.pos < len(it.items):
            it.pos += 1
            return it.items[it.pos - 1]
        if default:
            return default[0]
        raise PyRaise(StopIteration, ())
    from .interp import GenList
    if isinstance(it, GenList):
        if it.pos < len(it):
            it.pos += 1
            return it[it.pos - 1]
        if default:
            return default[0]
        raise PyRaise(StopIteration, ())
    raise Unsupported("next() of non-iterator")


def _repr(eng, x):
    if is_sym(x):
        f = ufunc("repr_of", Obj, Obj)
        return f(eng.box(x))
    return repr(x)


def _type(eng, x):
    if isinstance(x, Rec):
        return x.cls
    if is_sym(x):
        f = ufunc("type_of", Obj, Obj)
        return f(eng.box(x))
    return type(x)


# ---- pure library functions ----
def _deepcopy(eng, rec):
    """copy.deepcopy: a value-equal object sharing nothing (assumed contract, DESIGN 2.3.4)"""
    x = rec.args[0]
    return _deep(eng, x)


def _deep(eng, x):
    if isinstance(x, list):
        return [_deep(eng, e) for e in x]
    if isinstance(x, tuple):
        return tuple(_deep(eng, e) for e in x)
    if isinstance(x, dict):
        return {k: _deep(eng, v) for k, v in x.items()}
    if isinstance(x, set):
        return set(x)
    if isinstance(x, SeqV):
        return x.copy()
    if is_obj(x):
        f = ufunc("deepcopy", Obj, Obj)
        return f(x)
    if isinstance(x, Rec):
        if any(n in x.cls.ns for n in ("__deepcopy__", "__reduce__", "__reduce_ex__", "__getstate__", "__setstate__", "__copy__")):
            raise Unsupported("deepcopy of an interpreted instance with its own copy protocol")
        # object.__reduce_ex__: a new instance of the same class (no __init__), instance dictionary and dict / list content copied deeply
        new = Rec(x.cls)
        new.attrs = {k: _deep(eng, v) for k, v in x.attrs.items()}
        return new
    return x


def _reduce(eng, rec):
    f, it = rec.args[0], rec.args[1]
    items = eng.iterate(it)
    if len(rec.args) > 2:
        acc = rec.args[2]
    else:
        acc, items = items[0], items[1:]
    for x in items:
        acc = eng.call(f, [acc, x], {})
    return acc


def _op_iadd(eng, rec):
    a, b = rec.args
    if isinstance(a, list):
        a.extend(eng.iterate(b))
        return a
    return eng.binop(ast.Add(), a, b)


_Model.ext_models.update({
    "copy.deepcopy": _deepcopy,
    "functools.reduce": _reduce,
    "operator.iadd": _op_iadd,
    "typing.cast": lambda eng, rec: rec.args[1],
    "functools.wraps": lambda eng, rec: NativeFn("wraps-decorator", lambda f: f),     # metadata only
    "collections.Counter": lambda eng, rec: _counter(eng, *rec.args),      # typing.cast returns its second argument unchanged
    "tqdm.tqdm": lambda eng, rec: rec.args[0],         # identity on its iterable (DESIGN 2.1)
})


def _np_asarray(eng, rec):
    from .tensor import lift, PT
    x = rec.args[0]
    if is_obj(x):
        return x
    return lift(eng, x)


def _np_any(eng, rec):
    from .tensor import PT, lift
    from .interp import _or
    x = rec.args[0]
    if is_obj(x):
        f = ufunc("np_any", Obj, B)
        return f(x)
    t = lift(eng, x)
    if not t.concrete_shape():
        raise Unsupported("np.any over symbolic extent")
    import itertools
    idxs = itertools.product(*[range(d) for d in t.shape])
    return _or([eng.to_bool(t.fn(tuple(z3.IntVal(j) for j in idx))) for idx in idxs])


_Model.ext_models.update({"numpy.asarray": _np_asarray, "numpy.any": _np_any})


def _math_pow(eng, rec):
    import math
    from .tensor import sym_pow
    x, y = rec.args
    if not is_sym(x) and not is_sym(y):
        return eng._concrete(lambda: math.pow(x, y))
    return sym_pow(eng.to_real(x), eng.to_real(y))


def _math_log(eng, rec):
    import math
    from .tensor import Log
    x = rec.args[0]
    if not is_sym(x):
        return eng._concrete(lambda: math.log(x))
    return Log(eng.to_real(x))


def _math_sqrt(eng, rec):
    import math
    from .tensor import Sqrt
    x = rec.args[0]
    if not is_sym(x):
        return eng._concrete(lambda: math.sqrt(x))
    return Sqrt(eng.to_real(x))


_Model.ext_models.update({"math.pow": _math_pow, "math.log": _math_log, "math.sqrt": _math_sqrt})


def _it_accumulate(eng, rec):
    items = eng.iterate(rec.args[0])
    func = rec.args[1] if len(rec.args) > 1 else rec.kwargs.get("func")
    out = []
    acc = rec.kwargs.get("initial")
    started = acc is not None
    if started:
        out.append(acc)
    for x in items:
        if not started:
            acc, started = x, True
        else:
            acc = eng.call(func, [acc, x], {}) if func is not None else eng.binop(ast.Add(), acc, x)
        out.append(acc)
    return out


def _it_chain(eng, rec):
    out = []
    for a in rec.args:
        out.extend(eng.iterate(a))
    return out


_Model.ext_models.update({"itertools.accumulate": _it_accumulate, "itertools.chain": _it_chain,
                          "itertools.chain.from_iterable": lambda eng, rec: [y for x in eng.iterate(rec.args[0]) for y in eng.iterate(x)]})
