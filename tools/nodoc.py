#!/usr/bin/env python3
"""print python source without docstrings/comments-only lines (reading aid)"""
import ast, sys
for fn in sys.argv[1:]:
    src = open(fn).read()
    tree = ast.parse(src)
    drop = set()
    for node in ast.walk(tree):
        if isinstance(node, (ast.FunctionDef, ast.ClassDef, ast.Module, ast.AsyncFunctionDef)):
            b = node.body
            if b and isinstance(b[0], ast.Expr) and isinstance(b[0].value, ast.Constant) and isinstance(b[0].value.value, str):
                for l in range(b[0].lineno, b[0].end_lineno + 1):
                    drop.add(l)
    print(f"##### {fn}")
    for i, line in enumerate(src.splitlines(), 1):
        if i in drop or not line.strip():
            continue
        print(f"{i:4d} {line}")
