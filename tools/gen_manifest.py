#!/usr/bin/env python3
"""(re)generate /verif/MANIFEST.json from contracts/manifest_info.py"""
import json, os, sys
HERE = os.path.dirname(os.path.dirname(os.path.abspath(__file__)))
sys.path.insert(0, HERE)
from contracts.manifest_info import CHECKS, NOT_APPLICABLE, NOTES
base = json.load(open("/root/.vp/BASELINE.json"))
checks = []
for pid in sorted(CHECKS):
    c = CHECKS[pid]
    checks.append({
        "property_id": pid,
        "quick_cmd": f"./check {pid} --tier quick",
        "thorough_cmd": f"./check {pid} --tier thorough",
        "evidence_file": f"evidence/{pid}.json",
        "replay_cmd_template": f"./check {pid} --replay {{path}}",
        "engine": "pyvc",
        "level_claimed": {"category": c["category"], "text": c["text"], "design_ref": c.get("design_ref", f"DESIGN.md section 3 ({pid})")},
        "level_note": c["note"],
        "technique": c["technique"],
    })
m = {
    "version": 1,
    "setup_cmd": "./setup.sh",
    "hooks": {"guard": "PYHF_VERIF", "enable": "none needed: contracts are sidecar files keyed by path::qualname, /repo is parsed, not annotated",
              "baseline_off_cmd": base["cmd"].replace("--junitxml=<file>", "").strip(), "source_commits": [], "add_only": True},
    "engines": [{"name": "pyvc", "path": "pyvc/", "serves_properties": sorted(CHECKS),
                 "kind_free_text": "own verification-condition generator: symbolic execution of the real pyhf function ASTs (re-read on every run) against sidecar contracts, obligations discharged by z3 5.1 with cvc5 as second back end; bounded blocks labelled as such"}],
    "checks": checks,
    "notes": NOTES,
    "not_applicable": [{"property_id": p, "reason": r} for p, r in sorted(NOT_APPLICABLE.items())],
}
json.dump(m, open(os.path.join(HERE, "MANIFEST.json"), "w"), indent=1)
import jsonschema
jsonschema.validate(m, json.load(open("/root/.vp/MANIFEST.schema.json")))
print("MANIFEST.json written:", len(checks), "checks,", len(m["not_applicable"]), "not_applicable")
