#!/usr/bin/env python3
"""rewrite the generated tables of DESIGN.md section 7 (fix commits, seeded changes) from /repo's git log and seeded/*/meta.json"""
import glob, json, os, re, subprocess
P = "/verif/DESIGN.md"
s = open(P).read()
rows = []
for d in sorted(glob.glob("/verif/seeded/*")):
    m = json.load(open(d + "/meta.json"))
    ev = m.get("evaluation", {})
    caught, first = [], ""
    for r in ev.get("ran", []):
        prop = r["check"].split()[-1]
        if r.get("exit") == 1:
            caught.append(prop)
            if not first:
                v = [l for l in r.get("summary", []) if l.startswith("VIOLATION")]
                if v:
                    nm = v[0].split("replay=")[1].split("/")[-1].split(".json")[0]
                    first = nm.split("#", 1)[1][:70] if "#" in nm else nm[:70]
    what = m.get("what_breaks", "").replace("\n", " ").replace("|", "/")
    rows.append(f"| {os.path.basename(d)} | {', '.join(x.replace('src/pyhf/', '') for x in m.get('files', []))} | {what[:150]}{'…' if len(what) > 150 else ''} | {', '.join(caught) or ('**not reported** (outside reach, 7.5a)' if ev.get('accepted_miss') else '**missed**')} | `{first}` |")
log = subprocess.check_output(["git", "-C", "/repo", "log", "--format=%h %s", "d6bda2a..HEAD"]).decode().strip().splitlines()
fixes = "\n".join(f"| `{l.split()[0]}` | {' '.join(l.split()[1:])} |" for l in reversed(log))
s = re.sub(r"(\| commit \| message \|\n\|---\|---\|\n)(?:\|.*\n)*", lambda m_: m_.group(1) + fixes + "\n", s, count=1)
s = re.sub(r"(\| seed \| file \| change \(abridged\) \| caught by \| first failing obligation \|\n\|---\|---\|---\|---\|---\|\n)(?:\|.*\n)*", lambda m_: m_.group(1) + "\n".join(rows) + "\n", s, count=1)
open(P, "w").write(s)
print(len(rows), "seeds,", len(log), "commits")
