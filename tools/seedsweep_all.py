#!/usr/bin/env python3
"""regression over all stored seeded changes: apply each patch to /repo, run the check(s) recorded as catching it, revert.
Every seed must still be reported (exit 1 with a VIOLATION line) by at least one of them."""
import os as _os
_os.environ.setdefault('PYVC_EVIDENCE_DIR', '/tmp/pyvc_evidence_scratch')
import glob, json, os, subprocess, sys, time
def sh(cmd):
    r = subprocess.run(cmd, shell=True, capture_output=True, text=True)
    return r.returncode, r.stdout + r.stderr
assert sh("git -C /repo status --porcelain --untracked-files=no")[1].strip() == "", "/repo not clean"
only = sys.argv[1:] 
bad = []
for d in sorted(glob.glob("/verif/seeded/*")):
    sid = os.path.basename(d)
    if only and not any(sid.startswith(o) for o in only):
        continue
    m = json.load(open(d + "/meta.json"))
    caught = [r["check"].split()[-1] for r in m.get("evaluation", {}).get("ran", []) if r.get("exit") == 1] or [m["property"]]
    c, o = sh(f"git -C /repo apply {d}/patch.diff")
    if c != 0:
        print(sid, "PATCH DOES NOT APPLY"); bad.append(sid); continue
    try:
        res = {}
        for p in caught:
            t0 = time.time()
            c, o = sh(f"cd /verif && ./check {p} --tier quick")
            res[p] = (c, round(time.time() - t0))
            # keep the stored evaluation current: exit code and the first lines the check printed
            lines = [l[:300] for l in o.splitlines() if l.startswith(("VIOLATION", "UNDECIDED", "CRASH", "[" + p))]
            viol = [l for l in lines if l.startswith("VIOLATION")]
            ran = m.setdefault("evaluation", {}).setdefault("ran", [])
            ent = next((r for r in ran if r["check"].split()[-1] == p), None)
            if ent is None:
                ent = {"check": f"./check {p}"}
                ran.append(ent)
            ent.update(exit=c, seconds=round(time.time() - t0), summary=(viol[:3] + [l for l in lines if l.startswith("[")][-1:]) or lines[:4])
        json.dump(m, open(d + "/meta.json", "w"), indent=1)
    finally:
        sh("git -C /repo checkout -- .")
    ok = any(c == 1 for c, _ in res.values())
    accepted = m.get("evaluation", {}).get("accepted_miss")
    print(sid, "OK " if ok else ("MISSED (recorded as outside the technique's reach)" if accepted else "MISSED"), res, flush=True)
    if not ok and not accepted:
        bad.append(sid)
print("missed:", bad)
sys.exit(1 if bad else 0)
