#!/bin/bash
# robustness sweep: the pipeline checks under several seeds (run through vp run)
cd "$(dirname "$0")/.."
./setup.sh
for s in ${SEEDS:-1 2 3 4 5 6 7 8}; do
  for p in ${PROPS:-C01 C02 C10}; do
    out=$(VERIF_SEED=$s ./check $p --tier ${TIER:-quick} 2>&1); code=$?
    echo "seed=$s exit=$code $(echo "$out" | grep "^\[$p\]" | tail -1)"
    echo "$out" | grep -E "^(VIOLATION|UNDECIDED|CRASH|VACUOUS)" | head -5
  done
done
