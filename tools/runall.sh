#!/bin/bash
# run every registered check (quick tier) and print one line per property
cd "$(dirname "$0")/.."
for p in $(.venv/bin/python -c "import json; print(' '.join(c['property_id'] for c in json.load(open('MANIFEST.json'))['checks']))"); do
  out=$(./check $p --tier ${1:-quick} 2>&1); code=$?
  echo "exit=$code $(echo "$out" | grep "^\[$p\]" | tail -1)"
  echo "$out" | grep -E "^(VIOLATION|UNDECIDED|CRASH|VACUOUS)" | head -3
done
