#!/usr/bin/env python3
"""Run the checks against behaviour-preserving refactorings (false-alarm test).
usage: benigneval.py <dir with <id>/patch.diff meta.json> [--all]
For each patch: apply to /repo, run every check whose evidence lists a touched source file (or all with --all), revert.
A check must exit 0: exit 1 is a false alarm, exit 2 brittleness (undecided on unchanged behaviour)."""
import os as _os
_os.environ.setdefault('PYVC_EVIDENCE_DIR', '/tmp/pyvc_evidence_scratch')
import glob, json, os, subprocess, sys, time
src = sys.argv[1]
run_all = "--all" in sys.argv
ev = {}
for f in glob.glob("/verif/evidence/*.json"):
    d = json.load(open(f))
    srcs = set()
    for k, v in (d.get("coverage") or {}).items():
        pass
    txt = json.dumps(d)
    ev[d["property_id"]] = txt
props_all = sorted(ev)

def sh(cmd):
    r = subprocess.run(cmd, shell=True, capture_output=True, text=True)
    return r.returncode, r.stdout + r.stderr

assert sh("git -C /repo status --porcelain --untracked-files=no")[1].strip() == "", "/repo not clean"
report = []
for d in sorted(glob.glob(os.path.join(src, "*"))):
    patch = os.path.join(d, "patch.diff")
    if not os.path.exists(patch):
        continue
    files = [l[6:].strip() for l in open(patch) if l.startswith("+++ b/")]
    rel = [f.replace("src/pyhf/", "") for f in files]
    props = props_all if run_all else [p for p in props_all if any(('"' + r + '"') in ev[p] or (r + "::") in ev[p] for r in rel)]
    c, o = sh(f"git -C /repo apply {patch}")
    if c != 0:
        report.append({"id": os.path.basename(d), "applies": False, "error": o[-300:]})
        print(os.path.basename(d), "DOES NOT APPLY")
        continue
    row = {"id": os.path.basename(d), "files": rel, "checks": {}}
    try:
        for p in props:
            t0 = time.time()
            c, o = sh(f"cd /verif && ./check {p} --tier quick")
            lines = [l for l in o.splitlines() if l.startswith(("VIOLATION", "UNDECIDED", "CRASH"))]
            row["checks"][p] = {"exit": c, "seconds": round(time.time() - t0), "lines": [l[:260] for l in lines[:4]]}
    finally:
        sh("git -C /repo checkout -- .")
    bad = {p: v for p, v in row["checks"].items() if v["exit"] != 0}
    print(row["id"], rel, "checks:", " ".join(f"{p}={v['exit']}" for p, v in row["checks"].items()))
    for p, v in bad.items():
        for l in v["lines"][:2]:
            print("    ", l)
    report.append(row)
json.dump(report, open(os.path.join(src, "benign_report.json"), "w"), indent=1)
