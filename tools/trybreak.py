#!/usr/bin/env python3
"""apply a one-line edit to a scratch copy of /repo/src, run a check against it, delete the copy.
usage: trybreak.py <prop> <relpath under src/pyhf> <old> <new> [extra check args]"""
import os as _os
_os.environ.setdefault('PYVC_EVIDENCE_DIR', '/tmp/pyvc_evidence_scratch')
import os, shutil, subprocess, sys, tempfile
prop, rel, old, new = sys.argv[1:5]
extra = sys.argv[5:]
d = tempfile.mkdtemp(prefix="pyvc_scratch_", dir="/tmp")
try:
    shutil.copytree("/repo/src", os.path.join(d, "src"))
    p = os.path.join(d, "src", "pyhf", rel)
    s = open(p).read()
    if s.count(old) < 1:
        sys.exit(f"pattern not found in {rel}")
    s = s.replace(old, new, 1)
    open(p, "w").write(s)
    env = dict(os.environ, PYVC_REPO=d)
    r = subprocess.run(["/verif/check", prop] + extra, env=env)
    print("exit", r.returncode)
finally:
    shutil.rmtree(d, ignore_errors=True)
