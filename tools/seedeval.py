#!/usr/bin/env python3
"""Confirm a seeded change and run the checks against it.
usage: seedeval.py <dir with patch.diff demo.py meta.json> <seed id> [--tests] [--props C01,C02]
1. scratch worktree of /repo: demo passes on the clean tree, patch applies, package imports, demo fails with the patch,
   (optionally) the test files named in meta.json still pass with the patch;
2. git -C /repo apply patch; run ./check for the property (and extra ones); git -C /repo checkout -- . straight afterwards;
3. copy into /verif/seeded/<id>/ with what was run and what the checks said."""
import os as _os
_os.environ.setdefault('PYVC_EVIDENCE_DIR', '/tmp/pyvc_evidence_scratch')
import json, os, shutil, subprocess, sys, tempfile, time

src, sid = sys.argv[1], sys.argv[2]
run_tests = "--tests" in sys.argv
extra = [a.split("=")[1] for a in sys.argv if a.startswith("--props=")]
meta = json.load(open(os.path.join(src, "meta.json")))
prop = meta["property"]
props = [prop] + (extra[0].split(",") if extra else [])
patch = os.path.abspath(os.path.join(src, "patch.diff"))
demo = os.path.abspath(os.path.join(src, "demo.py"))
PY = "/venv/bin/python"
report = {"seed": sid, "property": prop, "ran": []}

def sh(cmd, **kw):
    r = subprocess.run(cmd, shell=True, capture_output=True, text=True, **kw)
    return r.returncode, (r.stdout + r.stderr)

wt = tempfile.mkdtemp(prefix="seedeval_", dir="/tmp")
os.rmdir(wt)
assert sh(f"git -C /repo worktree add -q {wt} HEAD")[0] == 0
try:
    shutil.copy("/repo/src/pyhf/_version.py", f"{wt}/src/pyhf/_version.py")
    env = f"PYTHONPATH={wt}/src"
    c0, o0 = sh(f"cd {wt} && {env} timeout 900 {PY} {demo}")
    report["demo_on_clean_tree"] = c0
    ca, oa = sh(f"git -C {wt} apply {patch}")
    report["patch_applies"] = ca == 0
    if ca != 0:
        report["apply_error"] = oa[-500:]
    ci, oi = sh(f"cd {wt} && {env} {PY} -c 'import pyhf, pyhf.cli'")
    report["imports"] = ci == 0
    c1, o1 = sh(f"cd {wt} && {env} timeout 900 {PY} {demo}")
    report["demo_on_changed_tree"] = c1
    report["demo_output_changed"] = o1[-800:]
    if run_tests:
        files = [t for t in meta.get("tests_run", []) if t.startswith("tests/") and os.path.exists(os.path.join(wt, t.split("::")[0]))]
        files = sorted({t.split("::")[0] for t in files})
        if files:
            t0 = time.time()
            ct, ot = sh(f"cd {wt} && {env} timeout 2400 {PY} -m pytest -q -p no:cacheprovider {' '.join(files)} -q -x --deselect tests/test_infer.py::test_toy_calculator 2>&1 | tail -5")
            report["tests"] = {"files": files, "exit": ct, "tail": ot[-600:], "seconds": round(time.time() - t0)}
finally:
    sh(f"git -C /repo worktree remove --force {wt}")
ok = report["demo_on_clean_tree"] == 0 and report.get("patch_applies") and report.get("imports") and report["demo_on_changed_tree"] != 0
report["confirmed"] = bool(ok)
if ok:
    assert sh("git -C /repo status --porcelain --untracked-files=no")[1].strip() == "", "/repo not clean"
    try:
        assert sh(f"git -C /repo apply {patch}")[0] == 0
        for p in props:
            t0 = time.time()
            c, o = sh(f"cd /verif && ./check {p}")
            lines = [l for l in o.splitlines() if l.startswith(("VIOLATION", "UNDECIDED", "[" + p, "CRASH", "KNOWN"))]
            report["ran"].append({"check": f"./check {p}", "exit": c, "seconds": round(time.time() - t0), "summary": [l[:300] for l in lines[:8]],
                                  "violations": len([l for l in lines if l.startswith("VIOLATION")])})
    finally:
        sh("git -C /repo checkout -- .")
    report["detected_by"] = [r["check"] for r in report["ran"] if r["exit"] == 1]
dst = f"/verif/seeded/{sid}"
os.makedirs(dst, exist_ok=True)
shutil.copy(patch, f"{dst}/patch.diff")
shutil.copy(demo, f"{dst}/demo.py")
meta["evaluation"] = report
json.dump(meta, open(f"{dst}/meta.json", "w"), indent=1)
print(json.dumps({k: report[k] for k in ("seed", "confirmed", "demo_on_clean_tree", "demo_on_changed_tree") if k in report}), report.get("detected_by"),
      [(r["check"], r["exit"], r["violations"]) for r in report["ran"]])
for r in report["ran"]:
    for l in r["summary"][:4]:
        print("   ", l[:220])
