"""C17 - patch sets look up, verify and apply patches exactly.

Abstract view of a schema-valid document: n patches, patch j has name nm(j) (a string) and value
tuple vl(j) (a real sequence), P(j) is the Patch object built from entry j.
Representation invariant Inv(i) of PatchSet after i loop iterations (dict d, list L):
  (A) for j < i: nm(j), vl(j) are keys of d and both map to P(j)
  (B) every key of d is nm(j) or vl(j) for some j < i        (witness: ghost owner[key])
  (D) L == [P(0) .. P(i-1)]
Obligations: __init__ establishes/preserves Inv, raises InvalidPatchSet iff a name or value tuple
repeats or len(values) != len(labels) - and for no other reason; __getitem__ under Inv(n) returns
P(j) iff the key is nm(j) or vl(j) (list or tuple), else InvalidPatchLookup; verify returns normally
iff every listed digest matches; apply == Workspace(self[key].apply(spec)) after verify(spec), spec
not modified; utils.digest wiring."""
import z3

from pyvc.interp import LoopSpec
from pyvc.symmap import Key, SymDict, key_of, seq_of, to_key
from pyvc.values import (I, Obj, PyRaise, Rec, SeqV, Unsupported, is_obj, isnone_of, item_of, len_of, str_of, truthy_of, ufunc,
                         box_real)
from .common import calls_to

PROPERTY = "C17"
LEVEL = "proof"
PS = "patchset.py"
EXPLANATION = ("PatchSet.__init__ is verified with a loop invariant over a dictionary with symbolic keys (z3 arrays over a key datatype, ghost "
               "owner witness), __getitem__/verify/apply/Patch/utils.digest path by path on the current source")
TRUSTED = ["schema validation guarantees: patch names are strings, values are numeric tuples (key typing)",
           "jsonpatch.JsonPatch.__init__/apply: apply(spec) with default in_place=False returns a new document (assumed)",
           "json.dumps(sort_keys=True) is key-order insensitive and value sensitive; hash functions collision resistant (external)",
           "Workspace(...) constructor uninterpreted (C12/C16)"]
ASSUMPTIONS = ["python str/tuple hashing and equality as dictionary keys == equality of the string / of the real sequence"]

PatchOf = z3.Function("PatchOf", Obj, Obj)
tuple_of = ufunc("tuple_of", Obj, Obj)


class View:
    def __init__(self, eng, spec):
        self.spec = spec
        self.patches = item_of(spec, eng.box("patches"))
        self.n = len_of(self.patches)
        self.labels = item_of(item_of(spec, eng.box("metadata")), eng.box("labels"))
        self.eng = eng

    def ps(self, j):
        return item_of(self.patches, box_real(z3.ToReal(j)))

    def nameobj(self, j):
        return item_of(item_of(self.ps(j), self.eng.box("metadata")), self.eng.box("name"))

    def valobj(self, j):
        return item_of(item_of(self.ps(j), self.eng.box("metadata")), self.eng.box("values"))

    def nm(self, j):
        return str_of(self.nameobj(j))

    def vl(self, j):
        return seq_of(self.valobj(j))

    def P(self, j):
        return PatchOf(self.ps(j))


def patch_ctor_contract(eng, call):
    """Patch(spec) as proved in t_patch: name / values / metadata read from spec['metadata']"""
    ps = call.arg(0, "spec")
    p = PatchOf(ps)
    meta = item_of(ps, eng.box("metadata"))
    nameobj = item_of(meta, eng.box("name"))
    valobj = item_of(meta, eng.box("values"))
    eng.assume(eng.opaque_attr(p, "name") == nameobj)
    eng.assume(eng.opaque_attr(p, "values") == tuple_of(valobj))
    eng.assume(eng.opaque_attr(p, "metadata") == meta)
    # schema-valid documents: the name is a string, the values a tuple of numbers
    eng.assume(key_of(nameobj) == Key.KStr(str_of(nameobj)))
    eng.assume(key_of(tuple_of(valobj)) == Key.KSeq(seq_of(valobj)))
    eng.assume(len_of(tuple_of(valobj)) == z3.Length(seq_of(valobj)))
    eng.assume(z3.Not(isnone_of(p)))
    return p


def invariant(eng, view, d, L, i):
    j, j2 = z3.Int("inv_j"), z3.Int("inv_j2")
    k = z3.Const("inv_k", Key)
    A = z3.ForAll([j], z3.Implies(z3.And(0 <= j, j < i), z3.And(
        z3.Select(d.member, Key.KStr(view.nm(j))), z3.Select(d.member, Key.KSeq(view.vl(j))),
        z3.Select(d.lookup, Key.KStr(view.nm(j))) == view.P(j), z3.Select(d.lookup, Key.KSeq(view.vl(j))) == view.P(j))))
    w = z3.Select(d.owner, k)
    B = z3.ForAll([k], z3.Implies(z3.Select(d.member, k), z3.And(0 <= w, w < i, z3.Or(k == Key.KStr(view.nm(w)), k == Key.KSeq(view.vl(w))))))
    D = z3.And(L.n == i, z3.ForAll([j], z3.Implies(z3.And(0 <= j, j < i), z3.Select(L.arr, j) == view.P(j))))
    return [("A-every-patch-is-registered-under-name-and-values", A), ("B-keys-are-exactly-names-and-values", B), ("D-patch-list", D)]


def _policy(state):
    key = f"{PS}::PatchSet.__init__"

    def ghost_dict(eng, v):
        if not isinstance(v, dict):
            raise Unsupported("_patches_by_key is not initialised with a dict display")
        state["d"] = SymDict(eng, "pbk", v)
        return state["d"]

    def ghost_list(eng, v):
        if v != []:
            raise Unsupported("_patches is not initialised with []")
        state["L"] = SeqV(z3.K(I, z3.Const("nopatch", Obj)), z3.IntVal(0))
        return state["L"]

    def inv(eng, env, i):
        state["d"].ghost_index = i
        eng.path.c17 = dict(d=state["d"], L=state["L"], view=state["view"])
        return invariant(eng, state["view"], state["d"], state["L"], i)

    def havoc(eng, env):
        state["d"].havoc(eng)
        L = state["L"]
        L.arr = z3.Const("L!arr", z3.ArraySort(I, Obj))
        L.n = z3.Int("L!n")
    return {
        f"{PS}::Patch": patch_ctor_contract,
        ("ghost_attr", key, "_patches_by_key"): ghost_dict,
        ("ghost_attr", key, "_patches"): ghost_list,
        ("loop", key, 0): LoopSpec(f"{key}#inv", inv, havoc),
        "schema/validator.py::validate": lambda eng, call: None,
        "inline": [f"{PS}::PatchSet.labels", f"{PS}::PatchSet.metadata"],
    }


def t_init(T):
    key = f"{PS}::PatchSet.__init__"
    state = {}
    eng = T.engine(_policy(state))
    f = T.under_contract(eng, key)
    cls = eng.module(PS).get("PatchSet")

    def thunk():
        spec = eng.obj("spec")
        state["view"] = View(eng, spec)
        o = Rec(cls)
        eng.call_function(f, [o, spec], {}, force_inline=True)
        return o, state["view"], state["d"], state["L"]
    results = eng.explore(thunk)
    T.absorb(eng, results)
    kinds = {"exit": 0, "step-ok": 0, "raise": 0}
    for k, r in enumerate(results):
        sfx = f"@path{k}"
        T.discharge_required(eng, r, sfx)
        ctx = r.path.__dict__.get("loop_ctx", {}).get(f"{key}#inv")
        c17 = r.path.__dict__.get("c17")
        if c17 is None:
            T.fail(f"{key}#paths.loop-reached{sfx}", f"path ends ({r.kind}) before the registration loop", kind="raises")
            continue
        view = c17["view"]
        if r.kind == "raise":
            kinds["raise"] += 1
            if r.exc_name != "InvalidPatchSet" or ctx is None or ctx[0] != "step":
                T.fail(f"{key}#raises.only-InvalidPatchSet-from-the-loop{sfx}", f"raises {r.exc_name}", kind="raises")
                continue
            i = ctx[1]
            # "rejects duplicates ... and for no other reason": the raise is justified by an earlier patch
            d0 = c17["d"]          # no insertion happens before a raise: this is the state at the start of iteration i
            w1 = z3.Select(d0.owner, Key.KStr(view.nm(i)))
            w2 = z3.Select(d0.owner, Key.KSeq(view.vl(i)))
            dup_name = z3.And(0 <= w1, w1 < i, view.nm(w1) == view.nm(i))
            dup_vals = z3.And(0 <= w2, w2 < i, view.vl(w2) == view.vl(i))
            badlen = z3.Length(view.vl(i)) != len_of(view.labels)
            T.ob_path(eng, f"{key}#raises.only-if-duplicate-or-length-mismatch{sfx}", r, z3.Or(dup_name, dup_vals, badlen), kind="raises")
        elif r.kind == "cut":
            kinds["step-ok"] += 1
            i = ctx[1]
            j = z3.Int("dj")
            # an iteration that registers patch i: no earlier patch has its name or its values, lengths agree
            T.ob_path(eng, f"{key}#raises.if-duplicate-name{sfx}", r, z3.Implies(z3.And(0 <= j, j < i), view.nm(j) != view.nm(i)), kind="raises")
            T.ob_path(eng, f"{key}#raises.if-duplicate-values{sfx}", r, z3.Implies(z3.And(0 <= j, j < i), view.vl(j) != view.vl(i)), kind="raises")
            T.ob_path(eng, f"{key}#raises.if-length-mismatch{sfx}", r, z3.Length(view.vl(i)) == len_of(view.labels), kind="raises")
        else:
            kinds["exit"] += 1
            o = r.value[0]
            view = r.value[1]
            T.ob_path(eng, f"{key}#post.metadata{sfx}", r, eng.veq(o.attrs.get("_metadata"), item_of(view.spec, eng.box("metadata"))), kind="forwarding")
            vc = calls_to(r.path, "schema/validator.py::validate")
            okv = len(vc) == 1 and (vc[0].arg(0, "spec", None) is view.spec or eng.veq(vc[0].arg(0, "spec", None), view.spec) is not False)
            (T.ok if okv else T.fail)(f"{key}#post.validated{sfx}", *([] if okv else ["spec not validated against the schema"]), kind="forwarding")
    for kname, cnt in kinds.items():
        (T.ok if cnt else T.fail)(f"{key}#paths.{kname}-exists", *([] if cnt else ["no such path"]), kind="raises")


def _pre_state_hook(eng):
    """remember the dictionary state at the start of the loop body (before the insertions of this iteration)"""


def t_getitem(T):
    key = f"{PS}::PatchSet.__getitem__"
    for kind in ("str", "tuple", "list"):
        eng = T.engine({})
        f = T.under_contract(eng, key)
        cls = eng.module(PS).get("PatchSet")
        box = {}

        def thunk():
            spec = eng.obj("spec")
            view = View(eng, spec)
            d = SymDict(eng, "pbk")
            d.havoc(eng)
            L = SeqV(z3.Const("L!arr", z3.ArraySort(I, Obj)), z3.Int("L!n"))
            eng.assume(view.n >= 0)
            for _, c in invariant(eng, view, d, L, view.n):
                eng.assume(c)
            o = Rec(cls)
            o.attrs["_patches_by_key"] = d
            o.attrs["_patches"] = L
            if kind == "str":
                kobj = eng.string("key")
                kk = Key.KStr(kobj)
            else:
                y = eng.obj("keyseq")
                is_list = ufunc("isinstance:list", Obj, z3.BoolSort())
                kobj = y if kind == "list" else tuple_of(y)
                eng.assume(is_list(kobj) == z3.BoolVal(kind == "list"))
                eng.assume(key_of(tuple_of(y)) == Key.KSeq(seq_of(y)))
                kk = Key.KSeq(seq_of(y))
            box.update(view=view, d=d, kk=kk)
            return eng.call_function(f, [o, kobj], {}, force_inline=True)
        results = eng.explore(thunk)
        T.absorb(eng, results)
        n_ret = n_raise = 0
        for k, r in enumerate(results):
            sfx = f"@{kind},path{k}"
            view, d, kk = box["view"], box["d"], box["kk"]
            j = z3.Int("gj")
            inb = z3.And(0 <= j, j < view.n)
            hit_j = (kk == Key.KStr(view.nm(j))) if kind == "str" else (kk == Key.KSeq(view.vl(j)))
            if r.kind == "raise":
                n_raise += 1
                ok = r.exc_name == "InvalidPatchLookup"
                (T.ok if ok else T.fail)(f"{key}#raises.InvalidPatchLookup{sfx}", *([] if ok else [f"raises {r.exc_name}"]), kind="raises")
                # raised only when no patch has this name / these values
                T.ob_path(eng, f"{key}#raises.only-if-unknown-key{sfx}", r, z3.Implies(inb, z3.Not(hit_j)), kind="raises")
            else:
                n_ret += 1
                w = z3.Select(d.owner, kk)
                hit_w = (kk == Key.KStr(view.nm(w))) if kind == "str" else (kk == Key.KSeq(view.vl(w)))
                T.ob_path(eng, f"{key}#post.returns-the-patch-with-that-key{sfx}", r,
                          z3.And(0 <= w, w < view.n, hit_w, eng.veq(r.value, view.P(w))))
                # and a key that belongs to patch j is always found
                T.ob_path(eng, f"{key}#post.every-name-and-value-tuple-is-found{sfx}", r, z3.Implies(z3.And(inb, hit_j), eng.veq(r.value, view.P(j))))
        (T.ok if n_ret and n_raise else T.fail)(f"{key}#paths@{kind}", *([] if n_ret and n_raise else ["missing return or raise path"]), kind="raises")


def t_patch(T):
    """Patch.__init__ / metadata / name / values"""
    base = f"{PS}::Patch"
    eng = T.engine({"inline": [f"{PS}::Patch."]})
    for m in ("__init__", "metadata", "name", "values"):
        T.under_contract(eng, f"{base}.{m}")
    cls = eng.module(PS).get("Patch")

    def thunk():
        ps = eng.obj("patchspec")
        p = eng.instantiate(cls, [ps], {})
        return ps, eng.getattr(p, "metadata"), eng.getattr(p, "name"), eng.getattr(p, "values")
    results = eng.explore(thunk)
    T.absorb(eng, results)
    for k, r in enumerate(results):
        if r.kind != "return":
            T.fail(f"{base}#no-raise@path{k}", str(r.exc_name), kind="raises")
            continue
        ps, meta, name, values = r.value
        m = item_of(ps, eng.box("metadata"))
        T.ob_path(eng, f"{base}.metadata#post@path{k}", r, eng.veq(meta, m), kind="forwarding")
        T.ob_path(eng, f"{base}.name#post@path{k}", r, eng.veq(name, item_of(m, eng.box("name"))), kind="forwarding")
        T.ob_path(eng, f"{base}.values#post@path{k}", r, eng.veq(values, tuple_of(item_of(m, eng.box("values")))), kind="forwarding")


def t_len_iter(T):
    base = f"{PS}::PatchSet"
    eng = T.engine({"inline": [f"{PS}::PatchSet."]})
    cls = eng.module(PS).get("PatchSet")

    def thunk():
        o = Rec(cls)
        L = SeqV(z3.Const("L!arr", z3.ArraySort(I, Obj)), z3.Int("L!n"))
        o.attrs["_patches"] = L
        return L, eng.call(eng.getattr(o, "__len__"), [], {}), eng.getattr(o, "patches")
    results = eng.explore(thunk)
    for k, r in enumerate(results):
        if r.kind != "return":
            T.fail(f"{base}.__len__#no-raise@path{k}", str(r.exc_name), kind="raises")
            continue
        L, n, patches = r.value
        T.ob_path(eng, f"{base}.__len__#post@path{k}", r, eng.veq(n, L.n))
        (T.ok if patches is L else T.fail)(f"{base}.patches#post@path{k}", *([] if patches is L else ["patches is not the registered list"]))
    T.under_contract(eng, f"{base}.__len__")
    T.under_contract(eng, f"{base}.patches")


DIG = z3.Function("digest_of", Obj, Obj, Obj)     # utils.digest(spec, algorithm)


def t_verify(T):
    key = f"{PS}::PatchSet.verify"
    state = {}

    def inv(eng, env, i):
        it, spec = state["items"], state["spec"]
        j = z3.Int("vj")
        e = item_of(it, box_real(z3.ToReal(j)))
        return [("all-earlier-digests-match", z3.ForAll([j], z3.Implies(z3.And(0 <= j, j < i),
                                                                         DIG(spec, item_of(e, eng.box(0))) == item_of(e, eng.box(1)))))]

    def digest_contract(eng, call):
        return DIG(call.arg(0, "obj"), call.arg(1, "algorithm", eng.box("sha256")))
    pol = {"utils.py::digest": digest_contract, ("loop", key, 0): LoopSpec(f"{key}#inv", inv, lambda eng, env: None),
           "inline": [f"{PS}::PatchSet.digests", f"{PS}::PatchSet.metadata"]}
    eng = T.engine(pol)
    f = T.under_contract(eng, key)
    cls = eng.module(PS).get("PatchSet")

    def thunk():
        spec = eng.obj("ws")
        meta = eng.obj("metadata")
        o = Rec(cls)
        o.attrs["_metadata"] = meta
        digests = item_of(meta, eng.box("digests"))
        items = eng._opaque_apply(eng.opaque_attr(digests, "items"), [], {})
        state.update(items=items, spec=spec)
        return eng.call_function(f, [o, spec], {}, force_inline=True)
    results = eng.explore(thunk)
    T.absorb(eng, results)
    seen = set()
    for k, r in enumerate(results):
        sfx = f"@path{k}"
        T.discharge_required(eng, r, sfx)
        ctx = r.path.__dict__.get("loop_ctx", {}).get(f"{key}#inv")
        items, spec = state["items"], state["spec"]
        n = len_of(items)
        if r.kind == "raise":
            seen.add("raise")
            i = ctx[1] if ctx else z3.IntVal(0)
            e = item_of(items, box_real(z3.ToReal(i)))
            ok = r.exc_name == "PatchSetVerificationError"
            (T.ok if ok else T.fail)(f"{key}#raises.PatchSetVerificationError{sfx}", *([] if ok else [f"raises {r.exc_name}"]), kind="raises")
            T.ob_path(eng, f"{key}#raises.only-if-a-digest-differs{sfx}", r, DIG(spec, item_of(e, eng.box(0))) != item_of(e, eng.box(1)), kind="raises")
        elif r.kind == "return":
            seen.add("return")
            j = z3.Int("fj")
            e = item_of(items, box_real(z3.ToReal(j)))
            T.ob_path(eng, f"{key}#post.returns-only-if-every-digest-matches{sfx}", r,
                      z3.Implies(z3.And(0 <= j, j < n), DIG(spec, item_of(e, eng.box(0))) == item_of(e, eng.box(1))))
            for c in calls_to(r.path, "utils.py::digest"):
                T.ob_path(eng, f"{key}#fwd.digest-of-the-given-workspace{sfx}", r, eng.veq(c.arg(0, "obj", None), spec), kind="forwarding")
        else:
            seen.add("cut")
            for c in calls_to(r.path, "utils.py::digest"):
                T.ob_path(eng, f"{key}#fwd.digest-of-the-given-workspace{sfx}", r, eng.veq(c.arg(0, "obj", None), spec), kind="forwarding")
    for s_ in ("raise", "return", "cut"):
        (T.ok if s_ in seen else T.fail)(f"{key}#paths.{s_}-exists", *([] if s_ in seen else ["no such path"]), kind="raises")


def t_verify_history(T):
    """verify -> the workspace object is modified in place -> verify again: the second call must look at the digests of the
    workspace as it is NOW (nothing remembered from the first call)"""
    key = f"{PS}::PatchSet.verify"
    DIGV = z3.Function("digest_of_version", Obj, Obj, z3.IntSort(), Obj)
    state = {"version": 0}

    def digest_contract(eng, call):
        alg = call.arg(1, "algorithm", "sha256")
        return DIGV(call.arg(0, "obj"), eng.box(alg), z3.IntVal(state["version"]))
    eng = T.engine({"utils.py::digest": digest_contract, "schema/validator.py::validate": lambda e, c: None,
                    "inline": [f"{PS}::PatchSet."], f"{PS}::Patch": patch_ctor_contract})
    cls = eng.module(PS).get("PatchSet")
    box = {}

    def thunk():
        state["version"] = 0
        ws = eng.obj("ws")
        d1, d2 = eng.obj("recorded_md5"), eng.obj("recorded_sha256")
        doc = {"metadata": {"digests": {"md5": d1, "sha256": d2}, "labels": ["x"], "description": "d", "references": {}}, "patches": [], "version": "1.0.0"}
        ps = eng.instantiate(cls, [doc], {})
        eng.call(eng.getattr(ps, "verify"), [ws], {})
        n1 = len(eng.path.calls)
        state["version"] = 1            # ghost event: the same workspace object is changed in place
        box.update(ws=ws, d1=d1, d2=d2, n1=n1)
        eng.call(eng.getattr(ps, "verify"), [ws], {})
        return True
    results = eng.explore(thunk)
    T.absorb(eng, results)
    n_second = 0
    for k, r in enumerate(results):
        if r.kind != "return":
            continue                    # a raising verify is fine; only acceptance has to be justified
        n_second += 1
        ws, d1, d2 = box["ws"], box["d1"], box["d2"]
        goal = z3.And(DIGV(ws, eng.box("md5"), z3.IntVal(1)) == d1, DIGV(ws, eng.box("sha256"), z3.IntVal(1)) == d2)
        T.ob_path(eng, f"{key}#post.second-call-judges-the-workspace-as-it-is-now@path{k}", r, goal, history=True)
    (T.ok if n_second else T.fail)(f"{key}#paths.history-return-exists", *([] if n_second else ["no accepting path"]), kind="raises")


def t_apply(T):
    key = f"{PS}::PatchSet.apply"
    exc = {}

    def verify_contract(eng, call):
        if eng.branch(eng.bool("digests_match")):
            return None
        raise PyRaise(eng.module("exceptions/__init__.py").get("PatchSetVerificationError"), ())

    def getitem_contract(eng, call):
        if eng.branch(eng.bool("key_known")):
            return eng.obj("the_patch")
        raise PyRaise(eng.module("exceptions/__init__.py").get("InvalidPatchLookup"), ())
    eng = T.engine({f"{PS}::PatchSet.verify": verify_contract, f"{PS}::PatchSet.__getitem__": getitem_contract,
                    "workspace.py::Workspace": lambda e, c: e._opaque_apply(z3.Const("ref:Workspace", Obj), c.args, c.kwargs)})
    f = T.under_contract(eng, key)
    cls = eng.module(PS).get("PatchSet")
    box = {}

    def thunk():
        spec, k = eng.obj("ws"), eng.obj("key")
        o = Rec(cls)
        box.update(spec=spec, k=k, o=o)
        return eng.call_function(f, [o, spec, k], {}, force_inline=True)
    results = eng.explore(thunk)
    T.absorb(eng, results)
    for n, r in enumerate(results):
        sfx = f"@path{n}"
        spec, k = box["spec"], box["k"]
        vc = calls_to(r.path, f"{PS}::PatchSet.verify")
        gc = calls_to(r.path, f"{PS}::PatchSet.__getitem__")
        ap = [c for c in r.path.calls if isinstance(c.target, tuple) and c.target[0] == "opaque"]
        okv = len(vc) == 1 and (not gc or vc[0].seq < gc[0].seq) and (not ap or vc[0].seq < ap[0].seq)
        (T.ok if okv else T.fail)(f"{key}#order.verify-first{sfx}", *([] if okv else ["verify(spec) is not the first step"]), kind="order")
        if vc:
            T.ob_path(eng, f"{key}#fwd.verify-the-given-workspace{sfx}", r, eng.veq(vc[0].args[1:], [spec]), kind="forwarding")
        if r.kind == "raise":
            ok = r.exc_name in ("PatchSetVerificationError", "InvalidPatchLookup")
            (T.ok if ok else T.fail)(f"{key}#raises.only-verification-or-lookup{sfx}", *([] if ok else [r.exc_name]), kind="raises")
            if r.exc_name == "PatchSetVerificationError":
                (T.ok if not ap else T.fail)(f"{key}#order.nothing-applied-after-failed-verification{sfx}", *([] if not ap else ["patch applied although verification failed"]), kind="order")
            continue
        if len(gc) != 1 or len(ap) != 1:
            T.fail(f"{key}#post.result{sfx}", "lookup/apply not done exactly once")
            continue
        T.ob_path(eng, f"{key}#fwd.lookup-key{sfx}", r, eng.veq(gc[0].args[1:], [k]), kind="forwarding")
        a = ap[0]
        want_fn = eng.opaque_attr(gc[0].result, "apply")
        T.ob_path(eng, f"{key}#fwd.apply-the-looked-up-patch-to-the-workspace{sfx}", r,
                  z3.And(a.target[1] == want_fn, _zb(eng.veq(a.args, [spec]))), kind="forwarding")
        # frame: spec is only passed to verify and to JsonPatch.apply without in_place
        (T.ok if not a.kwargs else T.fail)(f"{key}#frame.no-in_place{sfx}", *([] if not a.kwargs else [f"apply called with {list(a.kwargs)}"]), kind="frame")
        wc = calls_to(r.path, "workspace.py::Workspace")
        okw = len(wc) == 1
        (T.ok if okw else T.fail)(f"{key}#post.returns-a-workspace{sfx}", *([] if okw else ["no Workspace constructed"]))
        if okw:
            T.ob_path(eng, f"{key}#post.result{sfx}", r, z3.And(_zb(eng.veq(wc[0].args, [a.result])), _zb(eng.veq(r.value, wc[0].result))))


def _zb(x):
    return z3.BoolVal(x) if isinstance(x, bool) else x


def t_digest(T):
    key = "utils.py::digest"

    def dumps(eng, call):
        if eng.branch(eng.bool("json_serialisable")):
            return eng._opaque_apply(z3.Const("ref:json.dumps", Obj), call.args, call.kwargs)
        raise PyRaise(TypeError, ())
    for alg in ("sha256", "md5", "not_a_hash"):
        eng = T.engine({"ext:json.dumps": dumps})
        f = T.under_contract(eng, key)
        real_hashlib = __import__("hashlib")

        def ext_attr(o, name, _orig=eng.ext_attr):
            if o.path == "hashlib" and not hasattr(real_hashlib, name):
                raise PyRaise(AttributeError, (name,))
            return _orig(o, name)
        eng.ext_attr = ext_attr
        box = {}

        def thunk():
            obj = eng.obj("obj")
            box["obj"] = obj
            return eng.call_function(f, [obj], {"algorithm": alg}, force_inline=True)
        results = eng.explore(thunk)
        T.absorb(eng, results)
        for k, r in enumerate(results):
            sfx = f"@{alg},path{k}"
            if r.kind == "raise":
                ok = r.exc_name == "ValueError"
                (T.ok if ok else T.fail)(f"{key}#raises.ValueError-only{sfx}", *([] if ok else [str(r.exc_name)]), kind="raises")
                continue
            if alg == "not_a_hash":
                T.fail(f"{key}#raises.ValueError-on-unknown-algorithm{sfx}", "accepted", kind="raises")
                continue
            dc = calls_to(r.path, "ext:json.dumps")
            hc = calls_to(r.path, f"ext:hashlib.{alg}")
            ok = len(dc) == 1 and len(hc) == 1
            (T.ok if ok else T.fail)(f"{key}#post.structure{sfx}", *([] if ok else ["dumps / hash not called once"]))
            if not ok:
                continue
            T.ob_path(eng, f"{key}#fwd.dumps{sfx}", r, eng.veq([dc[0].args, dc[0].kwargs.get("sort_keys")], [[box["obj"]], True]), kind="forwarding")
            dep = hc[0].args and _occurs(hc[0].args[0], dc[0].result)
            (T.ok if dep else T.fail)(f"{key}#fwd.hash-of-the-dump{sfx}", *([] if dep else ["hash input is not the json dump"]), kind="forwarding")
            dep2 = _occurs(r.value, hc[0].result)
            (T.ok if dep2 else T.fail)(f"{key}#post.hexdigest-of-that-hash{sfx}", *([] if dep2 else ["result is not derived from the hash object"]), kind="forwarding")
        if alg == "not_a_hash" and not any(r.kind == "raise" for r in results):
            T.fail(f"{key}#raises.ValueError-on-unknown-algorithm@{alg}", "no raising path", kind="raises")


def _occurs(value, sym):
    if not z3.is_expr(value) or not z3.is_expr(sym):
        return False
    seen, stack = set(), [value]
    while stack:
        x = stack.pop()
        if x.get_id() in seen:
            continue
        seen.add(x.get_id())
        if x.eq(sym):
            return True
        if z3.is_app(x):
            stack.extend(x.children())
    return False


def tasks(tier):
    return [("Patch", t_patch), ("PatchSet.__init__", t_init), ("PatchSet.__getitem__", t_getitem), ("PatchSet.__len__", t_len_iter),
            ("PatchSet.verify", t_verify), ("PatchSet.verify.history", t_verify_history), ("PatchSet.apply", t_apply), ("utils.digest", t_digest),
            # apply returns Workspace(patched): the result must not share state with the stored patch values or the background
            ("Workspace.__init__.ownership", _ownership)]


def _ownership(T):
    from .C16_workspace_ops import run_constructor_ownership
    run_constructor_ownership(T)


def replay(r):
    if (r.get("meta") or {}).get("constructor"):
        from .C16_workspace_ops import replay as r16
        return r16(r)
    return _replay(r)


def _replay(r):
    """native replay: a fixed battery of schema-valid patch sets against the oracle of the statement
    (distinct names and distinct value tuples are accepted whatever the names are; each patch is
    retrievable by exactly its name and its value tuple; duplicates rejected)"""
    name = r["name"]
    import pyhf
    from pyhf.exceptions import InvalidPatchSet, InvalidPatchLookup
    if "utils.py::digest" in name:
        return _replay_digest(pyhf)
    if "PatchSet.verify" in name or "PatchSet.apply" in name:
        return _replay_verify_apply(pyhf)
    if "PatchSet.__init__" not in name and "PatchSet.__getitem__" not in name:
        return None

    def doc(entries, labels=("x", "y")):
        return {"metadata": {"references": {"hepdata": "ins1234567"}, "description": "d", "digests": {"md5": "0" * 32}, "labels": list(labels)},
                "patches": [{"metadata": {"name": n, "values": list(v)}, "patch": [{"op": "add", "path": "/foo", "value": k}]} for k, (n, v) in enumerate(entries)],
                "version": "1.0.0"}
    bad = {}
    battery = {
        "plain": ([("a", (1, 2)), ("b", (3, 4))], True),
        "patch-called-name": ([("name", (1, 2)), ("b", (3, 4))], True),
        "patch-called-values": ([("a", (1, 2)), ("values", (3, 4))], True),
        "duplicate-name": ([("a", (1, 2)), ("a", (3, 4))], False),
        "duplicate-values": ([("a", (1, 2)), ("b", (1, 2))], False),
        "wrong-length": ([("a", (1, 2, 3))], False),
    }
    # a registered patch with an empty operation list is a patch like any other
    d_empty = doc([("a", (1, 2)), ("b", (3, 4))])
    d_empty["patches"][0]["patch"] = []
    try:
        ps_e = pyhf.PatchSet(d_empty)
        if ps_e["a"].name != "a" or ps_e[(1, 2)].name != "a" or ps_e[[1, 2]].name != "a":
            bad["empty-operation-list"] = "wrong patch returned"
    except Exception as e:
        bad["empty-operation-list"] = f"patch with an empty operation list not retrievable: {type(e).__name__}"
    for tag, (entries, accept) in battery.items():
        try:
            ps = pyhf.PatchSet(doc(entries))
            got = True
        except InvalidPatchSet:
            got = False
        if got != accept:
            bad[tag] = {"accepted": got, "oracle_accepts": accept}
            continue
        if got:
            for n, v in entries:
                try:
                    ok = ps[n].name == n and ps[v].name == n and ps[list(v)].name == n
                except Exception as e:
                    ok = False
                if not ok:
                    bad[tag + ":lookup"] = f"patch {n!r}{v} not retrievable by name and values"
            for other in ("name", "values", "zzz", (9, 9)):
                if other in [n for n, _ in entries] or other in [v for _, v in entries]:
                    continue
                try:
                    got_other = ps[other]
                    bad[tag + f":lookup-{other}"] = f"lookup of a key that belongs to no patch returned {got_other!r}"
                except InvalidPatchLookup:
                    pass
    return {"reproduced": bool(bad), "disagreements": bad}


def _replay_digest(pyhf):
    """the real utils.digest against hashlib over the canonical JSON text, for objects from a few bytes to several hundred KiB, and a
    single-character corruption at EVERY position of a sizeable object region (incl. around powers of two) must change the digest"""
    import hashlib
    import json
    bad = {}
    objs = {"small": {"a": 1, "b": [1.5, "x", None]}, "unicode": {"k": "\u00e9\u4e2d"},
            "70KiB": {"channels": [{"name": f"c{i}", "data": [float(j) for j in range(40)]} for i in range(280)]},
            "300KiB": {"channels": [{"name": f"channel{i}", "data": [float(j) + 0.5 for j in range(60)]} for i in range(800)]}}
    for tag, obj in objs.items():
        text = json.dumps(obj, sort_keys=True, ensure_ascii=False).encode("utf8")
        for alg in ("sha256", "md5", "sha512"):
            want = hashlib.new(alg, text).hexdigest()
            try:
                got = pyhf.utils.digest(obj, algorithm=alg)
            except Exception as e:
                got = f"{type(e).__name__}: {e}"
            if got != want:
                bad[f"{tag}:{alg}"] = {"bytes": len(text), "digest": got, "hashlib over the canonical JSON": want}
    # every single-leaf corruption is seen: change one number at a time across a large object
    big = objs["70KiB"]
    ref = pyhf.utils.digest(big)
    import copy
    for i in range(0, 280, 7):
        for j in (0, 13, 39):
            c = copy.deepcopy(big)
            c["channels"][i]["data"][j] += 1.0
            if pyhf.utils.digest(c) == ref:
                bad[f"corruption c{i}[{j}]"] = "digest unchanged"
                break
    return {"reproduced": bool(bad), "disagreements": bad}


def _replay_verify_apply(pyhf):
    import copy
    from pyhf.exceptions import PatchSetVerificationError
    ws = {"channels": [{"name": "c", "samples": [{"name": "s", "data": [5.0], "modifiers": [{"name": "mu", "type": "normfactor", "data": None}]}]}],
          "observations": [{"name": "c", "data": [5.0]}], "measurements": [{"name": "m", "config": {"poi": "mu", "parameters": []}}], "version": "1.0.0"}
    good = {a: pyhf.utils.digest(ws, algorithm=a) for a in ("md5", "sha256")}
    bad = {}

    def doc(digests):
        return {"metadata": {"references": {"hepdata": "ins1234567"}, "description": "d", "digests": digests, "labels": ["x"]},
                "patches": [{"metadata": {"name": "p", "values": [1]}, "patch": [{"op": "replace", "path": "/channels/0/samples/0/data", "value": [7.0]}]}],
                "version": "1.0.0"}
    # history: verify, corrupt the same object in place, verify again
    ps_h = pyhf.PatchSet(doc(good))
    ws_h = copy.deepcopy(ws)
    ps_h.verify(ws_h)
    ws_h["channels"][0]["samples"][0]["data"][0] = 6.0
    try:
        ps_h.verify(ws_h)
        bad["verify-after-in-place-corruption"] = "a workspace corrupted in place after a successful verify is still accepted"
    except PatchSetVerificationError:
        pass
    # root replacement and patched observations
    new_doc = copy.deepcopy(ws)
    new_doc["observations"][0]["data"] = [3.0]
    new_doc["channels"][0]["samples"][0]["data"] = [9.0]
    d_root = doc(good)
    d_root["patches"] = [{"metadata": {"name": "root", "values": [1]}, "patch": [{"op": "replace", "path": "", "value": new_doc}]},
                         {"metadata": {"name": "obs", "values": [2]}, "patch": [{"op": "replace", "path": "/observations/0/data", "value": [4.0]}]}]
    ps_r = pyhf.PatchSet(d_root)
    out_r = ps_r.apply(ws, "root")
    if dict(out_r) != new_doc:
        bad["apply-root-replace"] = "a patch replacing the whole document is not applied"
    out_o = ps_r.apply(ws, "obs")
    if list(out_o.data(out_o.model(), include_auxdata=False)) != [4.0]:
        bad["apply-patched-observations"] = f"the returned workspace does not reflect the patched observations: {list(out_o.data(out_o.model(), include_auxdata=False))}"
    out_o["observations"][0]["data"][0] = 99.0
    if list(ps_r.apply(ws, "obs")["observations"][0]["data"]) != [4.0]:
        bad["apply-aliasing"] = "modifying a returned workspace changes what the patch produces next time"
    for tag, digests, accept in (("all-match", good, True), ("md5-wrong", dict(good, md5="0" * 32), False), ("sha256-wrong", dict(good, sha256="0" * 64), False),
                                 ("only-md5-right", {"md5": good["md5"]}, True)):
        ps = pyhf.PatchSet(doc(digests))
        try:
            ps.verify(ws)
            got = True
        except PatchSetVerificationError:
            got = False
        if got != accept:
            bad["verify:" + tag] = {"verified": got, "oracle": accept}
        before = copy.deepcopy(ws)
        try:
            out = ps.apply(ws, "p")
            applied = True
        except PatchSetVerificationError:
            applied = False
        if applied != accept:
            bad["apply:" + tag] = {"applied": applied, "oracle": accept}
        if ws != before:
            bad["apply-mutates:" + tag] = "input workspace modified"
        if applied and (out["channels"][0]["samples"][0]["data"] != [7.0] or not isinstance(out, pyhf.Workspace)):
            bad["apply-result:" + tag] = "result is not the patched workspace"
    return {"reproduced": bool(bad), "disagreements": bad}
