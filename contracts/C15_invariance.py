"""C15 - inference is invariant under likelihood-preserving rewrites.

What a contract can decide here is the LIKELIHOOD side of the statement, as lemmas over the real pipeline:
for a structure skeleton S and a rewrite rho, the REAL Model.__init__ -> logpdf code is executed symbolically on S
and on rho(S) in one run, with parameters, data and auxiliary data expressed over one set of canonical symbols
(parameters identified by NAME, data by channel and bin), and proved for ALL numbers:
   reorder   listing order of channels / samples / modifiers reversed          logpdf' == logpdf
   rename    channels, samples, modifiers renamed by a bijection (sort order changes)  logpdf' == logpdf
   zero      a sample with zero yields added                                    logpdf' == logpdf
   noop      a normsys with hi = lo = 1 and a histosys with hi = lo = nominal added
                                       logpdf' == logpdf + logN(a1 | alpha1, 1) + logN(a2 | alpha2, 1)
   split     a channel's bins split into two channels (per-bin parameters renamed per channel)  logpdf' == logpdf
   merge     two samples carrying identical modifiers merged (yields, templates added; MC errors in quadrature)
   rescale   all yields of the signal (no MC-statistical modifier) times k > 0:  logpdf'(mu / k) == logpdf(mu)
together with: suggested init / bounds / fixed flags correspond under the parameter identification, and the frame
obligation that the inference functions (C05-C09) read the model only through logpdf / expected_data / make_pdf and the
configuration accessors.  From these the statement's invariances follow for exact optimisation; NOT decided: agreement
'beyond fit tolerance', between optimisers, and across backends (external minimisers, floating point)."""
import z3

from pyvc.tensor import PT
from . import hf_oracle as O
from . import hf_skeleton as K

PROPERTY = "C15"
LEVEL = "proof"
KEY = "pdf.py::Model.logpdf"
EXPLANATION = ("likelihood-preservation lemmas: the real model pipeline is executed symbolically on a skeleton and on its rewritten form in one run and the "
               "two log-densities are proved equal (or to differ by the stated constraint term) for all numbers; plus a frame obligation on the inference code")
TRUSTED = ["interpolator contract (C03), density formulas (C04), tensor-op contracts; sqrt axioms",
           "axiom: the code-4 core polynomial coefficients of a triple with down == nominal == up are 0 (homogeneous boundary system of C03); pow(1, y) == 1",
           "the step from equal likelihood functions and corresponding settings to equal fit results / CLs / limits assumes exact optimisation (external minimisers)"]
ASSUMPTIONS = ["structure bounded by the base skeletons and the listed rewrites (and their pairwise compositions in the thorough tier); numbers unbounded",
               "agreement within fit tolerance, between scipy and minuit, and across backends at 64b is NOT decided by these contracts"]

BASE = {
    "two-channels": {"channels": [("c1", 2, [("sig", [("normfactor", "mu"), ("normsys", "n1")]), ("bkg", [("histosys", "h1"), ("staterror", "st"), ("normsys", "n1")])]),
                                  ("c2", 1, [("bkg", [("shapesys", "ss"), ("normsys", "n1")])])], "poi": "mu"},
    "lumi-shapefactor": {"channels": [("c1", 2, [("sig", [("normfactor", "mu"), ("lumi", "lumi")]), ("bkg", [("shapefactor", "sf"), ("lumi", "lumi"), ("histosys", "h1")])])], "poi": "mu"},
    "mergeable": {"channels": [("c1", 2, [("sig", [("normfactor", "mu")]), ("b1", [("normsys", "n1"), ("histosys", "h1"), ("staterror", "st")]),
                                          ("b2", [("normsys", "n1"), ("histosys", "h1"), ("staterror", "st")])])], "poi": "mu", "tie": [("c1.b1.normsys.n1", "c1.b2.normsys.n1")]},
    # (a third variant, "second sample with an empty bin but a finite MC uncertainty", proved in 15 s when run alone but z3 timed out on it
    # in some full runs of the unchanged tree: an unstable proof is worse than none, the variant is not stated - C02 reports that seed)
    # two Poisson-constrained sets whose alphabetical order (s2 < ss) is the reverse of their order after the renaming (c_ss < z_s2)
    # and of their declaration order, with different bin counts
    "two-shapesys": {"channels": [("c1", 3, [("bkg", [("shapesys", "ss")])]), ("c2", 2, [("bkg", [("shapesys", "s2")]), ("sig", [("normfactor", "mu")])])], "poi": "mu"},
    # the same with a second sample that declares no MC uncertainty (data-driven): merging must still change nothing
    "mergeable-datadriven": {"channels": [("c1", 2, [("sig", [("normfactor", "mu")]), ("b1", [("normsys", "n1"), ("histosys", "h1"), ("staterror", "st")]),
                                                     ("b2", [("normsys", "n1"), ("histosys", "h1"), ("staterror", "st")])])], "poi": "mu",
                             "tie": [("c1.b1.normsys.n1", "c1.b2.normsys.n1")], "zeros": ["c1.b2.staterror.st.u0", "c1.b2.staterror.st.u1"]},
}


# ---------------------------------------------------------------- rewrites: spec -> (spec', parameter key map, channel key map, extra)
def _copy(spec):
    import copy
    return copy.deepcopy({k: v for k, v in spec.items()}) if not any(z3.is_expr(x) for x in ()) else spec


def dcopy(x):
    if isinstance(x, dict):
        return {k: dcopy(v) for k, v in x.items()}
    if isinstance(x, list):
        return [dcopy(v) for v in x]
    return x


def rw_reorder(spec, poi="mu"):
    s = dcopy(spec)
    s["channels"].reverse()
    for c in s["channels"]:
        c["samples"].reverse()
        for smp in c["samples"]:
            smp["modifiers"].reverse()
    if "parameters" in s:
        s["parameters"].reverse()
    return s, {}, {}, None


def rw_rename(spec, poi="mu"):
    cm = {"c1": "zz_c1", "c2": "aa_c2"}
    sm = {"sig": "x_sig", "bkg": "a_bkg", "b1": "q1", "b2": "a2"}
    mm = {"mu": "zmu", "n1": "b_n1", "h1": "a_h1", "st": "y_st", "ss": "c_ss", "sf": "m_sf", "s2": "z_s2"}
    s = dcopy(spec)
    for c in s["channels"]:
        c["name"] = cm.get(c["name"], c["name"])
        for smp in c["samples"]:
            smp["name"] = sm.get(smp["name"], smp["name"])
            for m in smp["modifiers"]:
                m["name"] = mm.get(m["name"], m["name"])
    for p in s.get("parameters", []):
        p["name"] = mm.get(p["name"], p["name"])
    inv_m = {v: k for k, v in mm.items()}
    inv_c = {v: k for k, v in cm.items()}
    return s, {n: (lambda i, n=n: (inv_m[n], i)) for n in inv_m}, {c: (lambda b, c=c: (inv_c[c], b)) for c in inv_c}, {"poi": mm}


def rw_zero(spec, poi="mu"):
    s = dcopy(spec)
    for c in s["channels"]:
        nb = len(c["samples"][0]["data"])
        c["samples"].insert(1, {"name": "empty", "data": [0.0] * nb, "modifiers": [{"name": "n1", "type": "normsys", "data": {"hi": 1.2, "lo": 0.7}}] if c["name"] == "c1" else []})
    return s, {}, {}, None


def rw_noop(spec, poi="mu"):
    s = dcopy(spec)
    smp = s["channels"][0]["samples"][-1]
    smp["modifiers"].append({"name": "new_ns", "type": "normsys", "data": {"hi": 1.0, "lo": 1.0}})
    smp["modifiers"].append({"name": "new_hs", "type": "histosys", "data": {"hi_data": list(smp["data"]), "lo_data": list(smp["data"])}})
    return s, {}, {}, {"extra_normal": ["new_ns", "new_hs"]}


def rw_split(spec, poi="mu"):
    """the first channel (>= 2 bins) becomes two channels: bin 0 and the remaining bins"""
    s = dcopy(spec)
    c = s["channels"][0]
    nb = len(c["samples"][0]["data"])
    parts = [("__a", 0, 1), ("__b", 1, nb)]
    new, pmap, cmap = [], {}, {}
    perbin = {}
    for sfx, lo, hi in parts:
        cc = {"name": c["name"] + sfx, "samples": []}
        cmap[cc["name"]] = (lambda b, lo=lo, nm=c["name"]: (nm, lo + b))
        for smp in c["samples"]:
            ns = {"name": smp["name"], "data": smp["data"][lo:hi], "modifiers": []}
            for m in smp["modifiers"]:
                mm = {"name": m["name"], "type": m["type"], "data": m["data"]}
                if m["type"] == "histosys":
                    mm["data"] = {"hi_data": m["data"]["hi_data"][lo:hi], "lo_data": m["data"]["lo_data"][lo:hi]}
                elif m["type"] in ("shapesys", "staterror"):
                    mm["data"] = m["data"][lo:hi]
                if m["type"] in ("shapesys", "staterror", "shapefactor"):
                    mm["name"] = m["name"] + sfx
                    pmap[mm["name"]] = (lambda i, lo=lo, nm=m["name"]: (nm, lo + i))
                ns["modifiers"].append(mm)
            cc["samples"].append(ns)
        new.append(cc)
    s["channels"] = new + s["channels"][1:]
    return s, pmap, cmap, None


def rw_merge(spec, poi="mu"):
    """samples b1 and b2 of the first channel (identical modifier lists, same normsys data) become one sample"""
    from pyvc.tensor import Sqrt
    s = dcopy(spec)
    c = s["channels"][0]
    b1 = next(x for x in c["samples"] if x["name"] == "b1")
    b2 = next(x for x in c["samples"] if x["name"] == "b2")
    merged = {"name": "b1", "data": [a + b for a, b in zip(b1["data"], b2["data"])], "modifiers": []}
    defs = []
    for m1, m2 in zip(b1["modifiers"], b2["modifiers"]):
        assert (m1["name"], m1["type"]) == (m2["name"], m2["type"])
        if m1["type"] == "histosys":
            d = {"hi_data": [a + b for a, b in zip(m1["data"]["hi_data"], m2["data"]["hi_data"])], "lo_data": [a + b for a, b in zip(m1["data"]["lo_data"], m2["data"]["lo_data"])]}
        elif m1["type"] == "staterror":
            # quadrature sum q with q > 0 and q*q == a*a + b*b (a definition, assumed in the run; evaluated numerically in the replay)
            d = []
            for j, (a, b) in enumerate(zip(m1["data"], m2["data"])):
                if z3.is_expr(a) or z3.is_expr(b):
                    q = z3.Real(f"quad.{m1['name']}.{j}")
                    defs.append((q, a, b))
                    d.append(q)
                else:
                    d.append((a * a + b * b) ** 0.5)
        else:
            d = m1["data"]
        merged["modifiers"].append({"name": m1["name"], "type": m1["type"], "data": d})
    c["samples"] = [x for x in c["samples"] if x["name"] not in ("b1", "b2")] + [merged]
    return s, {}, {}, {"assume": [z3.And(q > 0, q * q == a * a + b * b) for q, a, b in defs]}


def rw_rescale(spec, poi="mu"):
    k = z3.Real("k_scale")
    s = dcopy(spec)
    for c in s["channels"]:
        for smp in c["samples"]:
            if any(m["type"] == "normfactor" and m["name"] == poi for m in smp["modifiers"]):
                smp["data"] = [k * x for x in smp["data"]]
                for m in smp["modifiers"]:
                    if m["type"] == "histosys":
                        m["data"] = {"hi_data": [k * x for x in m["data"]["hi_data"]], "lo_data": [k * x for x in m["data"]["lo_data"]]}
    return s, {}, {}, {"scale": (poi, k)}


REWRITES = {"reorder": rw_reorder, "rename": rw_rename, "zero": rw_zero, "noop": rw_noop, "split": rw_split, "merge": rw_merge, "rescale": rw_rescale}
APPLICABLE = {"two-channels": ["reorder", "rename", "zero", "noop", "split", "rescale"], "lumi-shapefactor": ["reorder", "rename", "split", "rescale", "noop"],
              "mergeable": ["merge", "reorder"], "mergeable-datadriven": ["merge"], "two-shapesys": ["rename", "reorder"]}


def compose(f, g):
    def h(spec, poi="mu"):
        s1, p1, c1, e1 = f(spec, poi)
        poi1 = ((e1 or {}).get("poi") or {}).get(poi, poi)
        s2, p2, c2, e2 = g(s1, poi1)

        def pm(name):
            def at(i):
                n1, i1 = p2[name](i) if name in p2 else (name, i)
                return p1[n1](i1) if n1 in p1 else (n1, i1)
            return at

        def cm(name):
            def at(b):
                n1, b1 = c2[name](b) if name in c2 else (name, b)
                return c1[n1](b1) if n1 in c1 else (n1, b1)
            return at
        names_p = set(p2) | {n for n in p1}
        names_c = set(c2) | set(c1)
        extra = {}
        for e in (e1, e2):
            for k_, v in (e or {}).items():
                if k_ in ("extra_normal", "assume"):
                    extra.setdefault(k_, []).extend(v)
                elif k_ == "poi":
                    continue
                else:
                    extra[k_] = v
        poi2 = ((e2 or {}).get("poi") or {}).get(poi1, poi1)
        if poi2 != poi:
            extra["poi"] = {poi: poi2}
        # names introduced by g that map onto names renamed by f are resolved through pm / cm lazily
        return s2, _Lazy(pm, names_p), _Lazy(cm, names_c), extra or None
    return h


class _Lazy(dict):
    def __init__(self, fn, names):
        super().__init__()
        self.fn = fn

    def __contains__(self, k):
        return True

    def __getitem__(self, k):
        return self.fn(k)


# ---------------------------------------------------------------- evaluation over canonical symbols
def evaluate(eng, spec, poi, pmap, cmap, scale=None):
    m = K.make_model(eng, spec, poi)
    lay = K.layout_of(eng, m)
    P = lambda key, i: z3.Real(f"p.{key}.{i}")
    theta = [None] * lay.npars
    for name, (lo, hi) in lay.par_slices.items():
        for i in range(hi - lo):
            key, ci = pmap[name](i) if name in pmap else (name, i)
            v = P(key, ci)
            if scale is not None and name == scale[0]:
                v = v / scale[1]
            theta[lo + i] = v
    data, dkeys = [], []
    for c in lay.channels:
        for b in range(lay.channel_nbins[c]):
            ck, cb = cmap[c](b) if c in cmap else (c, b)
            data.append(z3.Real(f"d.{ck}.{cb}"))
            dkeys.append(("main", ck, cb))
    aux = {}
    for name in lay.auxdata_order:
        lo, hi = lay.par_slices[name]
        for i in range(hi - lo):
            key, ci = pmap[name](i) if name in pmap else (name, i)
            a = z3.Real(f"a.{key}.{ci}")
            aux[(key, ci)] = a
            data.append(a)
            dkeys.append(("aux", key, ci))
    ed = eng.call(eng.getattr(m, "expected_data"), [theta], {})
    expected = dict(zip(dkeys, K.elements(ed, len(dkeys))))
    lp = eng.call(eng.getattr(m, "logpdf"), [theta, data], {})
    lpv = lp.fn((z3.IntVal(0),)) if isinstance(lp, PT) else eng.to_real(lp)
    cfg = eng.getattr(m, "config")
    settings = {}
    init, bounds, fixed = list(eng.call(eng.getattr(cfg, "suggested_init"), [], {})), list(eng.call(eng.getattr(cfg, "suggested_bounds"), [], {})), list(eng.call(eng.getattr(cfg, "suggested_fixed"), [], {}))
    for name, (lo, hi) in lay.par_slices.items():
        for i in range(hi - lo):
            key = pmap[name](i) if name in pmap else (name, i)
            settings[key] = (init[lo + i], tuple(bounds[lo + i]), fixed[lo + i])
    widths = {}
    for name, (lo, hi) in lay.par_slices.items():
        ps = cfg.attrs["par_map"][name]["paramset"]
        sg = ps.attrs.get("sigmas") if hasattr(ps, "attrs") else None
        if sg is not None:
            for i, v in enumerate(K.elements(sg, hi - lo) if isinstance(sg, PT) else list(sg)):
                widths[pmap[name](i) if name in pmap else (name, i)] = v
    poi_key = None
    pi = eng.getattr(cfg, "poi_index")
    if pi is not None:
        for name, (lo, hi) in lay.par_slices.items():
            if lo <= pi < hi:
                poi_key = pmap[name](pi - lo) if name in pmap else (name, pi - lo)
    return dict(logpdf=lpv, theta=theta, lay=lay, settings=settings, poi=poi_key, aux=aux, expected=expected, widths=widths, pars={(pmap[n](i) if n in pmap else (n, i)) for n, (lo, hi) in lay.par_slices.items() for i in range(hi - lo)})


def coef4_schema(found, formulas):
    """the code-4 core polynomial of a triple with down == nominal == up vanishes (the boundary system of C03 is homogeneous then)"""
    from pyvc.solver import _apps, _ground
    names = [f"coef4_{k}" for k in range(6)]
    facts = []
    for nm, ts in _apps(formulas, names).items():
        for t in ts:
            if _ground(t):
                d, n, u = t.arg(0), t.arg(1), t.arg(2)
                facts.append(z3.Implies(z3.And(d == n, u == n), t == 0))
    return facts


def run_pair(T, bname, rname, rewrite):
    skel = BASE[bname]
    eng = T.engine(K.pipeline_policy())
    eng.axiom_schemas = list(getattr(eng, "axiom_schemas", [])) + [coef4_schema]
    T.under_contract(eng, KEY)
    T.under_contract(eng, "pdf.py::Model.__init__")
    box = {}

    def thunk():
        spec, sym = K.build_spec({k: v for k, v in skel.items() if k != "tie"})
        for a, b in skel.get("tie", []):
            # identical modifiers: the two samples' normsys data are the same numbers
            for fld in ("hi", "lo"):
                va, vb = sym.leaves[f"{a}.{fld}"], sym.leaves[f"{b}.{fld}"]
                _replace_leaf(spec, vb, va)
                sym.leaves.pop(f"{b}.{fld}")
        for c in sym.positivity():
            eng.assume(c)
        spec2, pmap, cmap, extra = rewrite(spec, skel.get("poi"))
        extra = extra or {}
        poi2 = (extra.get("poi") or {}).get(skel.get("poi"), skel.get("poi"))
        A = evaluate(eng, spec, skel.get("poi"), {}, {})
        scale = extra.get("scale")
        if scale is not None:
            eng.assume(scale[1] > 0)
        for fact in extra.get("assume", []):
            eng.assume(fact)
        B = evaluate(eng, spec2, poi2, pmap, cmap, scale=scale)
        for t in A["theta"]:
            eng.assume(t > 0)
        for (key, i) in B["pars"] - A["pars"]:
            pass
        box.update(A=A, B=B, extra=extra)
        return True
    results = eng.explore(thunk)
    T.absorb(eng, results)
    tag = f"{bname},{rname}"
    meta = dict(base=bname, rewrite=rname)
    for k, r in enumerate(results):
        sfx = f"{tag},path{k}"
        if r.kind != "return":
            T.fail(f"{KEY}#lemma.{rname}.no-raise@class=well-formed|{sfx}", f"raises {r.exc_name} {getattr(r.value, 'eargs', '')}", kind="raises", **meta)
            continue
        A, B, extra = box["A"], box["B"], box["extra"]
        hy = r.path.hyps()
        corr = 0
        new = sorted(B["pars"] - A["pars"])
        want_new = sorted((n, 0) for n in extra.get("extra_normal", []))
        ok = new == want_new and (A["pars"] - B["pars"]) == set()
        (T.ok if ok else T.fail)(f"{KEY}#lemma.{rname}.parameters-identified-by-name@class=well-formed|{sfx}",
                                 *([] if ok else [f"parameters only in the rewritten model {new}, only in the original {sorted(A['pars'] - B['pars'])}"]), kind="structure", **meta)
        if not ok:
            continue
        for (n, i) in want_new:
            corr = corr + O.ZOps.log_normal(B["aux"][(n, i)], z3.Real(f"p.{n}.{i}"), z3.RealVal(1))
        extra_hy = [z3.Real(f"p.{n}.{i}") > -10 for n, i in want_new]
        # step 1: the expected data (rates and expected auxiliary data) agree entry by entry; step 2 uses these proved equalities
        shared = [k_ for k_ in A["expected"] if k_ in B["expected"]]
        okk = set(A["expected"]) <= set(B["expected"])
        (T.ok if okk else T.fail)(f"pdf.py::Model.expected_data#lemma.{rname}.same-data-layout-up-to-the-identification@class=well-formed|{sfx}",
                                  *([] if okk else [f"entries only in the original: {sorted(set(A['expected']) - set(B['expected']))}"]), kind="structure", **meta)
        rate_eqs = [B["expected"][k_] == A["expected"][k_] for k_ in shared]
        res = all([T.ob(eng, f"pdf.py::Model.expected_data#lemma.{rname}.expected-data-preserved@class=well-formed|{sfx},{'.'.join(map(str, k_))}", hy + extra_hy, e, **meta)
                   for k_, e in zip(shared, rate_eqs)])
        lemma_hy = rate_eqs if res else []
        wk = [k_ for k_ in A["widths"] if k_ in B["widths"]]
        if wk:
            weqs = [eng.to_real(B["widths"][k_]) == eng.to_real(A["widths"][k_]) for k_ in wk]
            if all([T.ob(eng, f"pdf.py::_ModelConfig#lemma.{rname}.constraint-widths-preserved@class=well-formed|{sfx},{'.'.join(map(str, k_))}", hy + extra_hy, e, **meta)
                    for k_, e in zip(wk, weqs)]):
                lemma_hy = lemma_hy + weqs
        T.ob(eng, f"{KEY}#lemma.{rname}.log-likelihood-preserved@class=well-formed|{sfx}", hy + extra_hy + lemma_hy, B["logpdf"] == A["logpdf"] + corr, **meta)
        okpoi = A["poi"] == B["poi"]
        (T.ok if okpoi else T.fail)(f"pdf.py::_ModelConfig#lemma.{rname}.same-poi@class=well-formed|{sfx}", *([] if okpoi else [f"{A['poi']} vs {B['poi']}"]), kind="structure", **meta)
        if "scale" not in extra:
            goals, bad = [], []
            for key, (i0, b0, f0) in A["settings"].items():
                i1, b1, f1 = B["settings"][key]
                if isinstance(f0, bool) and isinstance(f1, bool):
                    if f0 != f1:
                        bad.append(key)
                else:
                    goals.append((z3.BoolVal(f0) if isinstance(f0, bool) else f0) == (z3.BoolVal(f1) if isinstance(f1, bool) else f1))
                goals += [eng.to_real(i0) == eng.to_real(i1), eng.to_real(b0[0]) == eng.to_real(b1[0]), eng.to_real(b0[1]) == eng.to_real(b1[1])]
            if bad:
                T.fail(f"pdf.py::_ModelConfig#lemma.{rname}.suggested-settings-correspond@class=well-formed|{sfx}", f"fixed flags differ for {bad}", **meta)
            else:
                T.ob(eng, f"pdf.py::_ModelConfig#lemma.{rname}.suggested-settings-correspond@class=well-formed|{sfx}", hy, z3.And(*goals), **meta)
    if not results:
        T.fail(f"{KEY}#lemma.{rname}.no-raise@class=well-formed|{tag}", "no path", kind="raises", **meta)


def _replace_leaf(x, old, new):
    if isinstance(x, list):
        for k, v in enumerate(x):
            if z3.is_expr(v) and v.eq(old):
                x[k] = new
            else:
                _replace_leaf(v, old, new)
    elif isinstance(x, dict):
        for k, v in x.items():
            if z3.is_expr(v) and v.eq(old):
                x[k] = new
            else:
                _replace_leaf(v, old, new)


# ---------------------------------------------------------------- frame: the inference code reads the model only through its interface
ALLOWED_MODEL = {"logpdf", "expected_data", "make_pdf", "config", "batch_size", "pdf", "mainlogpdf", "constraint_logpdf", "expected_actualdata", "expected_auxdata"}
ALLOWED_CONFIG = {"suggested_init", "suggested_bounds", "suggested_fixed", "poi_index", "poi_name", "npars", "par_names", "par_order", "par_slice", "param_set",
                  "auxdata", "nmaindata", "nauxdata", "channels", "channel_nbins", "par_map"}


def frame_task(prop, modname):
    def task(T):
        import importlib
        mod = importlib.import_module(modname)
        from pyvc.harness import TaskCtx
        reads = set()
        for tname, fn in mod.tasks("quick"):
            if any(s in tname for s in ("pipeline", "batched", "history", "native")):
                continue
            sub = TaskCtx(prop, tname, "quick", 0)
            try:
                fn(sub)
            except Exception as e:            # the foreign task's own verdict is C05-C09's business
                T.undecided(f"infer#frame.model-read-only-through-its-interface|{prop}:{tname}", f"{type(e).__name__}: {e}")
                continue
            for eng in sub.engines:
                reads |= set(getattr(eng, "attr_reads", set()))
            T.functions.update(sub.functions)
        is_model = lambda o: "(" not in o and (o.endswith("pdf") or o.endswith("model"))
        model_reads = {n for o, n in reads if is_model(o)}
        config_reads = {n for o, n in reads if o.startswith("attr:config(") and o.endswith(")") and is_model(o[len("attr:config("):-1])}
        okm, okc = model_reads <= ALLOWED_MODEL, config_reads <= ALLOWED_CONFIG
        (T.ok if okm else T.fail)(f"infer#frame.model-read-only-through-its-interface|{prop}", *([] if okm else [f"reads {sorted(model_reads - ALLOWED_MODEL)}"]), kind="frame", prop=prop)
        (T.ok if okc else T.fail)(f"infer#frame.configuration-read-only-through-its-accessors|{prop}", *([] if okc else [f"reads {sorted(config_reads - ALLOWED_CONFIG)}"]), kind="frame", prop=prop)
        nonempty = bool(model_reads)
        (T.ok if nonempty else T.fail)(f"infer#frame.reads-observed|{prop}", *([] if nonempty else ["no attribute read of the model observed (vacuous)"]), kind="frame", prop=prop)
    return task


def tasks(tier):
    out = []
    for b, rs in APPLICABLE.items():
        for rn in rs:
            out.append((f"lemma[{b},{rn}]", (lambda b, rn: lambda T: run_pair(T, b, rn, REWRITES[rn]))(b, rn)))
    comps = [("two-channels", "rename", "reorder"), ("two-channels", "split", "rename")] if tier == "quick" else \
        [("two-channels", a, b) for a in ("reorder", "rename", "zero", "split") for b in ("reorder", "rename", "zero", "noop", "rescale") if a != b] + \
        [("lumi-shapefactor", "split", "rename"), ("lumi-shapefactor", "rename", "rescale")]
    for b, r1, r2 in comps:
        out.append((f"lemma[{b},{r1}+{r2}]", (lambda b, r1, r2: lambda T: run_pair(T, b, f"{r1}+{r2}", compose(REWRITES[r1], REWRITES[r2])))(b, r1, r2)))
    for prop, modname in (("C05", "contracts.C05_fits"), ("C06", "contracts.C06_test_statistics"), ("C08", "contracts.C08_hypotest"), ("C09", "contracts.C09_upper_limits")):
        out.append((f"frame[{prop}]", frame_task(prop, modname)))
    return out


# ---------------------------------------------------------------- native replay
def replay(r):
    """native: the rewrite applied to a concrete model; logpdf compared at a parameter point matched by name, and the observed CLs compared"""
    import random
    import numpy as np
    import pyhf
    from .hf_native import concretise
    meta = r.get("meta") or {}
    if "rewrite" not in meta:
        return None
    pyhf.set_backend("numpy")
    skel = BASE[meta["base"]]
    rng = random.Random(5)
    spec = concretise({k: v for k, v in skel.items() if k != "tie"}, rng)
    for a, b in skel.get("tie", []):
        ca, sa, _, na = a.split(".")
        cb, sb, _, nb_ = b.split(".")
        src = next(m for c in spec["channels"] if c["name"] == ca for s in c["samples"] if s["name"] == sa for m in s["modifiers"] if m["name"] == na and m["type"] == "normsys")
        for c in spec["channels"]:
            for s in c["samples"]:
                if c["name"] == cb and s["name"] == sb:
                    for m in s["modifiers"]:
                        if m["name"] == nb_ and m["type"] == "normsys":
                            m["data"] = dict(src["data"])
    bad = {}
    names = meta["rewrite"].split("+")
    rw = REWRITES[names[0]] if len(names) == 1 else compose(REWRITES[names[0]], REWRITES[names[1]])
    kval = 2.5
    try:
        spec2, pmap, cmap, extra = rw(spec, skel.get("poi"))
        extra = extra or {}
        spec2 = _numeric(spec2, kval)
        poi2 = (extra.get("poi") or {}).get(skel.get("poi"), skel.get("poi"))
        mA, mB = pyhf.Model(spec, poi_name=skel.get("poi")), pyhf.Model(spec2, poi_name=poi2)
        pa = np.asarray(mA.config.suggested_init(), dtype=float)
        vals = {}
        for n in mA.config.par_order:
            sl = mA.config.par_slice(n)
            for i in range(sl.stop - sl.start):
                vals[(n, i)] = pa[sl.start + i] * (1.0 + 0.05 * ((sum(map(ord, n)) + i) % 5)) + 0.03
                pa[sl.start + i] = vals[(n, i)]
        pb = np.asarray(mB.config.suggested_init(), dtype=float)
        for n in mB.config.par_order:
            sl = mB.config.par_slice(n)
            for i in range(sl.stop - sl.start):
                key = pmap[n](i) if n in pmap else (n, i)
                if key in vals:
                    pb[sl.start + i] = vals[key] / (kval if extra.get("scale") and n == extra["scale"][0] else 1.0)
                else:
                    pb[sl.start + i] = 0.3
        dvals = {}
        da = []
        for c in mA.config.channels:
            for b_ in range(mA.config.channel_nbins[c]):
                dvals[(c, b_)] = 40.0 + 3.0 * len(da)
                da.append(dvals[(c, b_)])
        da += list(mA.config.auxdata)
        auxA = {}
        off = mA.config.nmaindata
        for n in mA.config.auxdata_order:
            sl = mA.config.par_slice(n)
            for i in range(sl.stop - sl.start):
                auxA[(n, i)] = da[off]
                off += 1
        db = []
        for c in mB.config.channels:
            for b_ in range(mB.config.channel_nbins[c]):
                db.append(dvals[cmap[c](b_) if c in cmap else (c, b_)])
        corr = 0.0
        for n in mB.config.auxdata_order:
            sl = mB.config.par_slice(n)
            for i in range(sl.stop - sl.start):
                key = pmap[n](i) if n in pmap else (n, i)
                if key in auxA:
                    db.append(auxA[key])
                else:
                    db.append(0.0)
                    corr += -0.5 * (0.0 - 0.3) ** 2 - 0.5 * np.log(2 * np.pi)
        la = float(np.asarray(mA.logpdf(pa, np.asarray(da))).ravel()[0])
        lb = float(np.asarray(mB.logpdf(pb, np.asarray(db))).ravel()[0])
        if abs(lb - (la + corr)) > 1e-8 * max(1.0, abs(la)):
            bad["logpdf"] = {"original": la, "rewritten": lb, "expected difference": corr}
    except Exception as e:
        bad["exception"] = f"{type(e).__name__}: {e}"
    return {"reproduced": bool(bad), "disagreements": bad}


def _numeric(x, kval):
    """numeric value of arithmetic over concrete leaves produced by a rewrite on a concrete spec (k_scale := kval, usqrt := sqrt)"""
    if isinstance(x, dict):
        return {k: _numeric(v, kval) for k, v in x.items()}
    if isinstance(x, list):
        return [_numeric(v, kval) for v in x]
    if z3.is_expr(x):
        from pyvc.tensor import Sqrt
        e = z3.substitute(x, (z3.Real("k_scale"), z3.RealVal(repr(kval))))
        e = z3.simplify(e)
        if z3.is_rational_value(e):
            return float(e.numerator_as_long()) / float(e.denominator_as_long())
        if z3.is_app(e) and e.decl().name() == "usqrt":
            return float(_numeric(e.arg(0), kval)) ** 0.5
        if z3.is_algebraic_value(e):
            return float(e.approx(15).as_decimal(15).rstrip("?"))
        raise ValueError(f"cannot evaluate {e}")
    return x
