"""C18 - export to HistFactory XML + ROOT and re-import preserves the statistical model.

(B2, skeleton-bounded, value-unbounded)  For every workspace skeleton (structure fixed, every number an
independent symbol) the REAL writexml.writexml and then the REAL readxml.parse are executed symbolically
against assumed contracts of the I/O libraries (pyvc/iomodel.py: an ElementTree that stores what it is
given, a ROOT file that is a name -> bin contents table, a file system that is a path -> content map,
float(str(x)) == x).  The parsed workspace is compared with the round-trip specification read off the
property statement:
   same channels / samples / nominal yields / observations / POI / constant flags;
   modifier data survive (normsys hi/lo, histosys templates, shapesys and staterror absolute uncertainties
   after the absolute -> relative -> absolute conversion), names survive except staterror (XML dictates
   staterror_<channel>); normfactor init / bounds survive; the luminosity central value AND its absolute
   uncertainty are recovered;
   histories: export A, import, export B into the same directory, import -> B (nothing cached from A);
   export into another directory leaves imports of the first unchanged.
Equality of the likelihood follows from these clauses by C01 / C02 (the model is a function of channels,
samples, yields, modifier types / data / sharing pattern and the constrained-parameter settings)."""
import z3

from pyvc import iomodel
from pyvc.values import PyRaise, Unsupported, is_z
from . import hf_skeleton as K

PROPERTY = "C18"
LEVEL = "proof"
WX, RX = "writexml.py", "readxml.py"
KEY = f"{WX}::writexml+{RX}::parse"
EXPLANATION = ("the real writexml -> readxml.parse code is executed symbolically on workspace skeletons with all numbers symbolic against stated "
               "contracts of ElementTree / uproot / the file system; every clause of the round-trip statement is an equality proved for all numbers; "
               "repeated export / import histories run through the real module-level caches")
TRUSTED = ["xml.etree.ElementTree: Element/append/findall/find/iter/attrib/text store and return what they are given; tostring/parse are inverse (pyvc/iomodel.py)",
           "uproot: recreate truncates, file[name] = (values, edges) stores a histogram without weights, open()[name].to_numpy()[0] returns the stored bin contents as doubles; "
           "a handle opened earlier keeps showing the file as it was when opened",
           "file system: every write gives a file a new (st_mtime_ns, st_size) stamp, i.e. rewritten files are distinguishable by os.stat (assumed; mtime granularity not modelled)",
           "float(str(x)) == x for the numbers written into attributes (CPython repr round trip)",
           "numpy: asarray/array/zeros_like/divide(out, where, dtype)/multiply/sqrt/arange as modelled in pyvc/iomodel.py, incl. the same_kind casting rule of ufunc outputs",
           "pathlib (PurePosixPath semantics), shutil.copyfile (no effect on the result), tqdm (iterates its argument), re.search on concrete names (CPython)",
           "schema validation of the parsed workspace (readxml.parse calls schema.validate) assumed to accept; logging dropped",
           "likelihood equality derived from spec equality modulo the staterror renaming via C01 / C02 (not re-proved here)"]
ASSUMPTIONS = ["exportable workspaces: at most one staterror name per channel, fixed parameters are scalar (lumi, normfactor, normsys, histosys), normfactor settings equal in all "
               "measurements, nominal yields non-zero wherever a relative uncertainty has to be formed (a zero yield with zero uncertainty is covered by a concrete-zero skeleton)",
               "structure bounded by the skeleton list below; numbers unbounded (reals; one skeleton with integer-typed yields)"]

# workspace skeletons: channels as in hf_skeleton, plus measurements
#   measurements: [(name, poi, fixed names)], normfactor_cfg: names with custom init/bounds, lumi_cfg: lumi has a config entry
SKELETONS = [
    ("normfactor-defaults", {"channels": [("c1", 2, [("sig", [("normfactor", "mu")]), ("bkg", [])])],
                             "measurements": [("meas", "mu", [])], "normfactor_cfg": []}),
    ("all-types-lumi-fixed", {"channels": [("c1", 2, [("sig", [("normfactor", "mu"), ("lumi", "lumi"), ("normsys", "n1"), ("histosys", "h1")]),
                                                      ("bkg", [("shapesys", "ss"), ("staterror", "stat_c1"), ("shapefactor", "sf"), ("lumi", "lumi")])])],
                              "measurements": [("meas", "mu", ["n1", "lumi"])], "normfactor_cfg": ["mu"]}),
    ("two-channels-two-measurements", {"channels": [("a", 1, [("sig", [("normfactor", "mu"), ("normsys", "n1")]), ("bkg", [("staterror", "st_a"), ("histosys", "h1"), ("normfactor", "k")])]),
                                                    ("b", 3, [("sig", [("normfactor", "mu"), ("normsys", "n1"), ("staterror", "st_b")]), ("bkg", [("staterror", "st_b"), ("shapesys", "ss")])])],
                                       "measurements": [("m1", "mu", ["h1"]), ("m2", "k", ["mu", "n1"])], "normfactor_cfg": ["k"]}),
    ("lumi-not-fixed-one-sample", {"channels": [("c1", 1, [("sig", [("lumi", "lumi"), ("normfactor", "mu")])])],
                                   "measurements": [("meas", "mu", [])], "normfactor_cfg": ["mu"]}),
    ("zero-yield-zero-uncertainty-bin", {"channels": [("c1", 2, [("sig", [("normfactor", "mu"), ("staterror", "st")]), ("bkg", [("shapesys", "ss"), ("staterror", "st")])])],
                                         "measurements": [("meas", "mu", [])], "normfactor_cfg": [],
                                         "zeros": ["c1.sig.n0", "c1.sig.staterror.st.u0", "c1.bkg.n1", "c1.bkg.shapesys.ss.u1", "c1.bkg.staterror.st.u1"]}),
    ("integer-yields", {"channels": [("c1", 2, [("sig", [("normfactor", "mu"), ("staterror", "st")]), ("bkg", [("shapesys", "ss"), ("histosys", "h1")])])],
                        "measurements": [("meas", "mu", [])], "normfactor_cfg": [], "int_yields": True}),
]
THOROUGH_EXTRA = [
    ("three-channels-mixed", {"channels": [("zz", 2, [("s", [("normfactor", "mu"), ("histosys", "h1"), ("lumi", "lumi")]), ("b", [("normsys", "h1"), ("shapefactor", "sf")])]),
                                           ("aa", 1, [("b", [("staterror", "st"), ("normsys", "n2"), ("lumi", "lumi")])]),
                                           ("mm", 3, [("s", [("normfactor", "mu")]), ("q", [("shapesys", "sq"), ("normfactor", "k")])])],
                              "measurements": [("m1", "mu", ["lumi", "k"]), ("m2", "mu", ["h1", "n2"])], "normfactor_cfg": ["mu", "k"]}),
]


class IntSym(K.Sym):
    """symbol factory whose yields are integer typed (JSON integers), everything else real"""

    def __call__(self, name):
        last = name.rsplit(".", 1)[-1]
        if last.startswith("n") and last[1:].isdigit() or last.startswith("u") and last[1:].isdigit() or last.startswith("obs"):
            v = z3.Int(self.prefix + name)
            self.leaves[self.prefix + name] = v
            return v
        return super().__call__(name)


def build_workspace(skel, prefix=""):
    sym = (IntSym if skel.get("int_yields") else K.Sym)(prefix)
    has_lumi = any(t == "lumi" for _, _, ss in skel["channels"] for _, ms in ss for t, _ in ms)
    sk = {"channels": skel["channels"], "zeros": skel.get("zeros", [])}
    spec, sym = K.build_spec(sk, sym)
    spec.pop("parameters", None)
    sym.leaves.pop(prefix + "lumi.aux", None)
    sym.leaves.pop(prefix + "lumi.sigma", None)
    cfg = {}
    for nf in skel.get("normfactor_cfg", []):
        cfg[nf] = {"inits": [sym(f"cfg.{nf}.init")], "bounds": [[sym(f"cfg.{nf}.lo"), sym(f"cfg.{nf}.hi")]]}
    lumi = {"auxdata": [sym("cfg.lumi.aux")], "sigmas": [sym("cfg.lumi.sigma")], "inits": [sym("cfg.lumi.init")],
            "bounds": [[sym("cfg.lumi.lo"), sym("cfg.lumi.hi")]]} if has_lumi else None
    meas = []
    for mname, poi, fixed in skel["measurements"]:
        pars = []
        names = []
        if lumi is not None:
            names.append("lumi")
        names += [n for n in cfg]
        names += [n for n in fixed if n not in names]
        for n in names:
            p = {"name": n}
            if n == "lumi":
                p.update({k: [list(x) if isinstance(x, list) else x for x in v] for k, v in lumi.items()})
            if n in cfg:
                p.update({"inits": list(cfg[n]["inits"]), "bounds": [list(cfg[n]["bounds"][0])]})
            if n in fixed:
                p["fixed"] = True
            pars.append(p)
        meas.append({"name": mname, "config": {"poi": poi, "parameters": pars}})
    spec["measurements"] = meas
    spec["observations"] = [{"name": c, "data": [sym(f"{c}.obs{b}") for b in range(nb)]} for c, nb, _ in skel["channels"]]
    spec["version"] = "1.0.0"
    return spec, sym


def io_policy():
    pol = K.pipeline_policy()
    pol[("module_attr", "pyhf.schema", "path")] = iomodel.HPath("/pyhf/schemas")
    return pol


def fresh_modules(eng):
    for rel in (RX, WX):
        eng.module(rel).reload()


def export(eng, spec, outdir):
    """what `pyhf json2xml --output-dir outdir` does: writexml, then the top-level document is stored at outdir/FitConfig.xml"""
    f = eng.module(WX).get("writexml")
    top = eng.call(f, [spec, iomodel.HPath(outdir).joinpath("config"), iomodel.HPath(outdir).joinpath("data"), "FitConfig"], {})
    if not isinstance(top, iomodel.Blob):
        raise Unsupported("writexml did not return the serialised Combination element")
    eng.fs.write(f"{outdir}/FitConfig.xml", top)
    return top


def parse(eng, outdir):
    f = eng.module(RX).get("parse")
    return eng.call(f, [f"{outdir}/FitConfig.xml", outdir], {})


# ---------------------------------------------------------------- the round-trip specification
def _numeq(a, b):
    from pyvc.iomodel import _real
    a, b = _real(a), _real(b)
    if not is_z(a) and not is_z(b):
        return z3.BoolVal(abs(float(a) - float(b)) == 0.0)
    return (a if is_z(a) else z3.RealVal(repr(float(a)))) == (b if is_z(b) else z3.RealVal(repr(float(b))))


def _listeq(a, b):
    if not isinstance(a, list) or not isinstance(b, list) or len(a) != len(b):
        return None
    return z3.And(*[_numeq(x, y) for x, y in zip(a, b)]) if a else z3.BoolVal(True)


def compare(T, eng, r, spec, got, sfx, meta):
    """obligations: `got` (parsed) against the round-trip specification of `spec`"""
    hy = r.path.hyps()

    def S(clause, ok, why=""):
        (T.ok if ok else T.fail)(f"{KEY}#{clause}@class=exportable|{sfx}", *([] if ok else [why]), kind="structure", **meta)
        return ok

    def V(clause, goal):
        if goal is None:
            T.fail(f"{KEY}#{clause}@class=exportable|{sfx}", "shape of the parsed data differs", **meta)
        else:
            T.ob(eng, f"{KEY}#{clause}@class=exportable|{sfx}", hy, goal, **meta)
    if not S("roundtrip.result-is-a-workspace", isinstance(got, dict) and all(k in got for k in ("channels", "observations", "measurements")), f"parsed: {type(got).__name__}"):
        return
    och, gch = spec["channels"], got["channels"]
    if not S("roundtrip.channel-names", [c["name"] for c in och] == [c["name"] for c in gch], f"{[c['name'] for c in gch]}"):
        return
    yields, moddata, names_ok, why = [], [], True, ""
    for oc, gc in zip(och, gch):
        if [s["name"] for s in oc["samples"]] != [s["name"] for s in gc["samples"]]:
            S("roundtrip.sample-names", False, f"channel {oc['name']}: {[s['name'] for s in gc['samples']]}")
            return
        for os_, gs in zip(oc["samples"], gc["samples"]):
            yields.append(_listeq(os_["data"], gs["data"]))
            want = {}
            for m in os_["modifiers"]:
                nm = f"staterror_{oc['name']}" if m["type"] == "staterror" else m["name"]
                want[(m["type"], nm)] = m
            have = {(m["type"], m["name"]): m for m in gs["modifiers"]}
            if set(want) != set(have) or len(have) != len(gs["modifiers"]):
                names_ok, why = False, f"{oc['name']}/{os_['name']}: wanted {sorted(want)}, parsed {[(m['type'], m['name']) for m in gs['modifiers']]}"
                continue
            for k, m in want.items():
                g = have[k]
                if m["type"] == "normsys":
                    moddata.append(("normsys", z3.And(_numeq(m["data"]["hi"], g["data"]["hi"]), _numeq(m["data"]["lo"], g["data"]["lo"]))))
                elif m["type"] == "histosys":
                    a, b = _listeq(m["data"]["hi_data"], g["data"]["hi_data"]), _listeq(m["data"]["lo_data"], g["data"]["lo_data"])
                    moddata.append(("histosys", None if a is None or b is None else z3.And(a, b)))
                elif m["type"] in ("shapesys", "staterror"):
                    moddata.append((m["type"], _listeq(m["data"], g["data"])))
                else:
                    if g["data"] is not None:
                        names_ok, why = False, f"{k}: data {g['data']!r}"
    S("roundtrip.sample-names", True)
    S("roundtrip.modifier-types-and-names", names_ok, why)
    V("roundtrip.nominal-yields", None if any(y is None for y in yields) else z3.And(*yields))
    for t in ("normsys", "histosys", "shapesys", "staterror"):
        gs_ = [g for tt, g in moddata if tt == t]
        if gs_:
            V(f"roundtrip.modifier-data.{t}", None if any(g is None for g in gs_) else z3.And(*gs_))
    oo, go = spec["observations"], got["observations"]
    if S("roundtrip.observation-names", [o["name"] for o in oo] == [o["name"] for o in go], f"{[o['name'] for o in go]}"):
        obs = [_listeq(a["data"], b["data"]) for a, b in zip(oo, go)]
        V("roundtrip.observations", None if any(x is None for x in obs) else z3.And(*obs))
    om, gm = spec["measurements"], got["measurements"]
    if not S("roundtrip.measurement-names", [m["name"] for m in om] == [m["name"] for m in gm], f"{[m['name'] for m in gm]}"):
        return
    S("roundtrip.poi", all(a["config"]["poi"] == b["config"]["poi"] for a, b in zip(om, gm)), f"{[m['config']['poi'] for m in gm]}")
    normfactors = sorted({m["name"] for c in och for s in c["samples"] for m in s["modifiers"] if m["type"] == "normfactor"})
    fixed_ok, fwhy, nf, lumi_c, lumi_u, dup = True, "", [], [], [], True
    for a, b in zip(om, gm):
        op_ = {p["name"]: p for p in a["config"]["parameters"]}
        gnames = [p["name"] for p in b["config"]["parameters"]]
        if len(set(gnames)) != len(gnames):
            dup = False
        gp = {p["name"]: p for p in b["config"]["parameters"]}
        for n in sorted(set(op_) | set(gp)):
            fo, fg = bool(op_.get(n, {}).get("fixed", False)), gp.get(n, {}).get("fixed", False)
            if fo is not fg:
                fixed_ok, fwhy = False, f"measurement {a['name']}: parameter {n} fixed={fg!r}, original {fo!r}"
        for n in normfactors:
            o_ = op_.get(n, {})
            init = o_.get("inits", [1.0])[0]
            lo, hi = o_.get("bounds", [[0.0, 10.0]])[0]
            g = gp.get(n)
            if g is None or "inits" not in g or "bounds" not in g:
                nf.append(None)
            else:
                nf.append(z3.And(_numeq(init, g["inits"][0]), _numeq(lo, g["bounds"][0][0]), _numeq(hi, g["bounds"][0][1])))
        if "lumi" in op_:
            g = gp.get("lumi")
            if g is None:
                lumi_c.append(None)
                lumi_u.append(None)
            else:
                lumi_c.append(_listeq(op_["lumi"]["auxdata"], g.get("auxdata")))
                lumi_u.append(_listeq(op_["lumi"]["sigmas"], g.get("sigmas")))
    S("roundtrip.constant-parameter-flags", fixed_ok, fwhy)
    S("roundtrip.one-config-entry-per-parameter", dup, "a parameter is configured twice in a parsed measurement")
    if nf:
        V("roundtrip.normfactor-init-and-bounds", None if any(x is None for x in nf) else z3.And(*nf))
    if lumi_c:
        V("roundtrip.lumi-central-value", None if any(x is None for x in lumi_c) else z3.And(*lumi_c))
        V("roundtrip.lumi-uncertainty", None if any(x is None for x in lumi_u) else z3.And(*lumi_u))


def _assume_domain(eng, sym, skel):
    """exportable workspaces: a relative uncertainty can only be formed for a non-zero yield, a relative luminosity
    uncertainty for a non-zero luminosity; nothing else is assumed about the numbers (any sign, any size)"""
    for name, v in sym.leaves.items():
        last = name.rsplit(".", 1)[-1]
        if (last.startswith("n") and last[1:].isdigit()) or name.endswith("cfg.lumi.aux"):
            eng.assume(v != 0)


def run_roundtrip(T, name, skel):
    eng = T.engine(io_policy())
    eng.fs = iomodel.install(eng)
    for k in (f"{WX}::writexml", f"{WX}::build_channel", f"{WX}::build_sample", f"{WX}::build_modifier", f"{WX}::build_data", f"{WX}::build_measurement",
              f"{WX}::_export_root_histogram", f"{WX}::_make_hist_name", f"{WX}::indent",
              f"{RX}::parse", f"{RX}::process_channel", f"{RX}::process_sample", f"{RX}::process_data", f"{RX}::process_measurements",
              f"{RX}::import_root_histogram", f"{RX}::extract_error", f"{RX}::dedupe_parameters", f"{RX}::resolver_factory",
              "compat.py::interpret_rootname"):
        T.under_contract(eng, k)
    box = {}

    def thunk():
        fresh_modules(eng)
        eng.fs.clear()
        spec, sym = build_workspace(skel)
        _assume_domain(eng, sym, skel)
        box["spec"] = spec
        box["leaves"] = dict(sym.leaves)
        export(eng, spec, "/out")
        return parse(eng, "/out")
    results = eng.explore(thunk)
    T.absorb(eng, results)
    meta = dict(skeleton=name, inputs=box.get("leaves", {}))
    for k, r in enumerate(results):
        sfx = f"{name},path{k}"
        if r.kind != "return":
            T.fail(f"{KEY}#roundtrip.no-raise@class=exportable|{sfx}", f"raises {r.exc_name} {getattr(r.value, 'eargs', '')}", kind="raises", **meta)
            continue
        T.ok(f"{KEY}#roundtrip.no-raise@class=exportable|{sfx}", kind="raises", **meta)
        compare(T, eng, r, box["spec"], r.value, sfx, meta)
    if not results:
        T.fail(f"{KEY}#roundtrip.no-raise@class=exportable|{name}", "no path", kind="raises", **meta)


def run_history(T, name, skel, mode):
    """mode 'same-dir': export A -> import -> export B (same structure, independent numbers) into the SAME directory -> import
       must give B.  mode 'other-dir': export A to /d1 -> import -> export B to /d2 -> import /d2 gives B and import /d1 still gives A.
       mode 'restore-older': as same-dir, then the files of the first export are restored with their old time stamps -> import gives A."""
    eng = T.engine(io_policy())
    eng.fs = iomodel.install(eng)
    T.under_contract(eng, f"{RX}::import_root_histogram")
    T.under_contract(eng, f"{RX}::parse")
    T.under_contract(eng, f"{WX}::writexml")
    box = {}

    def thunk():
        fresh_modules(eng)
        eng.fs.clear()
        A, symA = build_workspace(skel, "A.")
        Bs, symB = build_workspace(skel, "B.")
        _assume_domain(eng, symA, skel)
        _assume_domain(eng, symB, skel)
        box.update(A=A, B=Bs, leaves={**symA.leaves, **symB.leaves})
        d2 = "/other" if mode == "other-dir" else "/out"
        export(eng, A, "/out")
        saved = eng.fs.backup()
        first = parse(eng, "/out")
        export(eng, Bs, d2)
        second = parse(eng, d2)
        if mode == "restore-older":
            eng.fs.restore(saved)          # the files of the first export are put back with their (older) time stamps
        third = parse(eng, "/out")
        return first, second, third
    results = eng.explore(thunk)
    T.absorb(eng, results)
    meta = dict(skeleton=name, history=mode, inputs=box.get("leaves", {}))
    for k, r in enumerate(results):
        sfx = f"{name},{mode},path{k}"
        if r.kind != "return":
            T.fail(f"{KEY}#history.no-raise@class=exportable|{sfx}", f"raises {r.exc_name} {getattr(r.value, 'eargs', '')}", kind="raises", **meta)
            continue
        first, second, third = r.value
        hy = r.path.hyps()

        def same_numbers(ws, got):
            eqs = []
            for oc, gc in zip(ws["channels"], got["channels"]):
                for os_, gs in zip(oc["samples"], gc["samples"]):
                    eqs.append(_listeq(os_["data"], gs["data"]))
            for a, b in zip(ws["observations"], got["observations"]):
                eqs.append(_listeq(a["data"], b["data"]))
            return None if any(e is None for e in eqs) else z3.And(*eqs)
        for clause, ws, got in (("history.first-import", box["A"], first), ("history.import-after-second-export-reads-the-new-files", box["B"], second),
                                ("history.reimport-reads-the-current-files", box["B"] if mode == "same-dir" else box["A"], third)):
            goal = same_numbers(ws, got)
            if goal is None:
                T.fail(f"{KEY}#{clause}@class=exportable|{sfx}", "shape of the parsed data differs", **meta)
            else:
                T.ob(eng, f"{KEY}#{clause}@class=exportable|{sfx}", hy, goal, **meta)
    if not results:
        T.fail(f"{KEY}#history.no-raise@class=exportable|{name},{mode}", "no path", kind="raises", **meta)


def t_rootnames(T):
    """compat: paramset_to_rootnames / interpret_rootname are inverse on scalar parameters and on Lumi (concrete names, bounded);
    the prefix table of build_measurement agrees with interpret_rootname for every scalar modifier type"""
    eng = T.engine(io_policy())
    eng.fs = iomodel.install(eng)
    f = T.under_contract(eng, "compat.py::interpret_rootname")
    cases = fails = 0
    for nm in ("mu", "syst_1", "alpha", "k_alpha_x", "x_gamma"):
        for pref, constrained in (("alpha_", True), ("", False)):
            res = eng.explore(lambda: eng.call(f, [pref + nm], {}))
            cases += 1
            ok = len(res) == 1 and res[0].kind == "return" and res[0].value["name"] == nm and res[0].value["is_scalar"] is True and res[0].value["constrained"] is constrained
            fails += 0 if ok else 1
    res = eng.explore(lambda: eng.call(f, ["Lumi"], {}))
    cases += 1
    fails += 0 if (len(res) == 1 and res[0].kind == "return" and res[0].value["name"] == "lumi" and res[0].value["is_scalar"] is True) else 1
    T.bounded_block("interpret_rootname inverts the ROOT-style prefixes", "11 concrete names", cases, fails)
    (T.ok if not fails else T.fail)("compat.py::interpret_rootname#bounded.inverts-prefixes", *([] if not fails else [f"{fails} of {cases} names misread"]), kind="bounded")


def tasks(tier):
    sk = SKELETONS + (THOROUGH_EXTRA if tier != "quick" else [])
    out = [(f"roundtrip[{n}]", (lambda n, s: lambda T: run_roundtrip(T, n, s))(n, s)) for n, s in sk]
    hist = [SKELETONS[0], SKELETONS[2]] if tier == "quick" else sk[:4] + THOROUGH_EXTRA
    for n, s in hist:
        for mode in ("same-dir", "other-dir", "restore-older"):
            out.append((f"history[{n},{mode}]", (lambda n, s, mode: lambda T: run_history(T, n, s, mode))(n, s, mode)))
    out.append(("rootnames", t_rootnames))
    return out


# ---------------------------------------------------------------- native replay (real uproot, real files)
def _num(v):
    if isinstance(v, dict):
        if "num" in v:
            return v["num"] / v["den"]
        return float(str(v.get("approx", "0")).rstrip("?"))
    return v


def concrete_workspace(skel, seed, lumi=None, overrides=None, prefix=""):
    """a concrete instance of the skeleton; `overrides` (solver counter-model: leaf name -> value) take precedence"""
    import random
    rng = random.Random(seed)
    spec, sym = build_workspace(skel, prefix)
    overrides = overrides or {}
    is_int = bool(skel.get("int_yields"))
    vals = {}

    def val(v):
        if not is_z(v):
            return v
        full = str(v)
        key = full[len(prefix):] if prefix and full.startswith(prefix) else full
        if full in overrides and isinstance(_num(overrides[full]), (int, float)):
            x = _num(overrides[full])
            return int(x) if v.is_int() else float(x)
        if key not in vals:
            last = key.rsplit(".", 1)[-1]
            if key == "cfg.lumi.aux":
                x = lumi if lumi is not None else 2.5
            elif key == "cfg.lumi.sigma":
                x = 0.05
            elif key == "cfg.lumi.init":
                x = 2.5
            elif key.endswith(".lo") and key.startswith("cfg."):
                x = round(rng.uniform(-3.0, 0.0), 3) if not key.startswith("cfg.lumi") else 0.5
            elif key.endswith(".hi") and key.startswith("cfg."):
                x = round(rng.uniform(4.0, 20.0), 3) if not key.startswith("cfg.lumi") else 7.5
            elif key.endswith(".init"):
                x = round(rng.uniform(0.5, 3.0), 3)
            elif last in ("hi", "lo"):
                x = round(rng.uniform(0.7, 1.3), 3)
            elif v.is_int():
                x = rng.randint(3, 60)
            else:
                x = round(rng.uniform(3.0, 60.0), 3)
                if last.startswith("u"):
                    x = round(rng.uniform(0.5, 4.0), 3)
            vals[key] = x
        return vals[key]

    def walk(x):
        if isinstance(x, list):
            return [walk(y) for y in x]
        if isinstance(x, dict):
            return {k: walk(v) for k, v in x.items()}
        return val(x)
    return walk(spec)


def native_roundtrip(ws, outdir):
    import pathlib
    import pyhf.readxml
    import pyhf.writexml
    out = pathlib.Path(outdir)
    (out / "config").mkdir(parents=True, exist_ok=True)
    (out / "data").mkdir(parents=True, exist_ok=True)
    top = pyhf.writexml.writexml(ws, out / "config", out / "data", "FitConfig")
    (out / "FitConfig.xml").write_bytes(top)
    return pyhf.readxml.parse(str(out / "FitConfig.xml"), str(out))


def native_diff(ws, got, tol=1e-9):
    """differences between a parsed workspace and the round-trip specification of ws (same clauses as `compare`)"""
    bad = {}

    def close(a, b):
        if isinstance(a, list) and isinstance(b, list):
            return len(a) == len(b) and all(close(x, y) for x, y in zip(a, b))
        if isinstance(a, (int, float)) and isinstance(b, (int, float)):
            return abs(a - b) <= tol * max(1.0, abs(a), abs(b))
        return a == b
    if [c["name"] for c in ws["channels"]] != [c["name"] for c in got["channels"]]:
        bad["channel-names"] = [c["name"] for c in got["channels"]]
        return bad
    for oc, gc in zip(ws["channels"], got["channels"]):
        if [s["name"] for s in oc["samples"]] != [s["name"] for s in gc["samples"]]:
            bad[f"sample-names:{oc['name']}"] = [s["name"] for s in gc["samples"]]
            continue
        for os_, gs in zip(oc["samples"], gc["samples"]):
            if not close(os_["data"], gs["data"]):
                bad[f"nominal-yields:{oc['name']}/{os_['name']}"] = {"written": os_["data"], "read": gs["data"]}
            want = {(m["type"], f"staterror_{oc['name']}" if m["type"] == "staterror" else m["name"]): m for m in os_["modifiers"]}
            have = {(m["type"], m["name"]): m for m in gs["modifiers"]}
            if set(want) != set(have):
                bad[f"modifiers:{oc['name']}/{os_['name']}"] = {"wanted": sorted(map(str, want)), "read": sorted(map(str, have))}
                continue
            for k, m in want.items():
                if not close(m["data"], have[k]["data"]):
                    bad[f"modifier-data:{oc['name']}/{os_['name']}/{k[0]}:{k[1]}"] = {"written": m["data"], "read": have[k]["data"]}
    for a, b in zip(ws["observations"], got["observations"]):
        if a["name"] != b["name"] or not close(a["data"], b["data"]):
            bad[f"observations:{a['name']}"] = {"written": a, "read": b}
    if [m["name"] for m in ws["measurements"]] != [m["name"] for m in got["measurements"]]:
        bad["measurement-names"] = [m["name"] for m in got["measurements"]]
        return bad
    normfactors = sorted({m["name"] for c in ws["channels"] for s in c["samples"] for m in s["modifiers"] if m["type"] == "normfactor"})
    for a, b in zip(ws["measurements"], got["measurements"]):
        if a["config"]["poi"] != b["config"]["poi"]:
            bad[f"poi:{a['name']}"] = b["config"]["poi"]
        op_ = {p["name"]: p for p in a["config"]["parameters"]}
        gp = {p["name"]: p for p in b["config"]["parameters"]}
        for n in sorted(set(op_) | set(gp)):
            if bool(op_.get(n, {}).get("fixed", False)) != bool(gp.get(n, {}).get("fixed", False)):
                bad[f"fixed:{a['name']}/{n}"] = {"written": op_.get(n, {}).get("fixed", False), "read": gp.get(n, {}).get("fixed", False)}
        for n in normfactors:
            o_ = op_.get(n, {})
            want = (o_.get("inits", [1.0]), o_.get("bounds", [[0.0, 10.0]]))
            g = gp.get(n, {})
            if not close(list(want[0]), g.get("inits")) or not close([list(want[1][0])], g.get("bounds")):
                bad[f"normfactor-settings:{a['name']}/{n}"] = {"written": want, "read": (g.get("inits"), g.get("bounds"))}
        if "lumi" in op_:
            g = gp.get("lumi", {})
            if not close(op_["lumi"]["auxdata"], g.get("auxdata")):
                bad[f"lumi-central-value:{a['name']}"] = {"written": op_["lumi"]["auxdata"], "read": g.get("auxdata")}
            if not close(op_["lumi"]["sigmas"], g.get("sigmas")):
                bad[f"lumi-uncertainty:{a['name']}"] = {"written": op_["lumi"]["sigmas"], "read": g.get("sigmas")}
    return bad


def native_logpdf_diff(ws, got):
    """the two workspaces' models assign the same log-likelihood at a common parameter point (parameters matched by name)"""
    import numpy as np
    import pyhf
    pyhf.set_backend("numpy")
    bad = {}
    for k, meas in enumerate(ws["measurements"]):
        w1, w2 = pyhf.Workspace(ws), pyhf.Workspace(got)
        m1, m2 = w1.model(measurement_name=meas["name"]), w2.model(measurement_name=meas["name"])
        d1, d2 = w1.data(m1), w2.data(m2)
        rng = np.random.default_rng(k)
        p1 = np.asarray(m1.config.suggested_init(), dtype=float) * rng.uniform(0.8, 1.2, size=m1.config.npars)
        p2 = np.zeros(m2.config.npars)
        ren = {}
        for c in ws["channels"]:
            for s in c["samples"]:
                for m in s["modifiers"]:
                    ren[m["name"]] = f"staterror_{c['name']}" if m["type"] == "staterror" else m["name"]
        try:
            for n in m1.config.par_order:
                p2[m2.config.par_slice(ren.get(n, n))] = p1[m1.config.par_slice(n)]
            # auxiliary data are matched by parameter too
            a1 = np.asarray(d1[m1.config.nmaindata:], dtype=float)
            a2 = np.zeros(m2.config.nauxdata)
            o1 = o2 = 0
            off1, off2 = {}, {}
            for n in m1.config.auxdata_order:
                w = m1.config.param_set(n).n_parameters if m1.config.param_set(n).pdf_type != "poisson" or True else 0
                off1[n] = (o1, o1 + len(m1.config.param_set(n).auxdata))
                o1 += len(m1.config.param_set(n).auxdata)
            for n in m2.config.auxdata_order:
                off2[n] = (o2, o2 + len(m2.config.param_set(n).auxdata))
                o2 += len(m2.config.param_set(n).auxdata)
            for n, (lo, hi) in off1.items():
                l2, h2 = off2[ren.get(n, n)]
                a2[l2:h2] = a1[lo:hi]
            dd2 = np.concatenate([np.asarray(d1[:m1.config.nmaindata], dtype=float), a2])
            l1 = float(np.asarray(m1.logpdf(p1, np.asarray(d1, dtype=float))).ravel()[0])
            l2_ = float(np.asarray(m2.logpdf(p2, dd2)).ravel()[0])
            if not abs(l1 - l2_) <= 1e-8 * max(1.0, abs(l1)):
                bad[f"logpdf:{meas['name']}"] = {"original": l1, "round-tripped": l2_}
        except Exception as e:
            bad[f"logpdf:{meas['name']}"] = f"{type(e).__name__}: {e}"
    return bad


def replay(r):
    import shutil
    import tempfile
    import pyhf.readxml
    meta = r.get("meta") or {}
    name = meta.get("skeleton")
    skel = dict(SKELETONS + THOROUGH_EXTRA).get(name)
    if skel is None:
        return None
    bad = {}
    tmp = tempfile.mkdtemp(prefix="c18_")
    try:
        pyhf.readxml.clear_filecache()
        mode = meta.get("history")
        model = r.get("model") or {}
        if mode is None:
            trials = [("counter-model", concrete_workspace(skel, 1, None, overrides=model))] if model else []
            trials += [(f"seed{seed},lumi={lumi}", concrete_workspace(skel, seed, lumi)) for seed, lumi in ((1, 2.5), (2, 1.0))]
            for k, (tag, ws) in enumerate(trials):
                try:
                    got = native_roundtrip(ws, f"{tmp}/s{k}")
                except Exception as e:
                    bad[f"{tag}:raises"] = f"{type(e).__name__}: {e}"
                    continue
                d = native_diff(ws, got)
                if not d:
                    d = native_logpdf_diff(ws, got)
                for kk, v in d.items():
                    bad[f"{tag}:{kk}"] = v
        else:
            # (the solver's counter-model is not used here: any two different workspaces of the skeleton show a stale read)
            A = concrete_workspace(skel, 1, prefix="A.")
            Bw = concrete_workspace(skel, 2, prefix="B.")
            if True:
                # prefer a second workspace whose ROOT file has the same size as the first one's (only the yields change):
                # size is then no help in telling the two exports apart
                import os
                native_roundtrip(A, f"{tmp}/probeA")
                size_a = os.path.getsize(f"{tmp}/probeA/data/data.root")
                for sd in range(2, 40):
                    cand = concrete_workspace(skel, sd, prefix="B.")
                    native_roundtrip(cand, f"{tmp}/probeB{sd}")
                    if os.path.getsize(f"{tmp}/probeB{sd}/data/data.root") == size_a and native_diff(A, cand):
                        Bw = cand
                        break
                pyhf.readxml.clear_filecache()
            d2 = f"{tmp}/other" if mode == "other-dir" else f"{tmp}/out"
            # both exports within one wall-clock second (the fast-rewrite case): start right after a second boundary
            import time
            time.sleep(1.0 - (time.time() % 1.0) + 0.02)
            first = native_roundtrip(A, f"{tmp}/out")
            shutil.copytree(f"{tmp}/out", f"{tmp}/backup", copy_function=shutil.copy2)
            second = native_roundtrip(Bw, d2)
            if mode == "restore-older":
                shutil.rmtree(f"{tmp}/out")
                shutil.copytree(f"{tmp}/backup", f"{tmp}/out", copy_function=shutil.copy2)
            third = pyhf.readxml.parse(f"{tmp}/out/FitConfig.xml", f"{tmp}/out")
            for tag, ws, got in (("first-import", A, first), ("import-after-second-export", Bw, second),
                                 ("reimport", Bw if mode == "same-dir" else A, third)):
                for k, v in native_diff(ws, got).items():
                    if k.startswith(("nominal-yields", "observations", "modifier-data")):
                        bad[f"{tag}:{k}"] = v
    finally:
        shutil.rmtree(tmp, ignore_errors=True)
        pyhf.readxml.clear_filecache()
    return {"reproduced": bool(bad), "disagreements": bad}
