"""C19 - the command line returns what the library returns.

Every click command body is executed symbolically on the current source.  Option values are opaque
objects OPT:<name>; file I/O, json, click.echo/open_file and all library calls are uninterpreted and
logged.  Obligations per command (table FORWARD written from the help texts / documented semantics):
  fwd.<option>      the option reaches the library parameter it documents (identity of terms), or, where
                    the value is derived (opened, parsed, dict()-ed), the argument data-depends on the
                    option and on no unrelated option;
  uses.<option>     every declared option is used on every successful path;
  calls.<call>      no successful path skips the library call;
  order.*           backend / optimiser are set before the inference call; "All good." only after verify;
  out.*             file and stdout branches serialise the same object with the same indent/sort_keys;
                    the emitted object is the stated function of the library result;
  exc.no-swallow    no try/except around a library call (the documented ImportError probe excepted).
click's own option parsing is assumed (same-named parameters receive the parsed values)."""
import ast

import z3

from pyvc.values import (NativeFn, Obj, PyRaise, SymList, Unsupported, is_obj, is_z, isnone_of, str_of, truthy_of, ufunc, real_of)
from .common import typed_opaque

PROPERTY = "C19"
LEVEL = "proof"
EXPLANATION = ("each of the 14 click command bodies is executed symbolically with opaque option values and uninterpreted, logged library "
               "calls; forwarding, use-of-every-option, no-swallowed-exception, ordering and file==stdout clauses are discharged as term "
               "identities / data-dependence facts over the logged calls")
TRUSTED = ["click delivers parsed option values to same-named parameters (decorators are not executed)",
           "loops over option tuples / opaque sequences are executed once with a generic element (dataflow abstraction)",
           "library calls are uninterpreted: what they return is decided by C05-C09, C16-C18",
           "events.register wrapper around set_backend (change_backend::before/after triggers) is not executed"]
ASSUMPTIONS = ["'exits successfully exactly when the library call succeeds' is decided as: no handler swallows a library exception and no successful path skips the call",
               "EqDelimStringParamType/options_from_eqdelimstring string handling is checked by a bounded CrossHair-free enumeration in C19 thorough tier only"]


MULTI = {"patch", "optconf", "algorithm", "mount"}          # click options declared multiple=True whose values are consumed one by one


def OPT(eng, name):
    if name in MULTI:
        # a multi-valued option: two generic values (loops over it run twice, so loop-carried effects are visible)
        return tuple(z3.Const(f"OPT:{name}[{k}]", Obj) for k in range(2))
    o = z3.Const("OPT:" + name, Obj)
    eng.assume(z3.Implies(isnone_of(o), z3.Not(truthy_of(o))))
    return o


def occurs(eng, value, sym):
    """data dependence: the option symbol occurs in the (boxed) value (for a multi-valued option: every one of its values)"""
    if isinstance(sym, tuple):
        return all(occurs(eng, value, s_) for s_ in sym)
    try:
        t = eng.box(value) if not is_z(value) else value
    except Unsupported:
        return False
    seen, stack = set(), [t]
    while stack:
        x = stack.pop()
        if x.get_id() in seen:
            continue
        seen.add(x.get_id())
        if x.eq(sym):
            return True
        if z3.is_quantifier(x):
            stack.append(x.body())
        elif z3.is_app(x):
            stack.extend(x.children())
    return False


# ------------------------------------------------------------------ library side (uninterpreted, logged)
def lib_policy():
    def ws_ctor(eng, call):
        k = len([c for c in eng.path.calls if c.target == "workspace.py::Workspace"])
        name = f"ws{k}"
        call.name = name

        def m(tag):
            def h(e, c):
                return e._opaque_apply(z3.Const(f"ref:{name}.{tag}", Obj), c.args, c.kwargs)
            return h
        return typed_opaque(eng, name, {t: m(t) for t in ("model", "data", "get_measurement", "prune", "rename", "get")},
                            term=eng._opaque_apply(z3.Const("ref:Workspace", Obj), call.args, call.kwargs))

    def ps_ctor(eng, call):
        name = "patchset"

        def m(tag):
            def h(e, c):
                return e._opaque_apply(z3.Const(f"ref:{name}.{tag}", Obj), c.args, c.kwargs)
            return h
        return typed_opaque(eng, name, {t: m(t) for t in ("apply", "verify")},
                            term=eng._opaque_apply(z3.Const("ref:PatchSet", Obj), call.args, call.kwargs))

    def hypotest(eng, call):
        if call.kwargs.get("return_expected_set") is True and not any(call.kwargs.get(k) for k in ("return_tail_probs", "return_expected", "return_calculator")):
            return (eng.real("CLs_obs"), [eng.real(f"CLs_exp{k}") for k in range(5)])
        return eng._opaque_apply(z3.Const("ref:hypotest", Obj), call.args, call.kwargs)

    def opaque(tag):
        def h(eng, call):
            return eng._opaque_apply(z3.Const("ref:" + tag, Obj), call.args, call.kwargs)
        return h
    return {
        "workspace.py::Workspace": ws_ctor,
        "patchset.py::PatchSet": ps_ctor,
        "workspace.py::Workspace.combine": opaque("Workspace.combine"),
        "workspace.py::Workspace.sorted": opaque("Workspace.sorted"),
        "infer/__init__.py::hypotest": hypotest,
        "infer/mle.py::fit": opaque("mle.fit"),
        "tensor/manager.py::set_backend": lambda eng, call: None,
        "utils.py::digest": opaque("utils.digest"),
        "readxml.py::parse": opaque("readxml.parse"),
        "writexml.py::writexml": opaque("writexml.writexml"),
        "optimize/opt_scipy.py::scipy_optimizer": opaque("scipy_optimizer"),
        "optimize/opt_minuit.py::minuit_optimizer": opaque("minuit_optimizer"),
        "optimize/__init__.py::_OptimizerRetriever.__getattr__": "inline",
        "generic_iteration": True,
        # get_backend() returns the backend that is current at the time of the call: one opaque value per number of earlier set_backend calls
        ("module_attr", "pyhf", "get_backend"): NativeFn("get_backend", current_backend, wants_engine=True),
        ("module_attr", "pyhf.tensor.manager", "get_backend"): NativeFn("get_backend", current_backend, wants_engine=True),
    }


def current_backend(eng, default=False):
    k = len([c for c in eng.path.calls if c.target == "tensor/manager.py::set_backend"])
    rec = eng.log_call("get_backend", [], {})
    tl = z3.Const(f"tensorlib_after_{k}_switches", Obj)
    # tolist / astensor of the backend are value-preserving conversions (C04): identity on the library's result objects
    eng.set_iface(tl, {"tolist": lambda e, self_obj, x: x, "astensor": lambda e, self_obj, x, **kw: x})
    rec.result = (tl, z3.Const(f"optimizer_after_{k}_switches", Obj))
    return rec.result


LIB_TARGETS = {"workspace.py::Workspace", "patchset.py::PatchSet", "workspace.py::Workspace.combine", "workspace.py::Workspace.sorted",
               "infer/__init__.py::hypotest", "infer/mle.py::fit", "tensor/manager.py::set_backend", "utils.py::digest", "readxml.py::parse",
               "writexml.py::writexml"}


def calls(path, target):
    out = []
    for c in path.calls:
        t = c.target
        if t == target:
            out.append(c)
        elif isinstance(t, tuple) and t[0] == "method" and isinstance(target, tuple) and t[1:] == target:
            out.append(c)
        elif isinstance(t, tuple) and t[0] == "method" and isinstance(target, str) and target.startswith(".") and t[2] == target[1:]:
            out.append(c)
    return out


# ------------------------------------------------------------------ command table
BACKEND_TABLE = {"numpy": None, "np": None, "pytorch": ("pytorch", "64b"), "torch": ("pytorch", "64b"),
                 "tensorflow": ("tensorflow", "64b"), "tf": ("tensorflow", "64b"), "jax": ("jax", None)}

# (command key, enumerated options, [(option, call target, parameter (index, name), mode)], main calls, output spec)
COMMANDS = {
    "cli/infer.py::cls": dict(
        enum={"backend": list(BACKEND_TABLE), "optimizer": ["scipy", "minuit"]},
        forward=[("measurement", ".model", (None, "measurement_name"), "identity"),
                 ("patch", ".model", (None, "patches"), "depends"),
                 ("test_poi", "infer/__init__.py::hypotest", (0, "poi_test"), "identity"),
                 ("test_stat", "infer/__init__.py::hypotest", (None, "test_stat"), "identity"),
                 ("calctype", "infer/__init__.py::hypotest", (None, "calctype"), "identity"),
                 ("workspace", "workspace.py::Workspace", (0, "spec"), "depends")],
        main=["workspace.py::Workspace", ".model", ".data", "infer/__init__.py::hypotest"],
        inference="infer/__init__.py::hypotest", output="json"),
    "cli/infer.py::fit": dict(
        enum={"backend": list(BACKEND_TABLE), "optimizer": ["scipy", "minuit"]},
        forward=[("measurement", ".model", (None, "measurement_name"), "identity"),
                 ("patch", ".model", (None, "patches"), "depends"),
                 ("value", "infer/mle.py::fit", (None, "return_fitted_val"), "identity"),
                 ("workspace", "workspace.py::Workspace", (0, "spec"), "depends")],
        main=["workspace.py::Workspace", ".model", ".data", "infer/mle.py::fit"],
        inference="infer/mle.py::fit", output="json"),
    "cli/spec.py::inspect": dict(
        enum={},
        forward=[("workspace", "workspace.py::Workspace", (0, "spec"), "depends"),
                 ("measurement", ".model", (None, "measurement_name"), "identity")],
        main=["workspace.py::Workspace", ".model"], output="json-if-file"),
    "cli/spec.py::prune": dict(
        enum={},
        forward=[("channel", ".prune", (None, "channels"), "identity"), ("sample", ".prune", (None, "samples"), "identity"),
                 ("modifier", ".prune", (None, "modifiers"), "identity"), ("modifier_type", ".prune", (None, "modifier_types"), "identity"),
                 ("measurement", ".prune", (None, "measurements"), "identity"), ("workspace", "workspace.py::Workspace", (0, "spec"), "depends")],
        main=["workspace.py::Workspace", ".prune"], output="json"),
    "cli/spec.py::rename": dict(
        enum={},
        forward=[("channel", ".rename", (None, "channels"), "depends-only"), ("sample", ".rename", (None, "samples"), "depends-only"),
                 ("modifier", ".rename", (None, "modifiers"), "depends-only"), ("measurement", ".rename", (None, "measurements"), "depends-only"),
                 ("workspace", "workspace.py::Workspace", (0, "spec"), "depends")],
        main=["workspace.py::Workspace", ".rename"], output="json"),
    "cli/spec.py::combine": dict(
        enum={},
        forward=[("join", "workspace.py::Workspace.combine", (None, "join"), "identity"),
                 ("merge_channels", "workspace.py::Workspace.combine", (None, "merge_channels"), "identity"),
                 ("workspace_one", "workspace.py::Workspace.combine", (1, "left"), "depends-only"),
                 ("workspace_two", "workspace.py::Workspace.combine", (2, "right"), "depends-only")],
        main=["workspace.py::Workspace", "workspace.py::Workspace.combine"], output="json"),
    "cli/spec.py::digest": dict(
        enum={},
        forward=[("algorithm", "utils.py::digest", (None, "algorithm"), "depends"), ("workspace", "utils.py::digest", (0, "obj"), "depends")],
        main=["workspace.py::Workspace", "utils.py::digest"], output="echo"),
    "cli/spec.py::sort": dict(
        enum={},
        forward=[("workspace", "workspace.py::Workspace.sorted", (1, "workspace"), "depends")],
        main=["workspace.py::Workspace", "workspace.py::Workspace.sorted"], output="json"),
    "cli/patchset.py::extract": dict(
        enum={},
        forward=[("patchset", "patchset.py::PatchSet", (0, "spec"), "depends")],
        main=["patchset.py::PatchSet"], output="json-truthy"),
    "cli/patchset.py::apply": dict(
        enum={},
        forward=[("name", ".apply", (1, "key"), "identity"), ("background_only", ".apply", (0, "spec"), "depends-only"),
                 ("patchset", "patchset.py::PatchSet", (0, "spec"), "depends-only")],
        main=["patchset.py::PatchSet", "workspace.py::Workspace", ".apply"], output="json-truthy"),
    "cli/patchset.py::verify": dict(
        enum={},
        forward=[("background_only", ".verify", (0, "spec"), "depends-only"), ("patchset", "patchset.py::PatchSet", (0, "spec"), "depends-only")],
        main=["patchset.py::PatchSet", "workspace.py::Workspace", ".verify"], output="echo"),
    "cli/patchset.py::inspect": dict(
        enum={}, forward=[("patchset", "patchset.py::PatchSet", (0, "spec"), "depends")], main=["patchset.py::PatchSet"], output="echo"),
    "cli/rootio.py::xml2json": dict(
        enum={},
        forward=[("entrypoint_xml", "readxml.py::parse", (0, "configfile"), "identity"), ("basedir", "readxml.py::parse", (1, "rootdir"), "identity"),
                 ("mount", "readxml.py::parse", (None, "mounts"), "identity"), ("track_progress", "readxml.py::parse", (None, "track_progress"), "identity"),
                 ("validation_as_error", "readxml.py::parse", (None, "validation_as_error"), "identity")],
        main=["readxml.py::parse"], output="json"),
    "cli/rootio.py::json2xml": dict(
        enum={},
        forward=[("workspace", "writexml.py::writexml", (0, "spec"), "depends"), ("patch", "writexml.py::writexml", (0, "spec"), "depends"),
                 ("specroot", "writexml.py::writexml", (1, "specdir"), "depends"), ("output_dir", "writexml.py::writexml", (1, "specdir"), "depends"),
                 ("dataroot", "writexml.py::writexml", (2, "data_rootdir"), "depends"), ("output_dir", "writexml.py::writexml", (2, "data_rootdir"), "depends"),
                 ("resultprefix", "writexml.py::writexml", (3, "resultprefix"), "identity")],
        main=["writexml.py::writexml"], output="file-write"),
}


def params_of(f):
    return [p.arg for p in f.node.args.args]


def run_case(T, key, spec, enumvals):
    eng = T.engine(lib_policy())
    f = T.under_contract(eng, key)
    names = params_of(f)
    box = {}

    def thunk():
        opts = {}
        for n in names:
            opts[n] = enumvals[n] if n in enumvals else OPT(eng, n)
        box["opts"] = opts
        return eng.call_function(f, [opts[n] for n in names], {}, force_inline=True)
    results = eng.explore(thunk)
    T.absorb(eng, results)
    return eng, f, names, box.get("opts", {}), results


def first_call_index(path, target):
    cs = calls(path, target)
    return cs[0].seq if cs else None


def t_command(key):
    spec = COMMANDS[key]

    def task(T):
        import itertools
        enum_names = list(spec["enum"])
        combos = list(itertools.product(*[spec["enum"][n] for n in enum_names])) or [()]
        short = key.split("::")[1]
        # --- exc.no-swallow: AST scan of the command body
        eng0 = T.engine(lib_policy())
        f0 = eng0.func(key)
        bad_try = []
        for node in ast.walk(f0.node):
            if isinstance(node, ast.Try):
                only_import = all(isinstance(s, (ast.Import, ast.ImportFrom, ast.Assert)) for s in node.body)
                handlers_ok = all(h.type is not None and isinstance(h.type, ast.Name) and h.type.id == "ImportError" for h in node.handlers)
                if not (only_import and handlers_ok):
                    bad_try.append(node.lineno)
        (T.ok if not bad_try else T.fail)(f"{key}#exc.no-swallow", *([] if not bad_try else [f"try/except around non-import code at lines {bad_try}"]), kind="frame")
        for combo in combos:
            enumvals = dict(zip(enum_names, combo))
            tag = ",".join(f"{k}={v}" for k, v in enumvals.items())
            eng, f, names, opts, results = run_case(T, key, spec, enumvals)
            normal = [r for r in results if r.kind == "return"]
            if not normal:
                T.fail(f"{key}#calls.some-successful-path@{tag}", "no successful path")
                continue
            for k, r in enumerate(results):
                sfx = f"@{tag},path{k}" if tag else f"@path{k}"
                if r.kind == "raise":
                    # exceptions may only come out of opaque calls' contracts or python-level lookups; none is caught - nothing to check
                    continue
                path = r.path
                # ---- calls.*: the library call is made on every successful path
                for tgt in spec["main"]:
                    got = calls(path, tgt)
                    (T.ok if got else T.fail)(f"{key}#calls.{_tn(tgt)}{sfx}", *([] if got else ["library call skipped on a successful path"]), kind="forwarding")
                # ---- fwd.*
                for opt, tgt, (idx, pname), mode in spec["forward"]:
                    cs = calls(path, tgt)
                    if not cs:
                        continue
                    if opt in enumvals:
                        continue
                    sym = opts[opt]
                    name = f"{key}#fwd.{opt}->{_tn(tgt)}.{pname}{sfx}"
                    hits = []
                    for c in cs:
                        try:
                            hits.append(c.arg(idx, pname))
                        except KeyError:
                            pass
                    if not hits:
                        T.fail(name, f"parameter {pname} not passed", kind="forwarding", option=opt)
                        continue
                    if mode == "identity":
                        T.ob(eng, name, path.hyps(), z3.Or(*[_zb(eng.veq(h, sym)) for h in hits]), kind="forwarding", option=opt)
                    else:
                        dep = (all(any(occurs(eng, h, s_) for h in hits) for s_ in sym) if isinstance(sym, tuple)
                               else any(occurs(eng, h, sym) for h in hits))
                        if dep and mode == "depends-only":
                            others = [o for o in names if o != opt and o not in enumvals and o != "output_file"]
                            leak = [o for o in others if all(occurs(eng, h, opts[o]) for h in hits if occurs(eng, h, sym))
                                    and any(occurs(eng, h, opts[o]) for h in hits)]
                            # an argument that belongs to one option must not also be fed by a sibling option of the same kind
                            sib = [o for o in leak if (o, tgt) in {(x[0], x[1]) for x in spec["forward"]} and o != opt and
                                   any(x[0] == o and x[2] != (idx, pname) for x in spec["forward"])]
                            if sib:
                                T.fail(name, f"argument also depends on sibling option(s) {sib}", kind="forwarding", option=opt)
                                continue
                        (T.ok if dep else T.fail)(name, *([] if dep else [f"argument does not depend on option {opt}"]), kind="forwarding", option=opt)
                # ---- uses.*: every option influences some call or decision on every successful path
                for opt in names:
                    if opt in enumvals:
                        continue
                    sym = opts[opt]
                    used = any(occurs(eng, z3.And(*path.pc) if len(path.pc) > 1 else (path.pc[0] if path.pc else z3.BoolVal(True)), sym) for _ in [0])
                    if not used:
                        for c in path.calls:
                            if any(occurs(eng, a, sym) for a in c.args) or any(occurs(eng, v, sym) for v in c.kwargs.values()):
                                used = True
                                break
                    (T.ok if used else T.fail)(f"{key}#uses.{opt}{sfx}", *([] if used else [f"option {opt} has no effect on this successful path"]), kind="forwarding", option=opt)
                # ---- order / backend
                if "backend" in enumvals:
                    sb = calls(path, "tensor/manager.py::set_backend")
                    inf = first_call_index(path, spec["inference"])
                    want = BACKEND_TABLE[enumvals["backend"]]
                    # arguments are read by parameter name or position (a call may be rewritten either way)
                    named = [c for c in sb if isinstance(c.arg(0, "backend", None), str)]
                    if want is None:
                        ok = not named
                    else:
                        ok = len(named) == 1 and named[0].arg(0, "backend", None) == want[0] and named[0].arg(2, "precision", None) == want[1]
                    (T.ok if ok else T.fail)(f"{key}#fwd.backend->set_backend{sfx}", *([] if ok else [f"set_backend calls {[(c.args, c.kwargs) for c in named]} for --backend {enumvals['backend']}"]), kind="forwarding")
                    opt_calls = [c for c in sb if not isinstance(c.arg(0, "backend", None), str)]
                    okopt = len(opt_calls) == 1 and opt_calls[0].arg(1, "custom_optimizer", None) is not None
                    if okopt:
                        ctor = "scipy_optimizer" if enumvals["optimizer"] == "scipy" else "minuit_optimizer"
                        made = [c for c in path.calls if isinstance(c.target, str) and c.target.endswith("::" + ctor)]
                        okopt = len(made) == 1 and occurs(eng, made[0].kwargs.get("**", made[0].kwargs), opts["optconf"]) and _is(eng, path, opt_calls[0].arg(1, "custom_optimizer", None), made[0].result)
                    (T.ok if okopt else T.fail)(f"{key}#fwd.optimizer+optconf->set_backend{sfx}", *([] if okopt else ["optimizer / optconf do not reach set_backend"]), kind="forwarding")
                    if len(opt_calls) == 1:
                        # the optimizer is registered WITH the backend that is current after the requested switch (not with an older handle)
                        n_before = len([c for c in sb if c.seq < opt_calls[0].seq])
                        want_tl = z3.Const(f"tensorlib_after_{n_before}_switches", Obj)
                        got_tl = opt_calls[0].arg(0, "backend", None)
                        okcur = got_tl is not None and z3.is_expr(got_tl) and got_tl.eq(want_tl)
                        (T.ok if okcur else T.fail)(f"{key}#fwd.optimizer-registered-with-the-current-backend{sfx}",
                                                    *([] if okcur else [f"set_backend receives {got_tl}, the backend current at that point is {want_tl}"]), kind="forwarding")
                    before = inf is not None and all(c.seq < inf for c in sb)
                    (T.ok if before else T.fail)(f"{key}#order.set_backend-before-inference{sfx}", *([] if before else ["set_backend after the inference call"]), kind="order")
                # ---- inference call wiring
                if spec.get("inference"):
                    ic = calls(path, spec["inference"])
                    mc, dc = calls(path, ".model"), calls(path, ".data")
                    if ic and mc and dc:
                        c = ic[0]
                        data_arg = c.arg(1, "data") if spec["inference"].endswith("hypotest") else c.arg(0, "data")
                        model_arg = c.arg(2, "pdf") if spec["inference"].endswith("hypotest") else c.arg(1, "pdf")
                        T.ob(eng, f"{key}#fwd.model-and-data{sfx}", path.hyps(),
                             z3.And(_zb(eng.veq(model_arg, mc[0].result)), _zb(eng.veq(data_arg, dc[0].result)), _zb(eng.veq(dc[0].args[0], mc[0].result))), kind="forwarding")
                # ---- the model the command evaluates is the model the library builds: besides the measurement and the patches the
                # command may hand Workspace.model only options that equal the library's own defaults (read from pdf.py)
                for mcall in calls(path, ".model"):
                    for kname, kval in mcall.kwargs.items():
                        if kname in ("measurement_name", "patches"):
                            continue
                        dflt = _library_model_defaults().get(kname, _NO_DEFAULT)
                        same = dflt is not _NO_DEFAULT and not z3.is_expr(kval) and kval == dflt
                        (T.ok if same else T.fail)(f"{key}#fwd.model-option-{kname}-is-the-library-default{sfx}",
                                                   *([] if same else [f"Workspace.model receives {kname}={kval!r}; the library default is {dflt!r}"]),
                                                   kind="forwarding", option="model-options")
                # ---- out.*
                _check_output(T, eng, key, spec, path, r, opts, sfx)
            # file == stdout across the two branches of each enumerated case
            _check_file_equals_stdout(T, eng, key, spec, normal, opts, tag)
    task.__name__ = "t_" + key.split("::")[1]
    return task


_NO_DEFAULT = object()


def _library_model_defaults():
    """defaults of the model-building options, read from the current pdf.py: `default_<option> = <literal>` in _ModelConfig.__init__"""
    import ast
    import os
    src = open(os.path.join(os.environ.get("PYVC_REPO", "/repo"), "src", "pyhf", "pdf.py")).read()
    out = {}
    for node in ast.walk(ast.parse(src)):
        if isinstance(node, ast.ClassDef) and node.name == "_ModelConfig":
            for st in ast.walk(node):
                if isinstance(st, ast.Assign) and len(st.targets) == 1 and isinstance(st.targets[0], ast.Name) and st.targets[0].id.startswith("default_"):
                    try:
                        out[st.targets[0].id[len("default_"):]] = ast.literal_eval(st.value)
                    except ValueError:
                        pass
    return out


def _is(eng, path, a, b):
    g = eng.veq(a, b)
    if isinstance(g, bool):
        return g
    s = z3.Solver()
    s.add(*path.hyps())
    s.add(z3.Not(g))
    return s.check() == z3.unsat


def _tn(t):
    return t.split("::")[-1] if isinstance(t, str) else str(t)


def _zb(x):
    return z3.BoolVal(x) if isinstance(x, bool) else x


def _emitted(path):
    """(channel, object, kwargs) of what a path serialises: json.dumps->click.echo, json.dump->file, echo of text"""
    out = []
    for c in path.calls:
        if c.target == "ext:json.dumps":
            out.append(("dumps", c.args[0] if c.args else None, dict(c.kwargs), c))
        elif c.target == "ext:json.dump":
            out.append(("dump", c.args[0] if c.args else None, dict(c.kwargs), c))
    return out


def _check_output(T, eng, key, spec, path, r, opts, sfx):
    em = _emitted(path)
    kind = spec["output"]
    if kind in ("json", "json-truthy"):
        ok = len(em) == 1
        (T.ok if ok else T.fail)(f"{key}#out.one-json-document{sfx}", *([] if ok else [f"{len(em)} serialisations"]), kind="forwarding")
        if not ok:
            return
        ch, obj, kw, c = em[0]
        okkw = kw.get("indent") == 4 and kw.get("sort_keys") is True
        (T.ok if okkw else T.fail)(f"{key}#out.indent-sort_keys{sfx}", *([] if okkw else [f"kwargs {kw}"]), kind="forwarding")
        if ch == "dumps":
            echoed = [e for e in path.calls if e.target == "ext:click.echo" and e.args and _is(eng, path, e.args[0], c.result)]
            (T.ok if echoed else T.fail)(f"{key}#out.dumps-is-echoed{sfx}", *([] if echoed else ["json.dumps result not echoed"]), kind="forwarding")
        # the object is the stated function of the library result
        short = key.split("::")[1]
        want = _expected_object(eng, key, path, opts)
        if want is not None:
            T.ob(eng, f"{key}#out.object-is-library-result{sfx}", path.hyps(), _zb(eng.veq(obj, want)), kind="forwarding")
        else:
            lib = [c2.result for c2 in path.calls if (c2.target in LIB_TARGETS or (isinstance(c2.target, tuple) and c2.target[0] == "method")) and c2.result is not None]
            dep = any(is_obj(x) and occurs(eng, obj, x) for x in lib) or any(_is(eng, path, obj, x) for x in lib if is_obj(x))
            (T.ok if dep else T.fail)(f"{key}#out.object-depends-on-library-result{sfx}", *([] if dep else ["emitted object does not depend on any library result"]), kind="forwarding")
    elif kind == "file-write":
        w = calls(path, "writexml.py::writexml")
        wrote = [c for c in path.calls if isinstance(c.target, tuple) and c.target[0] == "opaque" and w and any(occurs(eng, a, w[0].result) for a in c.args)]
        (T.ok if wrote else T.fail)(f"{key}#out.written-content-is-writexml-result{sfx}", *([] if wrote else ["writexml result is not written"]), kind="forwarding")
        of = [c for c in path.calls if c.target == "ext:click.open_file" and any(occurs(eng, a, opts["resultprefix"]) and occurs(eng, a, opts["output_dir"]) for a in c.args)]
        (T.ok if of else T.fail)(f"{key}#out.file-named-by-output_dir-and-resultprefix{sfx}", *([] if of else ["output path does not depend on output_dir and resultprefix"]), kind="forwarding")
    elif key.endswith("patchset.py::verify"):
        v = calls(path, ".verify")
        echo = [c for c in path.calls if c.target == "ext:click.echo" and c.args and c.args[0] == "All good."]
        ok = bool(v) and bool(echo) and all(e.seq > v[0].seq for e in echo)
        (T.ok if ok else T.fail)(f"{key}#order.all-good-only-after-verify{sfx}", *([] if ok else ["'All good.' not emitted strictly after verify()"]), kind="order")
    elif key.endswith("spec.py::digest"):
        d = calls(path, "utils.py::digest")
        echo = [c for c in path.calls if c.target == "ext:click.echo" and c.args and any(occurs(eng, c.args[0], x.result) for x in d)]
        (T.ok if echo else T.fail)(f"{key}#out.digests-are-echoed{sfx}", *([] if echo else ["digest values are not echoed"]), kind="forwarding")
    elif key.endswith("patchset.py::inspect"):
        echo = [c for c in path.calls if c.target in ("ext:click.echo", "ext:click.secho")]
        (T.ok if echo else T.fail)(f"{key}#out.names-are-echoed{sfx}", *([] if echo else ["nothing echoed"]), kind="forwarding")


def _expected_object(eng, key, path, opts):
    short = key.split("::")[1]
    if short == "cls":
        h = calls(path, "infer/__init__.py::hypotest")
        if h and isinstance(h[0].result, tuple):
            return {"CLs_obs": h[0].result[0], "CLs_exp": list(h[0].result[1])}
        return None
    if short in ("prune", "rename"):
        c = calls(path, "." + short)
        return c[0].result if c else None
    if short == "combine":
        c = calls(path, "workspace.py::Workspace.combine")
        return c[0].result if c else None
    if short == "sort":
        c = calls(path, "workspace.py::Workspace.sorted")
        return c[0].result if c else None
    if short == "apply":
        c = calls(path, ".apply")
        return c[0].result if c else None
    if short == "xml2json":
        c = calls(path, "readxml.py::parse")
        return c[0].result if c else None
    return None


def _check_file_equals_stdout(T, eng, key, spec, normal, opts, tag):
    if spec["output"] not in ("json", "json-truthy"):
        return
    dumps = [(p, e) for p in normal for e in _emitted(p.path) if e[0] == "dumps"]
    dump = [(p, e) for p in normal for e in _emitted(p.path) if e[0] == "dump"]
    name = f"{key}#out.file-equals-stdout" + (f"@{tag}" if tag else "")
    if not dumps or not dump:
        T.fail(name, "file branch or stdout branch missing", kind="forwarding")
        return
    ok = True
    why = ""
    of = opts.get("output_file")

    def sig(p):
        return frozenset(c.sexpr() for c in p.path.pc if of is None or not occurs(eng, c, of))
    paired = 0
    for p1, e1 in dumps:
        for p2, e2 in dump:
            if sig(p1) != sig(p2):
                continue
            paired += 1
            g = eng.veq(e1[1], e2[1])
            same_obj = g is True or (not isinstance(g, bool) and _valid(g))
            same_kw = e1[2] == e2[2] if not any(is_z(v) for v in list(e1[2].values()) + list(e2[2].values())) else False
            if not (same_obj and same_kw):
                ok = False
                why = f"stdout kwargs {e1[2]} vs file kwargs {e2[2]}; same object: {same_obj}"
    if paired == 0:
        ok, why = False, "no pair of paths differing only in the output_file decision"
    (T.ok if ok else T.fail)(name, *([] if ok else [why]), kind="forwarding")


def _valid(g):
    s = z3.Solver()
    s.add(z3.Not(g))
    return s.check() == z3.unsat


def t_fit_output(T):
    """fit: mle_parameters built from the fitted parameters per par_map slice; twice_nll iff --value"""
    key = "cli/infer.py::fit"
    eng, f, names, opts, results = run_case(T, key, COMMANDS[key], {"backend": "numpy", "optimizer": "scipy"})
    for k, r in enumerate(results):
        if r.kind != "return":
            continue
        path = r.path
        em = _emitted(path)
        fc = calls(path, "infer/mle.py::fit")
        if not em or not fc:
            continue
        obj = em[0][1]
        sfx = f"@path{k}"
        okd = isinstance(obj, dict) and "mle_parameters" in obj and occurs(eng, obj["mle_parameters"], fc[0].result)
        (T.ok if okd else T.fail)(f"{key}#out.mle_parameters-from-fit-result{sfx}", *([] if okd else ["mle_parameters does not depend on the fit result"]), kind="forwarding")
        if okd:
            has = "twice_nll" in obj
            T.ob(eng, f"{key}#out.twice_nll-iff-value{sfx}", path.hyps(), truthy_of(opts["value"]) == z3.BoolVal(has), kind="forwarding")
            if has:
                dep = occurs(eng, obj["twice_nll"], fc[0].result)
                (T.ok if dep else T.fail)(f"{key}#out.twice_nll-from-fit-result{sfx}", *([] if dep else ["twice_nll does not come from the fit result"]), kind="forwarding")


def t_extract_output(T):
    key = "cli/patchset.py::extract"
    eng, f, names, opts, results = run_case(T, key, COMMANDS[key], {})
    for k, r in enumerate(results):
        if r.kind != "return":
            continue
        path = r.path
        em = _emitted(path)
        if not em:
            continue
        obj = em[0][1]
        sfx = f"@path{k}"
        ps = calls(path, "patchset.py::PatchSet")
        if not ps:
            continue
        patch = eng.getitem(ps[0].result, opts["name"])
        pj = eng.opaque_attr(patch, "patch")
        wm = truthy_of(opts["with_metadata"])
        if isinstance(obj, dict):
            g = z3.And(wm, _zb(eng.veq(obj.get("patch"), pj)), z3.BoolVal(set(obj) == {"metadata", "patch"}),
                       _zb(eng.veq(obj.get("metadata"), eng.opaque_attr(patch, "metadata"))))
        else:
            g = z3.And(z3.Not(wm), _zb(eng.veq(obj, pj)))
        T.ob(eng, f"{key}#out.patch-selected-by-name{sfx}", path.hyps(), g, kind="forwarding")


def t_optconf_precedence(T):
    """repeated --optconf items: every key reaches the optimizer constructor, a key given twice takes its LAST value (ordinary option
    semantics, identical for `fit` and `cls`)"""
    for key in ("cli/infer.py::fit", "cli/infer.py::cls"):
        a, b, c = (z3.Const(f"optval_{n}", Obj) for n in "abc")
        enumvals = {"backend": "numpy", "optimizer": "scipy", "optconf": ({"maxiter": a}, {"maxiter": b, "tolerance": c})}
        eng, f, names, opts, results = run_case(T, key, COMMANDS[key], enumvals)
        seen = 0
        for k, r in enumerate(results):
            if r.kind != "return":
                continue
            made = [c_ for c_ in r.path.calls if isinstance(c_.target, str) and c_.target.endswith("::scipy_optimizer")]
            if len(made) != 1:
                T.fail(f"{key}#fwd.optconf-keys-last-value-wins@path{k}", f"{len(made)} optimizer constructions", kind="forwarding", option="optconf")
                continue
            seen += 1
            kw = made[0].kwargs
            ok = set(kw) == {"maxiter", "tolerance"}
            if not ok:
                T.fail(f"{key}#fwd.optconf-keys-last-value-wins@path{k}", f"optimizer settings {sorted(kw)}", kind="forwarding", option="optconf")
                continue
            T.ob(eng, f"{key}#fwd.optconf-keys-last-value-wins@path{k}", r.path.hyps(), z3.And(kw["maxiter"] == b, kw["tolerance"] == c), kind="forwarding", option="optconf")
        (T.ok if seen else T.fail)(f"{key}#paths.optconf-precedence-case-explored", *([] if seen else ["no successful path"]), kind="raises")


def t_volume_mount(T):
    """`xml2json -v HOST:MOUNT`: the option type hands the library (readxml.parse(..., mounts=...)) the HOST part as click.Path converts
    it and the MOUNT part exactly as written - the mount point is matched textually against the paths inside the XML files"""
    key = "utils.py::VolumeMountPath.convert"
    conv = z3.Function("click.Path.convert", Obj, Obj)
    coerce = z3.Function("click.Path.coerce_path_result", Obj, Obj)
    eng = T.engine({})
    f = T.under_contract(eng, key)
    for value, host, mount in (("hostdir:data", "hostdir", "data"), ("/abs/host:./data/", "/abs/host", "./data/"), ("h:/mnt/in", "h", "/mnt/in")):
        def thunk():
            class_ = eng.module("utils.py").get("VolumeMountPath")
            from pyvc.values import Rec
            me = Rec(class_)
            me.attrs.update({"resolve_path": True, "exists": True, "name": "path"})
            me.attrs["coerce_path_result"] = NativeFn("coerce_path_result", lambda v: coerce(eng.box(v)))
            eng.policy[("super_method", "convert")] = lambda e, obj, *a, **k: conv(e.box(a[0]))
            return eng.call_function(f, [me, value, eng.obj("param"), eng.obj("ctx")], {}, force_inline=True)
        results = eng.explore(thunk)
        T.absorb(eng, results)
        for k, r in enumerate(results):
            tag = f"@{value},path{k}"
            if r.kind != "return":
                T.fail(f"{key}#no-raise{tag}", str(r.exc_name), kind="raises", option="volume-mount")
                continue
            ok = isinstance(r.value, tuple) and len(r.value) == 2
            if not ok:
                T.fail(f"{key}#post.pair{tag}", repr(r.value), kind="forwarding", option="volume-mount")
                continue
            T.ob_path(eng, f"{key}#post.host-converted-mount-as-written{tag}", r,
                      z3.And(_zb(eng.veq(r.value[0], conv(eng.box(host)))), _zb(eng.veq(r.value[1], coerce(eng.box(mount))))), kind="forwarding", option="volume-mount")


def tasks(tier):
    ts = [(k.split("/")[1].replace(".py::", "."), t_command(k)) for k in COMMANDS]
    ts.append(("utils.VolumeMountPath", t_volume_mount))
    ts += [("infer.fit.output", t_fit_output), ("patchset.extract.output", t_extract_output), ("infer.optconf-precedence", t_optconf_precedence)]
    return ts


def replay(r):
    """native replay for the uses.* / fwd.* obligations: run the real command through click's CliRunner with the
    library entry point spied and check that the option value arrives"""
    name = r["name"]
    opt = (r.get("meta") or {}).get("option")
    if opt is None:
        return None
    if opt == "model-options":
        return _replay_model_options(name)
    if opt == "volume-mount":
        import os
        import tempfile
        from pathlib import Path
        from pyhf.utils import VolumeMountPath
        bad = {}
        with tempfile.TemporaryDirectory() as d:
            cwd = os.getcwd()
            os.chdir(d)
            try:
                os.mkdir("hostdir")
                for mount in ("data", "./data/", "/mnt/in"):
                    got = VolumeMountPath(exists=True, resolve_path=True, path_type=Path).convert(f"hostdir:{mount}", None, None)
                    if str(got[1]) != str(Path(mount)) or Path(got[0]) != Path(os.path.realpath("hostdir")):
                        bad[f"hostdir:{mount}"] = {"got": [str(g) for g in got], "expected": [os.path.realpath("hostdir"), str(Path(mount))]}
            finally:
                os.chdir(cwd)
        return {"reproduced": bool(bad), "disagreements": bad}
    cmd = name.split("::")[1].split("#")[0]
    mod = name.split("::")[0]
    if (mod, cmd, opt) == ("cli/spec.py", "inspect", "measurement"):
        import json
        import os
        import tempfile
        from click.testing import CliRunner
        import pyhf
        from pyhf.cli.cli import pyhf as pyhf_cli
        spec = {"channels": [{"name": "c", "samples": [{"name": "s", "data": [5.0], "modifiers": [{"name": "mu", "type": "normfactor", "data": None}]}]}],
                "observations": [{"name": "c", "data": [5.0]}],
                "measurements": [{"name": "m1", "config": {"poi": "mu", "parameters": []}}],
                "version": "1.0.0"}
        with tempfile.TemporaryDirectory() as d:
            p = os.path.join(d, "ws.json")
            json.dump(spec, open(p, "w"))
            res = CliRunner().invoke(pyhf_cli, ["inspect", p, "--measurement", "does-not-exist"])
            try:
                pyhf.Workspace(spec).model(measurement_name="does-not-exist")
                lib_ok = True
            except Exception as e:
                lib_ok = False
                lib_exc = type(e).__name__
        return {"reproduced": res.exit_code == 0 and not lib_ok,
                "cli": "pyhf inspect ws.json --measurement does-not-exist", "cli_exit_code": res.exit_code,
                "library": f"Workspace.model(measurement_name='does-not-exist') raises {lib_exc if not lib_ok else 'nothing'}"}
    return None


def _replay_model_options(name):
    """`pyhf cls` / `pyhf fit` on a workspace with histosys and normsys modifiers pulled outside the interpolation core, against the
    library call on Workspace.model() with its defaults"""
    import json
    import os
    import tempfile
    from click.testing import CliRunner
    import numpy as np
    import pyhf
    from pyhf.cli.cli import pyhf as pyhf_cli
    spec = {"channels": [{"name": "c", "samples": [
        {"name": "sig", "data": [6.0, 9.0], "modifiers": [{"name": "mu", "type": "normfactor", "data": None}]},
        {"name": "bkg", "data": [50.0, 60.0], "modifiers": [{"name": "h", "type": "histosys", "data": {"hi_data": [58.0, 61.0], "lo_data": [47.0, 52.0]}},
                                                            {"name": "n", "type": "normsys", "data": {"hi": 1.12, "lo": 0.93}}]}]}],
            "observations": [{"name": "c", "data": [61.0, 55.0]}],
            "measurements": [{"name": "m", "config": {"poi": "mu", "parameters": []}}], "version": "1.0.0"}
    pyhf.set_backend("numpy")
    ws = pyhf.Workspace(spec)
    model = ws.model()
    data = ws.data(model)
    bad = {}
    with tempfile.TemporaryDirectory() as d:
        p = os.path.join(d, "ws.json")
        json.dump(spec, open(p, "w"))
        if "::cls" in name:
            res = CliRunner().invoke(pyhf_cli, ["cls", p])
            lib = pyhf.infer.hypotest(1.0, data, model, return_expected_set=True)
            try:
                got = json.loads(res.output)
                want = float(lib[0])
                if not np.isclose(got["CLs_obs"], want, rtol=1e-6, atol=0) or not np.allclose(got["CLs_exp"], [float(x) for x in lib[1]], rtol=1e-6, atol=0):
                    bad["cls"] = {"cli": got, "library": {"CLs_obs": want, "CLs_exp": [float(x) for x in lib[1]]}}
            except Exception as e:
                bad["cls"] = f"{type(e).__name__}: {e}; exit code {res.exit_code}; output {res.output[:200]!r}"
        elif "::fit" in name:
            res = CliRunner().invoke(pyhf_cli, ["fit", p, "--value"])
            pars, val = pyhf.infer.mle.fit(data, model, return_fitted_val=True)
            try:
                got = json.loads(res.output)
                if not np.isclose(got["mle_parameters"]["h"][0], float(pars[model.config.par_slice("h")][0]), rtol=1e-5, atol=1e-7) or not np.isclose(got["twice_nll"], float(val), rtol=1e-7):
                    bad["fit"] = {"cli": got, "library": {"bestfit": [float(x) for x in pars], "twice_nll": float(val)}}
            except Exception as e:
                bad["fit"] = f"{type(e).__name__}: {e}; exit code {res.exit_code}; output {res.output[:200]!r}"
        else:
            return None
    return {"reproduced": bool(bad), "disagreements": bad}


# ---------------------------------------------------------------- inspect on a concrete-structured workspace (tables pair the right things)
def t_inspect_tables(T):
    """`pyhf inspect` on a workspace whose channels are listed in NON-alphabetical order with different bin counts, names shared
    between modifier types and two measurements: the real Workspace / Model code is executed (numbers symbolic) and the dumped
    object as well as the printed channel table must carry, for every channel, ITS bin count; samples, modifiers, parameters,
    systematics and measurements as the library reports them."""
    from pyvc.values import HostObj
    from . import hf_skeleton as K
    from .C16_workspace_ops import BIG
    from .C18_roundtrip import build_workspace
    key = "cli/spec.py::inspect"

    class Stream(HostObj):
        def __init__(self, name):
            self.name = name

        def __enter__(self):
            return self

        def __exit__(self, *a):
            return False
    for measurement in (None, "meas1"):
        pol = K.pipeline_policy()
        out = {"echo": [], "dump": []}
        box = {}
        pol.update({"ext:click.open_file": lambda e, c: Stream(c.args[0]), "ext:builtins.open": lambda e, c: Stream(c.args[0]),
                    "ext:json.load": lambda e, c: box["doc"], "ext:click.echo": lambda e, c: out["echo"].append(c.args[0] if c.args else ""),
                    "ext:json.dump": lambda e, c: out["dump"].append((c.args[0], c.args[1], dict(c.kwargs)))})
        eng = T.engine(pol)
        f = T.under_contract(eng, key)

        def thunk():
            out["echo"].clear()
            out["dump"].clear()
            doc, sym = build_workspace(BIG)
            for cnd in sym.positivity():
                eng.assume(cnd)
            box["doc"] = doc
            return eng.call_function(f, ["in.json", "out.json", measurement], {}, force_inline=True)
        results = eng.explore(thunk)
        T.absorb(eng, results)
        tag = f"measurement={measurement}"
        for k, r in enumerate(results):
            sfx = f"@{tag},path{k}"
            if r.kind != "return":
                T.fail(f"{key}#tables.no-raise{sfx}", f"raises {r.exc_name} {getattr(r.value, 'eargs', '')}", kind="raises")
                continue
            doc = box["doc"]
            want_channels = sorted((c["name"], len(c["samples"][0]["data"])) for c in doc["channels"])
            want_samples = sorted({s["name"] for c in doc["channels"] for s in c["samples"]})
            mods = sorted({(m["name"], m["type"]) for c in doc["channels"] for s in c["samples"] for m in s["modifiers"]})
            kind = {"normfactor": "unconstrained", "shapefactor": "unconstrained", "shapesys": "constrained_by_poisson"}
            want_pars = sorted({(n, kind.get(t, "constrained_by_normal")) for n, t in mods})
            want_sys = [(n, kd, [t for n2, t in mods if n2 == n]) for n, kd in want_pars]
            want_meas = [(m["name"], m["config"]["poi"], [p["name"] for p in m["config"]["parameters"]]) for m in doc["measurements"]]
            ok = len(out["dump"]) == 1 and isinstance(out["dump"][0][0], dict)
            (T.ok if ok else T.fail)(f"{key}#tables.one-object-dumped{sfx}", *([] if ok else [f"{len(out['dump'])} dumps"]), kind="forwarding")
            if not ok:
                continue
            res = out["dump"][0][0]
            for name, want, got in (("channels-with-their-own-bin-counts", want_channels, [tuple(x) for x in res.get("channels", [])]),
                                    ("samples", want_samples, list(res.get("samples", []))),
                                    ("modifiers", dict(mods), dict(res.get("modifiers", {}))),
                                    ("parameters", want_pars, [tuple(x) for x in res.get("parameters", [])]),
                                    ("systematics", [(a, b, sorted(c)) for a, b, c in want_sys], [(x[0], x[1], sorted(x[2])) for x in res.get("systematics", [])]),
                                    ("measurements", want_meas, [(x[0], x[1], list(x[2])) for x in res.get("measurements", [])])):
                same = want == got
                (T.ok if same else T.fail)(f"{key}#tables.{name}{sfx}", *([] if same else [f"got {got!r}, the library reports {want!r}"]), kind="forwarding")
            lines = [str(x).split() for x in out["echo"] if isinstance(x, str)]
            okp = all([c, str(n)] in lines for c, n in want_channels)
            (T.ok if okp else T.fail)(f"{key}#tables.printed-channel-table{sfx}", *([] if okp else ["a channel is printed with another channel's bin count"]), kind="forwarding")
        if not results:
            T.fail(f"{key}#tables.no-raise@{tag}", "no path", kind="raises")


_c19_tasks = tasks


def tasks(tier):
    return _c19_tasks(tier) + [("spec.inspect.tables", t_inspect_tables)]
