"""Independent HistFactory oracle written from the statements of C01 / C02 (not from the code).

Inputs: the specification (a model spec with 'channels' and optional 'parameters'), the layout the
configuration *reports* (channel order, parameter slices, auxiliary-data order) and parameter / data
vectors.  Everything is evaluated through an `ops` object so that the same text serves as the z3
specification (proofs) and as the float reference (native replay / bounded tier)."""
import math

import z3

from pyvc.tensor import Lgamma, Log, Sqrt, Xlogy, sym_pow
from .C03_interpolators import I0, I1, I2, I4p, I4


class ZOps:
    name = "z3"

    @staticmethod
    def ite(c, a, b):
        if isinstance(c, bool):
            return a if c else b
        return z3.If(c, a, b)

    @staticmethod
    def pow(x, y):
        return sym_pow(x if z3.is_expr(x) else z3.RealVal(x), y if z3.is_expr(y) else z3.RealVal(y))

    @staticmethod
    def log(x):
        return Log(x if z3.is_expr(x) else z3.RealVal(x))

    @staticmethod
    def sqrt(x):
        return Sqrt(x if z3.is_expr(x) else z3.RealVal(x))

    @staticmethod
    def num(x):
        if z3.is_expr(x):
            return z3.ToReal(x) if x.sort() == z3.IntSort() else x
        return z3.RealVal(repr(x) if isinstance(x, float) else x)

    @staticmethod
    def log_poisson(n, lam):
        return Xlogy(n, lam) - lam - Lgamma(n + 1)

    LOG_SQRT_2PI = z3.Real("LOG_SQRT_2PI")

    @classmethod
    def log_normal(cls, x, mu, sigma):
        return -Log(sigma) - cls.LOG_SQRT_2PI - ((x - mu) * (x - mu)) / (2 * sigma * sigma)

    @staticmethod
    def maximum(a, b):
        return z3.If(a >= b, a, b)

    @staticmethod
    def coef4(k, d, n, u):
        """k-th coefficient of the code-4 core polynomial: the solution of the boundary system (C03), a function of the triple"""
        f = z3.Function(f"coef4_{k}", z3.RealSort(), z3.RealSort(), z3.RealSort(), z3.RealSort())
        return f(d, n, u)


class FOps:
    name = "float"

    @staticmethod
    def ite(c, a, b):
        return a if c else b

    @staticmethod
    def pow(x, y):
        return math.pow(x, y)

    @staticmethod
    def log(x):
        return math.log(x)

    @staticmethod
    def sqrt(x):
        return math.sqrt(x)

    @staticmethod
    def num(x):
        return float(x)

    @staticmethod
    def log_poisson(n, lam):
        if lam == 0:
            return 0.0 if n == 0 else -math.inf
        return (n * math.log(lam) if n != 0 else 0.0) - lam - math.lgamma(n + 1)

    @staticmethod
    def log_normal(x, mu, sigma):
        return -math.log(sigma) - 0.5 * math.log(2 * math.pi) - (x - mu) ** 2 / (2 * sigma ** 2)

    @staticmethod
    def maximum(a, b):
        return max(a, b)

    @staticmethod
    def coef4(k, d, n, u):
        import numpy as np
        up, dn = u / n, d / n
        rows = [[x ** i for i in range(1, 7)] for x in (1.0, -1.0)]
        rows += [[i * x ** (i - 1) for i in range(1, 7)] for x in (1.0, -1.0)]
        rows += [[i * (i - 1) * x ** (i - 2) if i >= 2 else 0.0 for i in range(1, 7)] for x in (1.0, -1.0)]
        rhs = [up - 1, dn - 1, math.log(up) * up, -math.log(dn) * dn, math.log(up) ** 2 * up, math.log(dn) ** 2 * dn]
        return float(np.linalg.solve(np.asarray(rows), np.asarray(rhs))[k])


def interp(ops, code, al, d, n, u):
    if code == "code0":
        return I0(ops, al, d, n, u)
    if code == "code1":
        return I1(ops, al, d, n, u)
    if code == "code2":
        return I2(ops, al, d, n, u)
    if code == "code4p":
        return I4p(ops, al, d, n, u)
    if code == "code4":
        return I4(ops, al, d, n, u, [ops.coef4(k, d, n, u) for k in range(6)])
    raise ValueError(code)


class Layout:
    """what the configuration reports (the oracle takes positions from here; their consistency is C12)"""

    def __init__(self, channels, channel_nbins, par_slices, auxdata_order, npars, interpcodes=None):
        self.channels, self.channel_nbins, self.par_slices = list(channels), dict(channel_nbins), dict(par_slices)
        self.auxdata_order, self.npars = list(auxdata_order), npars
        self.interpcodes = {"normsys": "code4", "histosys": "code4p"}
        self.interpcodes.update(interpcodes or {})


def find_channel(spec, name):
    hits = [c for c in spec["channels"] if c["name"] == name]
    if len(hits) != 1:
        raise ValueError(f"channel {name!r} is not unique in the specification")
    return hits[0]


def bins_declaring(spec, layout, mtype, mname):
    """global bins (in reported channel order) in which some sample declares the bin-wise modifier"""
    out = []
    g = 0
    for cname in layout.channels:
        ch = find_channel(spec, cname)
        declared = any(m["type"] == mtype and m["name"] == mname for s in ch["samples"] for m in s["modifiers"])
        for b in range(layout.channel_nbins[cname]):
            if declared:
                out.append(g)
            g += 1
    return out


def expected_main(ops, spec, layout, theta, clip_sample=None, clip_bin=None, by_sample=False, all_samples=None):
    """C01: per global bin, sum over that channel's samples of prod(factors) * (nominal + sum(deltas))"""
    out = []
    per_sample = {}
    g = 0
    for cname in layout.channels:
        ch = find_channel(spec, cname)
        for b in range(layout.channel_nbins[cname]):
            tot = ops.num(0)
            for s in ch["samples"]:
                nom = ops.num(s["data"][b])
                delta = ops.num(0)
                fac = ops.num(1)
                for m in s["modifiers"]:
                    t, nm = m["type"], m["name"]
                    start = layout.par_slices[nm][0]
                    if t in ("normfactor", "lumi"):
                        fac = fac * theta[start]
                    elif t == "normsys":
                        fac = fac * interp(ops, layout.interpcodes["normsys"], theta[start], ops.num(m["data"]["lo"]), ops.num(1), ops.num(m["data"]["hi"]))
                    elif t == "histosys":
                        delta = delta + interp(ops, layout.interpcodes["histosys"], theta[start], ops.num(m["data"]["lo_data"][b]), nom, ops.num(m["data"]["hi_data"][b]))
                    elif t in ("shapesys", "shapefactor"):
                        fac = fac * theta[start + b]
                    elif t == "staterror":
                        rank = bins_declaring(spec, layout, "staterror", nm).index(g)
                        fac = fac * theta[start + rank]
                    else:
                        raise ValueError(t)
                val = fac * (nom + delta)
                if clip_sample is not None:
                    val = ops.maximum(val, ops.num(clip_sample))
                per_sample.setdefault(s["name"], {})[g] = val
                tot = tot + val
            if clip_bin is not None:
                tot = ops.maximum(tot, ops.num(clip_bin))
            out.append(tot)
            g += 1
    if by_sample:
        return out, per_sample
    return out


def user_config(spec, pname):
    for p in spec.get("parameters", []) or []:
        if p["name"] == pname:
            return p
    return {}


def constraint_terms(ops, spec, layout, theta):
    """C02: for every constrained parameter component, in the reported auxiliary-data order:
    (kind, parameter value, width or factor, default auxiliary datum)"""
    terms = []
    for pname in layout.auxdata_order:
        start, stop = layout.par_slices[pname]
        types = sorted({m["type"] for c in spec["channels"] for s in c["samples"] for m in s["modifiers"] if m["name"] == pname})
        cfg = user_config(spec, pname)
        n = stop - start
        if "shapesys" in types:
            # Poisson(tau | gamma * tau), tau = (nominal / uncertainty)^2 of the one sample that carries it
            (ch, s, m), = [(c, s, m) for c in spec["channels"] for s in c["samples"] for m in s["modifiers"] if m["name"] == pname and m["type"] == "shapesys"]
            for b in range(n):
                nom, unc = ops.num(s["data"][b]), ops.num(m["data"][b])
                tau = (nom * nom) / (unc * unc)
                if "factors" in cfg:
                    tau = ops.num(cfg["factors"][b])
                aux = ops.num(cfg["auxdata"][b]) if "auxdata" in cfg else tau
                terms.append(("poisson", theta[start + b], tau, aux))
        elif "staterror" in types:
            bins = bins_declaring(spec, layout, "staterror", pname)
            g2cb = []
            for cname in layout.channels:
                for b in range(layout.channel_nbins[cname]):
                    g2cb.append((cname, b))
            for j, g in enumerate(bins):
                cname, b = g2cb[g]
                ch = find_channel(spec, cname)
                part = [(s, m) for s in ch["samples"] for m in s["modifiers"] if m["type"] == "staterror" and m["name"] == pname]
                N = ops.num(0)
                for s, m in part:
                    N = N + ops.num(s["data"][b])
                q = ops.num(0)
                for s, m in part:
                    r = ops.num(m["data"][b]) / N
                    q = q + r * r
                sigma = ops.sqrt(q)
                if "sigmas" in cfg:
                    sigma = ops.num(cfg["sigmas"][j])
                aux = ops.num(cfg["auxdata"][j]) if "auxdata" in cfg else ops.num(1)
                terms.append(("normal", theta[start + j], sigma, aux))
        elif "lumi" in types:
            terms.append(("normal", theta[start], ops.num(cfg["sigmas"][0]), ops.num(cfg["auxdata"][0])))
        else:
            # normsys / histosys: unit-width Gaussian
            sigma = ops.num(cfg["sigmas"][0]) if "sigmas" in cfg else ops.num(1)
            aux = ops.num(cfg["auxdata"][0]) if "auxdata" in cfg else ops.num(0)
            terms.append(("normal", theta[start], sigma, aux))
    return terms


def logpdf(ops, spec, layout, theta, data, **clip):
    exp = expected_main(ops, spec, layout, theta, **clip)
    nmain = len(exp)
    main = ops.num(0)
    for g, lam in enumerate(exp):
        main = main + ops.log_poisson(data[g], lam)
    con = ops.num(0)
    for k, (kind, par, w, _aux) in enumerate(constraint_terms(ops, spec, layout, theta)):
        x = data[nmain + k]
        if kind == "normal":
            con = con + ops.log_normal(x, par, w)
        else:
            con = con + ops.log_poisson(x, par * w)
    return main, con


def expected_aux(ops, spec, layout, theta):
    return [par if kind == "normal" else par * w for kind, par, w, _ in constraint_terms(ops, spec, layout, theta)]


def default_auxdata(ops, spec, layout, theta=None):
    theta = theta or [ops.num(0)] * layout.npars
    return [aux for _, _, _, aux in constraint_terms(ops, spec, layout, theta)]
