"""Native replay / bounded tier: the concrete skeleton built with the real pyhf, compared with the float oracle."""
import math
import random


def concretise(skel, rng):
    """numeric instance of a skeleton: positive yields, variations around nominal, uncertainties"""
    from . import hf_skeleton as K

    class Num:
        def __init__(self):
            self.leaves = {}

        def __call__(self, name):
            if name.endswith(".hi") or ".hi" in name.split(".")[-1]:
                v = round(rng.uniform(1.05, 1.4), 3)
            elif name.endswith(".lo") or ".lo" in name.split(".")[-1]:
                v = round(rng.uniform(0.6, 0.95), 3)
            elif ".u" in name.split(".")[-1][:2] or name.split(".")[-1].startswith("u"):
                v = round(rng.uniform(0.5, 3.0), 3)
            elif name == "lumi.aux":
                v = round(rng.uniform(0.8, 2.5), 3)
            elif name == "lumi.sigma":
                v = round(rng.uniform(0.02, 0.2), 3)
            else:
                v = round(rng.uniform(5.0, 60.0), 3)
            self.leaves[name] = v
            return v
    num = Num()
    sk = dict(skel)
    pars = sk.pop("parameters", None)
    spec, _ = K.build_spec(sk, num)
    if pars and not isinstance(pars, str):
        spec["parameters"] = list(spec.get("parameters", [])) + [dict(p) for p in pars]
    # histosys variations are absolute histograms: scale them around the nominal
    for ch in spec["channels"]:
        for s in ch["samples"]:
            for m in s["modifiers"]:
                if m["type"] == "histosys":
                    m["data"]["hi_data"] = [round(n * rng.uniform(1.05, 1.3), 3) for n in s["data"]]
                    m["data"]["lo_data"] = [round(n * rng.uniform(0.7, 0.95), 3) for n in s["data"]]
    return spec


def native_layout(model):
    from . import hf_oracle as O
    cfg = model.config
    slices = {k: (v["slice"].start, v["slice"].stop) for k, v in cfg.par_map.items()}
    codes = {k: v["interpcode"] for k, v in cfg.modifier_settings.items() if "interpcode" in v}
    return O.Layout(cfg.channels, cfg.channel_nbins, slices, cfg.auxdata_order, cfg.npars, codes)


def random_theta(model, rng, wide, far=False):
    th = []
    for (lo, hi), init in zip(model.config.suggested_bounds(), model.config.suggested_init()):
        if far and lo < 0:
            # beyond the suggested bounds of a nuisance parameter (bounds are suggestions; the statement covers every parameter point)
            th.append(rng.choice([-1.0, 1.0]) * rng.uniform(abs(lo) + 0.5, abs(lo) + 3.0))
        elif wide:
            th.append(rng.uniform(max(lo, -3.0) if lo < 0 else lo + 1e-3, min(hi, 3.0)))
        else:
            th.append(rng.uniform(max(lo, init - 0.5), min(hi, init + 0.5)))
    return th


def native_compare(skel, variant="default", what="expected", seed=7, batch=None):
    import numpy as np
    import pyhf
    from . import hf_oracle as O
    from .C01_rates import CODESETS
    pyhf.set_backend("numpy")
    rng = random.Random(seed)
    spec = concretise(skel, rng)
    kw = {}
    if variant == "codes1":
        kw["modifier_settings"] = CODESETS[1]
    if variant == "codes2":
        kw["modifier_settings"] = CODESETS[2]
    clip = {}
    if variant == "clip":
        clip = {"clip_sample": 0.7, "clip_bin": 1.1}
        kw.update(clip_sample_data=0.7, clip_bin_data=1.1)
    if variant == "clipbin":
        # only the per-bin floor, placed above the smallest nominal bin total so that it is certainly active at some points
        totals = [sum(s_["data"][b] for s_ in ch["samples"]) for ch in spec["channels"] for b in range(len(ch["samples"][0]["data"]))]
        floor = 1.05 * sorted(totals)[len(totals) // 2]
        clip = {"clip_bin": floor}
        kw.update(clip_bin_data=floor)
    if batch:
        kw["batch_size"] = batch
    try:
        model = pyhf.Model(spec, poi_name=skel.get("poi"), validate=True, **kw)
    except Exception as e:
        return {"reproduced": True, "disagreements": [f"construction failed: {type(e).__name__}: {e}"]}
    lay = native_layout(model)
    bad = []
    if what == "logpdf":
        want_aux = O.default_auxdata(O.FOps, spec, lay)
        got_aux = [float(x) for x in model.config.auxdata]
        if len(got_aux) != len(want_aux) or any(abs(a - b) > 1e-9 * max(1, abs(b)) for a, b in zip(got_aux, want_aux)):
            bad.append({"what": "config.auxdata (nominal auxiliary data in the reported order, overrides verbatim)", "got": got_aux, "oracle": want_aux})
    for trial in range(8):
        rows = [random_theta(model, rng, wide=trial % 2 == 0, far=trial >= 6) for _ in range(batch or 1)]
        nmain = model.config.nmaindata
        datas = []
        for th in rows:
            aux = O.default_auxdata(O.FOps, spec, lay)
            datas.append([float(rng.randint(0, 80)) + (0.5 if trial == 3 else 0.0) for _ in range(nmain)] + [a * rng.uniform(0.8, 1.2) for a in aux])
        if what == "expected":
            got = np.asarray(model.expected_actualdata(rows if batch else rows[0]))
            got = got if batch else got[None, :]
            full = np.asarray(model.expected_data(rows if batch else rows[0]))
            full = full if batch else full[None, :]
            for a, th in enumerate(rows):
                want = O.expected_main(O.FOps, spec, lay, th, **clip)
                for g, (x, y) in enumerate(zip(got[a], want)):
                    if abs(x - y) > 1e-8 * max(1.0, abs(y)):
                        bad.append({"row": a, "bin": g, "theta": th, "got": float(x), "oracle": float(y)})
                if not clip:
                    wfull = want + O.expected_aux(O.FOps, spec, lay, th)
                    if len(full[a]) != len(wfull):
                        bad.append({"row": a, "what": "expected_data length", "got": len(full[a]), "oracle": len(wfull)})
                    else:
                        for g, (x, y) in enumerate(zip(full[a], wfull)):
                            if abs(x - y) > 1e-8 * max(1.0, abs(y)):
                                bad.append({"row": a, "what": "expected_data (main then auxiliary part)", "position": g, "theta": th, "got": float(x), "oracle": float(y)})
        else:
            got = np.asarray(model.logpdf(rows if batch else rows[0], datas if batch else datas[0])).reshape(-1)
            for a, (th, d) in enumerate(zip(rows, datas)):
                main, con = O.logpdf(O.FOps, spec, lay, th, d, **clip)
                want = main + con
                if not (abs(got[a] - want) <= 1e-7 * max(1.0, abs(want))):
                    bad.append({"row": a, "theta": th, "data": d, "got": float(got[a]), "oracle": float(want)})
    return {"reproduced": bool(bad), "disagreements": bad[:4], "spec": spec if bad else None}
