"""C16 - Workspace combine / prune / rename / sorted act as advertised.

(B2, skeleton-bounded, value-unbounded)  Workspaces are built from structure skeletons (names and list
orders concrete, every number an independent symbol; the two operands of a combination use disjoint
symbol sets, so 'overlapping-identical' and 'overlapping-conflicting' are the two branches of the
equality tests the real code performs - both are explored).  The REAL Workspace.combine (with
_join_items / _join_versions / _join_channels / _join_observations / _join_measurements /
_join_parameter_configs), prune, rename, _prune_and_rename, sorted and Workspace.__init__ are executed
symbolically and compared with specification functions written from the statement:
  combine: refused (InvalidWorkspaceOperation) exactly when the statement says so - common names under
           join 'none'; same name with different content under 'outer' (channels, observations, parameter
           configurations), different POI, different versions; ValueError for an unknown join or merging
           without an outer join - otherwise every channel / observation / measurement of both operands
           is contained once and unchanged (the primary side wins under the one-sided joins; with channel
           merging the samples of a common channel are united by name);
  prune:   exactly the named items are removed (modifier names also from the parameter configurations),
           everything else is unchanged; unknown names are refused;
  rename:  pure relabelling (POI and parameter configurations along), undone by the inverse renaming;
  sorted:  same content, idempotent, equal for every permutation of the input lists;
  all:     the result is a new Workspace validated against workspace.json; operands are not modified and
           share no mutable state with the result.
The likelihood clauses (product of main likelihoods, each constraint once, unchanged remainder) follow
from these clauses by C01 / C02 (the model is a function of the channel list and the parameter
configuration, parameters identified by name); the native replay compares logpdf values."""
import copy as _copy
import itertools

import z3

from pyvc.values import PyRaise, Rec, Unsupported, is_z
from . import hf_skeleton as K
from .C18_roundtrip import build_workspace
from .common import calls_to

PROPERTY = "C16"
LEVEL = "proof"
WS = "workspace.py"
EXPLANATION = ("the real combine / prune / rename / sorted code is executed symbolically on workspace skeletons with symbolic numbers; all branches of the "
               "content comparisons (identical vs conflicting overlap) are explored and each outcome is proved to be the one the statement prescribes")
TRUSTED = ["schema validation (schema.validate) is a contract: called on the produced specification with workspace.json; its verdict is assumed (C20 covers refusals)",
           "copy.deepcopy returns a structurally equal copy sharing no mutable state (modelled)",
           "likelihood clauses derived from the structural clauses via C01 / C02 (not re-proved here; compared natively in the replay)"]
ASSUMPTIONS = ["structure bounded by the operand skeletons / selections / permutations listed in the evidence; numbers unbounded",
               "names within one list are unique in the operands (guaranteed for valid workspaces by C20)"]

M1 = [("m1", "mu", ["n1"])]
OPERANDS = {
    # name: (skeleton, version)
    "A": {"channels": [("c1", 2, [("sig", [("normfactor", "mu"), ("normsys", "n1")]), ("bkg", [("staterror", "st1"), ("histosys", "h1")])])],
          "measurements": [("m1", "mu", ["n1"])], "normfactor_cfg": ["mu"]},
    "B-disjoint-other-measurement": {"channels": [("c2", 1, [("sig", [("normfactor", "mu"), ("normsys", "n1")]), ("qcd", [("shapesys", "ss")])])],
                                     "measurements": [("m2", "mu", [])], "normfactor_cfg": []},
    "B-disjoint-same-measurement": {"channels": [("c2", 1, [("sig", [("normfactor", "mu"), ("normsys", "n2")])])],
                                    "measurements": [("m1", "mu", ["n2"])], "normfactor_cfg": ["mu"]},
    "B-same-channel": {"channels": [("c1", 2, [("sig", [("normfactor", "mu"), ("normsys", "n1")]), ("bkg", [("staterror", "st1"), ("histosys", "h1")])]),
                                    ("c3", 1, [("sig", [("normfactor", "mu")])])],
                       "measurements": [("m1", "mu", ["n1"])], "normfactor_cfg": ["mu"]},
    "B-same-channel-name-other-samples": {"channels": [("c1", 2, [("sig", [("normfactor", "mu"), ("normsys", "n1")]), ("top", [("normsys", "n3")])])],
                                          "measurements": [("m3", "mu", [])], "normfactor_cfg": []},
    "B-other-poi": {"channels": [("c2", 1, [("sig", [("normfactor", "mu"), ("normfactor", "k")])])],
                    "measurements": [("m1", "k", [])], "normfactor_cfg": []},
}
PAIRS = [("A", "B-disjoint-other-measurement"), ("A", "B-disjoint-same-measurement"), ("A", "B-same-channel"),
         ("A", "B-same-channel-name-other-samples"), ("A", "B-other-poi")]
JOINS = ["none", "outer", "left outer", "right outer"]

BIG = {"channels": [("zz", 2, [("sig", [("normfactor", "mu"), ("normsys", "n1"), ("histosys", "h1")]), ("bkg", [("staterror", "st"), ("normsys", "n1"), ("histosys", "n1")])]),
                    ("aa", 1, [("bkg", [("shapesys", "ss"), ("normsys", "n2"), ("histosys", "h1")]), ("sig", [("normfactor", "mu"), ("lumi", "lumi")])]),
                    ("mm", 2, [("qcd", [("shapefactor", "sf")]), ("bkg", [("normsys", "n2")])])],
       "measurements": [("meas2", "mu", ["n1", "lumi"]), ("meas1", "mu", ["h1"])], "normfactor_cfg": ["mu"]}


# ---------------------------------------------------------------- helpers on documents
def deq(a, b):
    """structural equality of two documents with symbolic leaves: python bool or z3 Bool"""
    if isinstance(a, Rec) and "__dict_storage__" in a.attrs:
        a = a.attrs["__dict_storage__"]
    if isinstance(b, Rec) and "__dict_storage__" in b.attrs:
        b = b.attrs["__dict_storage__"]
    if isinstance(a, dict) and isinstance(b, dict):
        if set(a) != set(b):
            return False
        parts = [deq(a[k], b[k]) for k in a]
    elif isinstance(a, (list, tuple)) and isinstance(b, (list, tuple)):
        if len(a) != len(b):
            return False
        parts = [deq(x, y) for x, y in zip(a, b)]
    elif is_z(a) or is_z(b):
        if a is None or b is None or isinstance(a, (str, list, dict)) or isinstance(b, (str, list, dict)):
            return False
        x = a if is_z(a) else z3.RealVal(repr(float(a)))
        y = b if is_z(b) else z3.RealVal(repr(float(b)))
        if x.sort() != y.sort():
            x, y = (z3.ToReal(x) if x.is_int() else x), (z3.ToReal(y) if y.is_int() else y)
        return x == y
    else:
        return type(a) is type(b) and a == b if not (isinstance(a, (int, float)) and isinstance(b, (int, float))) else a == b
    if any(p is False for p in parts):
        return False
    zs = [p for p in parts if p is not True]
    return z3.And(*zs) if zs else True


def zb(x):
    return z3.BoolVal(x) if isinstance(x, bool) else x


def zor(xs):
    xs = [zb(x) for x in xs]
    return z3.Or(*xs) if xs else z3.BoolVal(False)


def snapshot(doc):
    """copy of the containers (leaves shared: they are immutable)"""
    if isinstance(doc, Rec) and "__dict_storage__" in doc.attrs:
        doc = doc.attrs["__dict_storage__"]
    if isinstance(doc, dict):
        return {k: snapshot(v) for k, v in doc.items()}
    if isinstance(doc, list):
        return [snapshot(v) for v in doc]
    return doc


def containers(doc, out=None):
    out = [] if out is None else out
    if isinstance(doc, Rec) and "__dict_storage__" in doc.attrs:
        doc = doc.attrs["__dict_storage__"]
    if isinstance(doc, (dict, list)):
        out.append(id(doc))
        for v in (doc.values() if isinstance(doc, dict) else doc):
            containers(v, out)
    return out


def by_name(items):
    return {it["name"]: it for it in items}


def names(items):
    return [it["name"] for it in items]


# ---------------------------------------------------------------- specification of combine
def _union(primary, secondary):
    p = names(primary)
    return list(primary) + [s for s in secondary if s["name"] not in p]


def combine_spec(L, R, join, merge):
    """(exception name or None when a refusal is certain, z3 condition under which the operation is refused, expected sections when accepted)"""
    if join not in JOINS:
        return "ValueError", z3.BoolVal(True), None
    if merge and join == "none":
        return "ValueError", z3.BoolVal(True), None
    refuse = []
    if L["version"] != R["version"]:
        refuse.append(True)
    prim, sec = (R, L) if join == "right outer" else (L, R)
    exp = {}
    for section in ("channels", "observations", "measurements"):
        common = [n for n in names(prim[section]) if n in names(sec[section])]
        if join == "none":
            refuse.append(bool(common))
            exp[section] = _union(prim[section], sec[section])
            continue
        if section == "channels" and merge:
            out = []
            for it in prim[section]:
                if it["name"] in common:
                    other = by_name(sec[section])[it["name"]]
                    out.append({"name": it["name"], "samples": _union(it["samples"], other["samples"])})
                else:
                    out.append(it)
            exp[section] = out + [s for s in sec[section] if s["name"] not in common]
            continue
        if join == "outer":
            if section == "measurements":
                out = []
                for it in prim[section]:
                    if it["name"] not in common:
                        out.append(it)
                        continue
                    other = by_name(sec[section])[it["name"]]
                    refuse.append(it["config"]["poi"] != other["config"]["poi"])
                    pc = [n for n in names(it["config"]["parameters"]) if n in names(other["config"]["parameters"])]
                    for n in pc:
                        e = deq(by_name(it["config"]["parameters"])[n], by_name(other["config"]["parameters"])[n])
                        refuse.append(z3.Not(zb(e)))
                    out.append({"name": it["name"], "config": {"poi": it["config"]["poi"],
                                                              "parameters": _union(it["config"]["parameters"], other["config"]["parameters"])}})
                exp[section] = out + [s for s in sec[section] if s["name"] not in common]
            else:
                for n in common:
                    refuse.append(z3.Not(zb(deq(by_name(prim[section])[n], by_name(sec[section])[n]))))
                exp[section] = _union(prim[section], sec[section])
        else:
            exp[section] = _union(prim[section], sec[section])
    exp["version"] = L["version"]
    return None, zor(refuse), exp


def same_items(got, want, ordered=False):
    """got (list of items) holds exactly the items of `want`, each once (keyed by name; nested lists keyed by name too)"""
    if not isinstance(got, list) or sorted(names(got)) != sorted(names(want)) or len(set(names(got))) != len(got):
        return False
    if ordered and names(got) != names(want):
        return False
    g = by_name(got)
    parts = []
    for w in want:
        parts.append(_same_item(g[w["name"]], w))
    if any(p is False for p in parts):
        return False
    zs = [p for p in parts if p is not True]
    return z3.And(*zs) if zs else True


def _same_item(g, w):
    if set(g) != set(w):
        return False
    parts = []
    for k in w:
        if k in ("samples", "modifiers") and isinstance(w[k], list):
            if k == "modifiers":
                if sorted((m["name"], m["type"]) for m in g[k]) != sorted((m["name"], m["type"]) for m in w[k]):
                    return False
                gm = {(m["name"], m["type"]): m for m in g[k]}
                parts += [deq(gm[(m["name"], m["type"])], m) for m in w[k]]
            else:
                parts.append(same_items(g[k], w[k]))
        elif k == "config":
            parts.append(g[k]["poi"] == w[k]["poi"])
            parts.append(same_items(g[k]["parameters"], w[k]["parameters"]))
        else:
            parts.append(deq(g[k], w[k]))
    if any(p is False for p in parts):
        return False
    zs = [p for p in parts if p is not True]
    return z3.And(*zs) if zs else True


# ---------------------------------------------------------------- running the real code
def policy():
    pol = K.pipeline_policy()
    pol["schema/validator.py::validate"] = lambda eng, c: None       # logged: the call and its arguments are obligations
    return pol


def make_ws(eng, doc):
    W = eng.module(WS).get("Workspace")
    return eng.instantiate(W, [doc], {})


def storage(ws):
    return ws.attrs["__dict_storage__"] if isinstance(ws, Rec) else ws


def common_obligations(T, eng, r, key, sfx, result, operands, snaps, meta):
    """result is a new validated Workspace; operands untouched; nothing shared"""
    W = eng.module(WS).get("Workspace")
    ok = isinstance(result, Rec) and result.cls is W and all(result is not o for o in operands)
    (T.ok if ok else T.fail)(f"{key}#post.returns-a-new-workspace|{sfx}", *([] if ok else [f"returned {type(result).__name__}"]), kind="structure", **meta)
    if not ok:
        return False
    vc = [c for c in calls_to(r.path, "schema/validator.py::validate") if len(c.args) > 1 and c.args[1] == "workspace.json"]
    vc = [c for c in vc if deq(c.args[0], storage(result)) is not False]
    if vc:
        T.ob(eng, f"{key}#post.result-validated-against-the-workspace-schema|{sfx}", r.path.hyps(), zor([deq(c.args[0], storage(result)) for c in vc]), kind="forwarding", **meta)
    else:
        T.fail(f"{key}#post.result-validated-against-the-workspace-schema|{sfx}", "the produced specification is not validated", kind="forwarding", **meta)
    untouched = [deq(storage(o), s) for o, s in zip(operands, snaps)]
    if any(u is False for u in untouched):
        T.fail(f"{key}#frame.operands-untouched|{sfx}", "an operand was modified", kind="frame", **meta)
    else:
        T.ob(eng, f"{key}#frame.operands-untouched|{sfx}", r.path.hyps(), z3.And(*[zb(u) for u in untouched]), kind="frame", **meta)
    shared = set(containers(result)) & set(itertools.chain.from_iterable(containers(o) for o in operands))
    (T.ok if not shared else T.fail)(f"{key}#frame.result-shares-no-mutable-state-with-operands|{sfx}", *([] if not shared else [f"{len(shared)} shared containers"]), kind="frame", **meta)
    return True


def run_combine(T, lname, rname, join, merge, version_clash=False):
    key = f"{WS}::Workspace.combine"
    eng = T.engine(policy())
    for k in ("combine", "__init__"):
        T.under_contract(eng, f"{WS}::Workspace.{k}")
    for k in ("_join_items", "_join_versions", "_join_channels", "_join_observations", "_join_measurements", "_join_parameter_configs"):
        T.under_contract(eng, f"{WS}::{k}")
    box = {}

    def thunk():
        Ld, symL = build_workspace(OPERANDS[lname], "L.")
        Rd, symR = build_workspace(OPERANDS[rname], "R.")
        if version_clash:
            Rd["version"] = "1.1.0"
        left, right = make_ws(eng, Ld), make_ws(eng, Rd)
        box.update(L=snapshot(left), R=snapshot(right), left=left, right=right)
        n0 = len(eng.path.calls)
        W = eng.module(WS).get("Workspace")
        kw = {"join": join}
        if merge is not None:
            kw["merge_channels"] = merge
        try:
            res = eng.call(eng.getattr(W, "combine"), [left, right], kw)
        finally:
            box["left"], box["right"] = left, right
        return res
    results = eng.explore(thunk)
    T.absorb(eng, results)
    meta = dict(left=lname, right=rname, join=join, merge=bool(merge), version_clash=version_clash)
    tag = f"{lname}+{rname},{join}" + (",merge" if merge else "") + (",version-clash" if version_clash else "")
    kinds = set()
    for k, r in enumerate(results):
        sfx = f"{tag},path{k}"
        certain, refuse, exp = combine_spec(box["L"], box["R"], join, bool(merge))
        hy = r.path.hyps()
        if r.kind == "raise":
            kinds.add("raise")
            want = certain or "InvalidWorkspaceOperation"
            ok = r.exc_name == want
            (T.ok if ok else T.fail)(f"{key}#raises.type|{sfx}", *([] if ok else [f"raises {r.exc_name}, the statement prescribes {want}"]), kind="raises", **meta)
            T.ob(eng, f"{key}#raises.only-incompatible-operands-are-refused|{sfx}", hy, refuse, kind="raises", **meta)
            continue
        if r.kind != "return":
            T.fail(f"{key}#paths|{sfx}", f"path ends with {r.kind}", **meta)
            continue
        kinds.add("return")
        T.ob(eng, f"{key}#raises.incompatible-operands-are-refused|{sfx}", hy, z3.Not(refuse), kind="raises", **meta)
        if exp is None:
            continue
        left, right = r.path.__dict__.get("c16", (None, None)) if False else (box["left"], box["right"])
        if not common_obligations(T, eng, r, key, sfx, r.value, [left, right], [box["L"], box["R"]], meta):
            continue
        got = storage(r.value)
        for section in ("channels", "observations", "measurements"):
            s = same_items(got.get(section), exp[section])
            if s is False:
                T.fail(f"{key}#post.every-{section[:-1]}-of-both-once-and-unchanged|{sfx}",
                       f"{section}: got {names(got.get(section) or [])}, specification {names(exp[section])} (or content differs structurally)", **meta)
            else:
                T.ob(eng, f"{key}#post.every-{section[:-1]}-of-both-once-and-unchanged|{sfx}", hy, zb(s), **meta)
        okv = got.get("version") == exp["version"] and set(got) == {"channels", "observations", "measurements", "version"}
        (T.ok if okv else T.fail)(f"{key}#post.version-and-sections|{sfx}", *([] if okv else [f"sections {sorted(got)} version {got.get('version')}"]), kind="structure", **meta)
    if not results:
        T.fail(f"{key}#paths|{tag}", "no path", **meta)
        return kinds
    _, refuse, _ = combine_spec(box["L"], box["R"], join, bool(merge))
    rs = z3.simplify(refuse)
    need = {"raise"} if z3.is_true(rs) else ({"return"} if z3.is_false(rs) else {"raise", "return"})
    ok = kinds == need
    (T.ok if ok else T.fail)(f"{key}#paths.accepting-and-refusing-outcomes-explored|{tag}", *([] if ok else [f"outcomes {sorted(kinds)}, the statement allows {sorted(need)}"]), kind="raises", **meta)
    return kinds


def t_combine(chunk):
    def task(T):
        for lname, rname, join, merge, vc in chunk:
            run_combine(T, lname, rname, join, merge, vc)
        T.bounded_block("skeleton-bounded symbolic execution of Workspace.combine", f"{len(chunk)} operand pair x join x merge cases; numbers symbolic, identical / conflicting overlap both explored", len(chunk), 0)
    return task


def combine_cases(tier):
    cases = []
    for l, r in PAIRS:
        for j in JOINS:
            for m in (False, True):
                cases.append((l, r, j, m, False))
    cases.append(("A", "B-disjoint-other-measurement", "none", False, True))
    cases.append(("A", "B-disjoint-other-measurement", "outer", False, True))
    cases.append(("A", "B-disjoint-other-measurement", "inner", None, False))
    cases.append(("A", "B-disjoint-other-measurement", "left", False, False))
    if tier != "quick":
        for l, r in PAIRS:
            for j in JOINS:
                cases.append((r, l, j, False, False))
    return cases


# ---------------------------------------------------------------- prune / rename / sorted
def prune_spec(doc, modifiers=(), modifier_types=(), samples=(), channels=(), measurements=()):
    return {
        "channels": [{"name": c["name"], "samples": [{"name": s["name"], "data": s["data"],
                                                      "modifiers": [m for m in s["modifiers"] if m["name"] not in modifiers and m["type"] not in modifier_types]}
                                                     for s in c["samples"] if s["name"] not in samples]}
                     for c in doc["channels"] if c["name"] not in channels],
        "measurements": [{"name": m["name"], "config": {"poi": m["config"]["poi"], "parameters": [p for p in m["config"]["parameters"] if p["name"] not in modifiers]}}
                         for m in doc["measurements"] if m["name"] not in measurements],
        "observations": [o for o in doc["observations"] if o["name"] not in channels],
        "version": doc["version"]}


def rename_spec(doc, modifiers=None, samples=None, channels=None, measurements=None):
    mo, sa, ch, me = modifiers or {}, samples or {}, channels or {}, measurements or {}
    return {
        "channels": [{"name": ch.get(c["name"], c["name"]),
                      "samples": [{"name": sa.get(s["name"], s["name"]), "data": s["data"], "modifiers": [dict(m, name=mo.get(m["name"], m["name"])) for m in s["modifiers"]]}
                                  for s in c["samples"]]} for c in doc["channels"]],
        "measurements": [{"name": me.get(m["name"], m["name"]),
                          "config": {"poi": mo.get(m["config"]["poi"], m["config"]["poi"]), "parameters": [dict(p, name=mo.get(p["name"], p["name"])) for p in m["config"]["parameters"]]}}
                         for m in doc["measurements"]],
        "observations": [dict(o, name=ch.get(o["name"], o["name"])) for o in doc["observations"]],
        "version": doc["version"]}


PRUNES = [
    ("modifier-n1", dict(modifiers=["n1"])),
    ("modifier-type-normsys", dict(modifier_types=["normsys"])),
    ("sample-bkg", dict(samples=["bkg"])),
    ("channel-aa", dict(channels=["aa"])),
    ("measurement-meas1", dict(measurements=["meas1"])),
    ("several", dict(modifiers=["h1", "lumi"], modifier_types=["shapefactor"], samples=["qcd"], channels=["zz"], measurements=["meas2"])),
    # a type that occurs ONLY on names it shares with a later-sorting type (histosys 'h1' is also a normsys; histosys 'n1' also a normsys)
    ("modifier-type-hidden-behind-a-shared-name", dict(modifier_types=["histosys"]), "SHARED"),
    ("nothing", dict()),
]
SHARED = {"channels": [("c1", 2, [("sig", [("normfactor", "mu")]), ("bkg", [("normsys", "syst"), ("histosys", "syst")])])],
          "measurements": [("meas", "mu", ["syst"])], "normfactor_cfg": []}
SKELS = {"BIG": BIG, "SHARED": SHARED}
BAD_PRUNES = [("unknown-modifier", dict(modifiers=["nope"])), ("unknown-type", dict(modifier_types=["histosys2"])), ("unknown-sample", dict(samples=["nope"])),
              ("unknown-channel", dict(channels=["c9"])), ("unknown-measurement", dict(measurements=["nope"])), ("type-absent-from-workspace", dict(modifier_types=["code9"]))]
RENAMES = [
    ("modifier-n1", dict(modifiers={"n1": "n9"})),
    ("poi", dict(modifiers={"mu": "signal_strength"})),
    ("sample", dict(samples={"bkg": "background"})),
    ("channel", dict(channels={"aa": "region_a"})),
    ("measurement", dict(measurements={"meas1": "nominal"})),
    ("all-kinds", dict(modifiers={"h1": "shape1", "lumi": "lumi2"}, samples={"sig": "signal"}, channels={"zz": "a0", "mm": "zzz"}, measurements={"meas2": "m"})),
    ("swap-two-channels", dict(channels={"aa": "zz", "zz": "aa"})),
]
BAD_RENAMES = [("unknown-modifier", dict(modifiers={"nope": "x"})), ("unknown-sample", dict(samples={"nope": "x"})), ("unknown-channel", dict(channels={"c9": "x"})),
               ("unknown-measurement", dict(measurements={"nope": "x"}))]


def _whole(got, want, ordered=True):
    parts = [same_items(got.get(sec), want[sec], ordered=ordered) for sec in ("channels", "observations", "measurements")]
    parts.append(got.get("version") == want["version"] and set(got) == set(want))
    if any(p is False for p in parts):
        return False
    zs = [p for p in parts if p is not True]
    return z3.And(*zs) if zs else True


def run_prune_rename(T, op, name, kwargs, bad, skel="BIG"):
    key = f"{WS}::Workspace.{op}"
    eng = T.engine(policy())
    T.under_contract(eng, key)
    T.under_contract(eng, f"{WS}::Workspace._prune_and_rename")
    box = {}

    def thunk():
        doc, _ = build_workspace(SKELS[skel])
        w = make_ws(eng, doc)
        box.update(snap=snapshot(w), w=w)
        res = eng.call(eng.getattr(w, op), [], _copy.deepcopy(kwargs))
        if op == "rename" and not bad:
            inv = {k: {b: a for a, b in v.items()} for k, v in kwargs.items()}
            box["snap_res"] = snapshot(res)
            back = eng.call(eng.getattr(res, "rename"), [], inv)
            return res, back
        return res, None
    results = eng.explore(thunk)
    T.absorb(eng, results)
    meta = dict(op=op, selection=name, skeleton=skel)
    for k, r in enumerate(results):
        sfx = f"{name},path{k}"
        if bad:
            ok = r.kind == "raise" and r.exc_name == "InvalidWorkspaceOperation"
            (T.ok if ok else T.fail)(f"{key}#raises.unknown-names-refused|{sfx}", *([] if ok else [f"{r.kind} {getattr(r, 'exc_name', '')}"]), kind="raises", **meta)
            continue
        if r.kind != "return":
            T.fail(f"{key}#no-raise|{sfx}", f"raises {r.exc_name} {getattr(r.value, 'eargs', '')}", kind="raises", **meta)
            continue
        res, back = r.value
        if not common_obligations(T, eng, r, key, sfx, res, [box["w"]], [box["snap"]], meta):
            continue
        want = (prune_spec if op == "prune" else rename_spec)(box["snap"], **kwargs)
        s = _whole(box.get("snap_res") or storage(res), want)
        clause = "post.exactly-the-named-items-removed-rest-unchanged" if op == "prune" else "post.pure-relabelling"
        if s is False:
            T.fail(f"{key}#{clause}|{sfx}", "result differs structurally from the specification", **meta)
        else:
            T.ob(eng, f"{key}#{clause}|{sfx}", r.path.hyps(), zb(s), **meta)
        if back is not None:
            s2 = _whole(storage(back), box["snap"])
            if s2 is False:
                T.fail(f"{key}#post.undone-by-the-inverse-renaming|{sfx}", "renaming back does not restore the workspace", **meta)
            else:
                T.ob(eng, f"{key}#post.undone-by-the-inverse-renaming|{sfx}", r.path.hyps(), zb(s2), **meta)
    if not results:
        T.fail(f"{key}#paths|{name}", "no path", **meta)


def permute(doc, how):
    d = snapshot(doc)
    if how == "reverse-all":
        d["channels"].reverse()
        for c in d["channels"]:
            c["samples"].reverse()
            for s in c["samples"]:
                s["modifiers"].reverse()
        d["measurements"].reverse()
        for m in d["measurements"]:
            m["config"]["parameters"].reverse()
        d["observations"].reverse()
    elif how == "rotate":
        rot = lambda x: x[1:] + x[:1]
        d["channels"] = rot(d["channels"])
        for c in d["channels"]:
            c["samples"] = rot(c["samples"])
            for s in c["samples"]:
                s["modifiers"] = rot(s["modifiers"])
        d["observations"] = rot(rot(d["observations"]))
        for m in d["measurements"]:
            m["config"]["parameters"] = rot(m["config"]["parameters"])
    elif how == "observations-only":
        d["observations"].reverse()
    return d


def run_sorted(T, how):
    key = f"{WS}::Workspace.sorted"
    eng = T.engine(policy())
    T.under_contract(eng, key)
    box = {}

    def thunk():
        doc, _ = build_workspace(BIG)
        W = eng.module(WS).get("Workspace")
        w = make_ws(eng, doc)
        wp = make_ws(eng, permute(doc, how))
        box.update(snap=snapshot(w), w=w, wp=wp, snap_p=snapshot(wp))
        s1 = eng.call(eng.getattr(W, "sorted"), [w], {})
        s1_snap = snapshot(s1)
        s2 = eng.call(eng.getattr(W, "sorted"), [s1], {})
        s3 = eng.call(eng.getattr(W, "sorted"), [wp], {})
        box["s1_snap"] = s1_snap
        return s1, s2, s3
    results = eng.explore(thunk)
    T.absorb(eng, results)
    meta = dict(op="sorted", permutation=how)
    for k, r in enumerate(results):
        sfx = f"{how},path{k}"
        if r.kind != "return":
            T.fail(f"{key}#no-raise|{sfx}", f"raises {r.exc_name}", kind="raises", **meta)
            continue
        s1, s2, s3 = r.value
        if not common_obligations(T, eng, r, key, sfx, s3, [box["w"], box["wp"], s1], [box["snap"], box["snap_p"], box["s1_snap"]], meta):
            continue
        hy = r.path.hyps()
        g = storage(s1)
        content = _whole(g, box["snap"], ordered=False)
        if content is False:
            T.fail(f"{key}#post.same-content|{sfx}", "sorting changed the content", **meta)
        else:
            T.ob(eng, f"{key}#post.same-content|{sfx}", hy, zb(content), **meta)
        in_order = (names(g["channels"]) == sorted(names(g["channels"])) and names(g["observations"]) == sorted(names(g["observations"]))
                    and names(g["measurements"]) == sorted(names(g["measurements"]))
                    and all(names(c["samples"]) == sorted(names(c["samples"])) for c in g["channels"])
                    and all([(m["name"], m["type"]) for m in s["modifiers"]] == sorted((m["name"], m["type"]) for m in s["modifiers"]) for c in g["channels"] for s in c["samples"])
                    and all(names(m["config"]["parameters"]) == sorted(names(m["config"]["parameters"])) for m in g["measurements"]))
        (T.ok if in_order else T.fail)(f"{key}#post.lists-in-key-order|{sfx}", *([] if in_order else ["a list is not in key order"]), kind="structure", **meta)
        for clause, a, b in (("post.idempotent", s2, s1), ("post.canonical-under-permutation", s3, s1)):
            e = deq(storage(a), storage(b))
            if e is False:
                T.fail(f"{key}#{clause}|{sfx}", "results differ structurally", **meta)
            else:
                T.ob(eng, f"{key}#{clause}|{sfx}", hy, zb(e), **meta)
    if not results:
        T.fail(f"{key}#paths|{how}", "no path", **meta)


def run_constructor_ownership(T):
    """Workspace(spec) owns its content: whatever spec is - a plain dict or another Workspace - the new object has the same content and
    shares no mutable container with spec (every operation above, and PatchSet.apply, returns its result through this constructor;
    an in-place edit of a result must never reach an operand, a stored patch or an earlier result)"""
    key = f"{WS}::Workspace.__init__"
    eng = T.engine(policy())
    T.under_contract(eng, key)
    box = {}

    def thunk():
        d, _ = build_workspace(OPERANDS[sorted(OPERANDS)[0]], "L.")
        first = make_ws(eng, d)
        second = make_ws(eng, first)
        box.update(d=d, first=first, second=second)
        return second
    results = eng.explore(thunk)
    T.absorb(eng, results)
    for k, r in enumerate(results):
        sfx = f"path{k}"
        if r.kind != "return":
            T.fail(f"{key}#no-raise|{sfx}", str(r.exc_name), kind="raises", constructor=True)
            continue
        d, first, second = box["d"], box["first"], box["second"]
        for tag, new, src in (("from-a-dict", first, d), ("from-a-Workspace", second, first)):
            same = deq(storage(new), storage(src))
            if same is False:
                T.fail(f"{key}#post.same-content|{tag},{sfx}", "content differs", kind="structure", constructor=True)
            else:
                T.ob(eng, f"{key}#post.same-content|{tag},{sfx}", r.path.hyps(), zb(same), kind="structure", constructor=True)
            shared = set(containers(new)) & set(containers(src))
            (T.ok if not shared else T.fail)(f"{key}#frame.shares-no-mutable-state-with-its-argument|{tag},{sfx}",
                                             *([] if not shared else [f"{len(shared)} containers shared with the argument"]), kind="frame", constructor=True)


def tasks(tier):
    out = [("Workspace.__init__.ownership", run_constructor_ownership)]
    cases = combine_cases(tier)
    for i in range(0, len(cases), 4):
        chunk = cases[i:i + 4]
        out.append((f"combine[{i // 4}:{chunk[0][0]}+{chunk[0][1]},{chunk[0][2]}..]", t_combine(chunk)))
    for op, sels, bads in (("prune", PRUNES, BAD_PRUNES), ("rename", RENAMES, BAD_RENAMES)):
        def mk(op, sels, bads):
            def task(T):
                for n, kw, *sk in sels:
                    run_prune_rename(T, op, n, kw, False, *(sk or ["BIG"]))
                for n, kw, *sk in bads:
                    run_prune_rename(T, op, n, kw, True, *(sk or ["BIG"]))
                T.bounded_block(f"skeleton-bounded symbolic execution of Workspace.{op}", f"{len(sels)} selections + {len(bads)} refused selections on a 3-channel, 2-measurement workspace; numbers symbolic", len(sels) + len(bads), 0)
            return task
        out.append((op, mk(op, sels, bads)))
    for how in ("reverse-all", "rotate", "observations-only"):
        out.append((f"sorted[{how}]", (lambda how: lambda T: run_sorted(T, how))(how)))
    return out


# ---------------------------------------------------------------- native replay
def _concrete(skel, seed, prefix=""):
    from .C18_roundtrip import concrete_workspace
    return concrete_workspace(skel, seed)


def _native_logpdf(pyhf, ws, measurement):
    import numpy as np
    m = ws.model(measurement_name=measurement)
    d = ws.data(m)
    pars = np.asarray(m.config.suggested_init(), dtype=float)
    # a parameter point that depends on the parameter NAME only, so that it is the same point in every workspace
    for n in m.config.par_order:
        sl = m.config.par_slice(n)
        h = (sum(map(ord, n)) % 7) / 50.0
        pars[sl] = pars[sl] * (1.0 + h) + h / 3
    return m, d, pars


def replay(r):
    import numpy as np
    import pyhf
    pyhf.set_backend("numpy")
    meta = r.get("meta") or {}
    bad = {}
    if meta.get("constructor"):
        from .C18_roundtrip import concrete_workspace
        d = concrete_workspace(OPERANDS[sorted(OPERANDS)[0]], 1)
        first = pyhf.Workspace(d)
        second = pyhf.Workspace(first)
        for tag, new, src in (("from-a-dict", first, d), ("from-a-Workspace", second, first)):
            before = _copy.deepcopy(dict(src))
            new["channels"][0]["samples"][0]["data"][0] += 17.0
            new["measurements"][0]["config"]["parameters"].append({"name": "extra", "fixed": True})
            if dict(src) != before:
                bad[tag] = "an in-place edit of the new Workspace changed the object it was built from"
        return {"reproduced": bool(bad), "disagreements": bad}
    if "left" in meta:
        from .C18_roundtrip import concrete_workspace
        Ld, Rd = concrete_workspace(OPERANDS[meta["left"]], 1), concrete_workspace(OPERANDS[meta["right"]], 2)
        if meta.get("version_clash"):
            Rd["version"] = "1.1.0"
        for identical in (False, True):
            Rx = _copy.deepcopy(Rd)
            if identical:      # make every overlapping item identical to the left one
                for sec in ("channels", "observations"):
                    for k, it in enumerate(Rx[sec]):
                        if it["name"] in names(Ld[sec]):
                            Rx[sec][k] = _copy.deepcopy(by_name(Ld[sec])[it["name"]])
                for k, it in enumerate(Rx["measurements"]):
                    if it["name"] in names(Ld["measurements"]):
                        lp = by_name(by_name(Ld["measurements"])[it["name"]]["config"]["parameters"])
                        it["config"]["parameters"] = [_copy.deepcopy(lp.get(p["name"], p)) for p in it["config"]["parameters"]]
            certain, refuse, exp = combine_spec(Ld, Rx, meta["join"], meta["merge"])
            want_refusal = bool(z3.is_true(z3.simplify(refuse)))
            L0, R0 = _copy.deepcopy(Ld), _copy.deepcopy(Rx)
            kw = {"join": meta["join"]}
            if meta.get("merge"):
                kw["merge_channels"] = True
            wl, wr = pyhf.Workspace(Ld), pyhf.Workspace(Rx)
            try:
                out = pyhf.Workspace.combine(wl, wr, **kw)
                refused = None
            except (pyhf.exceptions.InvalidWorkspaceOperation, ValueError) as e:
                refused = type(e).__name__
            except Exception as e:
                bad[f"identical={identical}:crash"] = f"{type(e).__name__}: {e}"
                continue
            tag = f"identical-overlap={identical}"
            if (refused is not None) != want_refusal:
                bad[f"{tag}:refusal"] = {"refused": refused, "statement": "refuse" if want_refusal else "accept"}
                continue
            if dict(wl) != L0 or dict(wr) != R0:
                bad[f"{tag}:operands-modified"] = True
            if refused is None and exp is not None:
                for sec in ("channels", "observations", "measurements"):
                    s = same_items(list(out[sec]), exp[sec])
                    if s is False or (s is not True and not z3.is_true(z3.simplify(s))):
                        bad[f"{tag}:{sec}"] = {"got": names(out[sec]), "want": names(exp[sec])}
                # likelihood: main log-likelihood of the combination == sum of the operands' (disjoint channels, parameters by name)
                if not (set(names(Ld["channels"])) & set(names(Rx["channels"]))) and not bad:
                    try:
                        for mname in names(out["measurements"]):
                            mc, dc, pc = _native_logpdf(pyhf, out, mname)
                            tot = 0.0
                            for part in (pyhf.Workspace(Ld), pyhf.Workspace(Rx)):
                                pm = part.model(measurement_name=mname if mname in part.measurement_names else None, poi_name=mc.config.poi_name)
                                pd_ = part.data(pm, include_auxdata=False)
                                pp = np.asarray(pm.config.suggested_init(), dtype=float)
                                for n in pm.config.par_order:
                                    pp[pm.config.par_slice(n)] = pc[mc.config.par_slice(n)]
                                tot += float(np.asarray(pm.mainlogpdf(np.asarray(pd_, dtype=float), pp)).ravel()[0])
                            got = float(np.asarray(mc.mainlogpdf(np.asarray(dc[:mc.config.nmaindata], dtype=float), pc)).ravel()[0])
                            if abs(got - tot) > 1e-8 * max(1.0, abs(tot)):
                                bad[f"{tag}:main-likelihood:{mname}"] = {"combined": got, "sum-of-operands": tot}
                    except Exception as e:
                        bad[f"{tag}:main-likelihood"] = f"{type(e).__name__}: {e}"
        return {"reproduced": bool(bad), "disagreements": bad}
    from .C18_roundtrip import concrete_workspace
    doc = concrete_workspace(BIG, 3)
    w = pyhf.Workspace(doc)
    d0 = _copy.deepcopy(doc)
    op = meta.get("op")
    if op in ("prune", "rename"):
        for sels, specf, isbad in ((PRUNES if op == "prune" else RENAMES, prune_spec if op == "prune" else rename_spec, False),
                                   (BAD_PRUNES if op == "prune" else BAD_RENAMES, None, True)):
            for n, kw, *sk in sels:
                if sk:
                    doc_s = concrete_workspace(SKELS[sk[0]], 3)
                    w_s = pyhf.Workspace(doc_s)
                else:
                    doc_s, w_s = doc, w
                try:
                    out = getattr(w_s, op)(**_copy.deepcopy(kw))
                    refused = False
                except pyhf.exceptions.InvalidWorkspaceOperation:
                    refused = True
                except Exception as e:
                    bad[f"{n}:crash"] = f"{type(e).__name__}: {e}"
                    continue
                if refused != isbad:
                    bad[f"{n}:refusal"] = {"refused": refused, "statement": isbad}
                    continue
                if refused:
                    continue
                s = _whole(dict(out), specf(doc_s, **kw))
                if s is False or (s is not True and not z3.is_true(z3.simplify(s))):
                    bad[f"{n}:result"] = "differs from the specification"
                if op == "rename":
                    inv = {k: {b: a for a, b in v.items()} for k, v in kw.items()}
                    back = out.rename(**inv)
                    if dict(back) != d0:
                        bad[f"{n}:inverse"] = "renaming back does not restore the workspace"
                    # relabelling leaves the likelihood unchanged (measurement 0, parameters matched through the renaming)
                    try:
                        m0 = w.model(measurement_name=doc["measurements"][0]["name"])
                        mn = out.model(measurement_name=kw.get("measurements", {}).get(doc["measurements"][0]["name"], doc["measurements"][0]["name"]))
                        p0 = np.asarray(m0.config.suggested_init(), dtype=float) * 1.1
                        pn = np.asarray(mn.config.suggested_init(), dtype=float)
                        for nm in m0.config.par_order:
                            pn[mn.config.par_slice(kw.get("modifiers", {}).get(nm, nm))] = p0[m0.config.par_slice(nm)]
                        l0 = float(np.asarray(m0.logpdf(p0, np.asarray(w.data(m0), dtype=float))).ravel()[0])
                        # channel order may change with channel renames: compare channel-wise sorted data through the models' own layouts
                        ln = float(np.asarray(mn.logpdf(pn, np.asarray(out.data(mn), dtype=float))).ravel()[0])
                        if abs(l0 - ln) > 1e-8 * max(1.0, abs(l0)):
                            bad[f"{n}:likelihood"] = {"original": l0, "renamed": ln}
                    except Exception as e:
                        bad[f"{n}:likelihood"] = f"{type(e).__name__}: {e}"
        if dict(w) != d0:
            bad["operand-modified"] = True
        return {"reproduced": bool(bad), "disagreements": bad}
    if op == "sorted":
        s1 = pyhf.Workspace.sorted(w)
        if dict(pyhf.Workspace.sorted(s1)) != dict(s1):
            bad["idempotent"] = "sorted(sorted(w)) != sorted(w)"
        for how in ("reverse-all", "rotate", "observations-only"):
            wp = pyhf.Workspace(permute(doc, how))
            if dict(pyhf.Workspace.sorted(wp)) != dict(s1):
                bad[f"canonical:{how}"] = "sorted(permuted w) != sorted(w)"
        c = _whole(dict(s1), doc, ordered=False)
        if c is False or (c is not True and not z3.is_true(z3.simplify(c))):
            bad["content"] = "sorting changed the content"
        m0, ms = w.model(measurement_name="meas1"), s1.model(measurement_name="meas1")
        p0 = np.asarray(m0.config.suggested_init(), dtype=float) * 1.07
        ps = np.asarray(ms.config.suggested_init(), dtype=float)
        for nm in m0.config.par_order:
            ps[ms.config.par_slice(nm)] = p0[m0.config.par_slice(nm)]
        l0 = float(np.asarray(m0.logpdf(p0, np.asarray(w.data(m0), dtype=float))).ravel()[0])
        ls = float(np.asarray(ms.logpdf(ps, np.asarray(s1.data(ms), dtype=float))).ravel()[0])
        if abs(l0 - ls) > 1e-8 * max(1.0, abs(l0)):
            bad["likelihood"] = {"original": l0, "sorted": ls}
        if dict(w) != d0:
            bad["operand-modified"] = True
        return {"reproduced": bool(bad), "disagreements": bad}
    return None
