"""C03 - interpolation codes realise their defining piecewise functions for all alpha.

Specification functions (written from the statement, independent of the code), for a
down / nominal / up triple (d, n, u) and alpha:
  I0  = alpha >= 0 ? alpha (u-n) : alpha (n-d)
  I1  = alpha >= 0 ? (u/n)^alpha : (d/n)^(-alpha)
  I2  = alpha > 1 ? (b+2a)(alpha-1) + (u-n) : alpha < -1 ? (b-2a)(alpha+1) + (d-n) : a alpha^2 + b alpha
        with a = (u+d)/2 - n, b = (u-d)/2   (quadratic through the anchors, linear continuation with the end slope)
  I4  = alpha >= a0 ? (u/n)^alpha : alpha <= -a0 ? (d/n)^(-alpha) : 1 + sum_i c_i alpha^i, c the solution of the six
        boundary conditions (value, first and second derivative of the polynomial == those of the exponentials at +-a0)
  I4p = alpha > 1 ? alpha (u-n) : alpha < -1 ? alpha (n-d) : alpha S + A (15 alpha^2 - 10 alpha^4 + 3 alpha^6),
        S = ((u-n)+(n-d))/2, A = ((u-n)-(n-d))/16
Obligations: code*.__call__ == I_code at a generic element for symbolic shapes, from the state left by
ANY history of earlier calls (class invariant established by __init__, preserved by __call__ and
_precompute); _slow_code*.summand/product == I_code; code4 coefficients satisfy the boundary system;
interpolators.get table; spec lemmas (anchors, continuity, C1/C2 for 4 and 4p)."""
import z3

from pyvc.tcheck import dims_goal, generic_index, tensor_obligation
from pyvc.tensor import PT, Log, Pow, sym_pow
from pyvc.values import Rec, Obj, PyRaise

PROPERTY = "C03"
LEVEL = "proof"
IP = "interpolators"
EXPLANATION = ("the vectorised __call__ / __init__ / _precompute / _precompute_alphasets of the five codes are executed on the current source "
               "under a pointwise tensor semantics with symbolic shapes (S,H,A,B); the generic output element is proved equal to the piecewise "
               "specification for all real alpha and all triples, from the invariant-described state after any call history; the scalar "
               "reference implementations path by path")
TRUSTED = ["tensor op contracts: astensor, einsum (no contraction = product, contraction over 6 = finite sum), where, ones, zeros, power, abs, "
           "divide, log, stack, shape, basic slicing (validated against numpy in the encoding cross-check)",
           "pow(x,0)=1, pow(x,1)=x, pow(x,y)>0 for x>0; log uninterpreted; d/dalpha x^alpha = log(x) x^alpha (used in the C1/C2 lemmas of code 4)",
           "alpha0 = 1 (the only value pyhf constructs code4 with); symbolic alpha0 is not decided"]
ASSUMPTIONS = ["floats are reals: floating-point neighbours of the breakpoints are covered only as reals",
               "_slow_interpolator_looper index bookkeeping is checked for shapes up to (2,2,2,2) only (bounded, labelled so)"]


# ------------------------------------------------------------------ specification (two evaluators)
class ZOps:
    @staticmethod
    def ite(c, a, b):
        return z3.If(c, a, b)

    @staticmethod
    def pow(x, y):
        return sym_pow(x, y if z3.is_expr(y) else z3.RealVal(y))

    @staticmethod
    def log(x):
        return Log(x)

    @staticmethod
    def num(x):
        return z3.RealVal(x)


class FOps:
    @staticmethod
    def ite(c, a, b):
        return a if c else b

    @staticmethod
    def pow(x, y):
        import math
        return math.pow(x, y)

    @staticmethod
    def log(x):
        import math
        return math.log(x)

    @staticmethod
    def num(x):
        return float(x)


def I0(o, al, d, n, u):
    return o.ite(al >= 0, al * (u - n), al * (n - d))


def I1(o, al, d, n, u):
    return o.ite(al >= 0, o.pow(u / n, al), o.pow(d / n, -al))


def I2(o, al, d, n, u):
    a = (u + d) / 2 - n
    b = (u - d) / 2
    return o.ite(al > 1, (b + 2 * a) * (al - 1) + (u - n), o.ite(al < -1, (b - 2 * a) * (al + 1) + (d - n), a * al * al + b * al))


def core4p(d, n, u):
    du, dd = u - n, n - d
    S, A = (du + dd) / 2, (du - dd) / 16
    return [0, S, 15 * A, 0, -10 * A, 0, 3 * A]         # coefficients of alpha^0..alpha^6


def horner(cs, x):
    r = cs[-1]
    for c in reversed(cs[:-1]):
        r = r * x + c
    return r


def deriv(cs):
    return [k * c for k, c in enumerate(cs)][1:] or [0]


def I4p(o, al, d, n, u):
    return o.ite(al > 1, al * (u - n), o.ite(al < -1, al * (n - d), horner(core4p(d, n, u), al)))


def I4(o, al, d, n, u, coeffs, a0=1):
    """coeffs = (c1..c6) of the core polynomial, constrained separately by boundary_system"""
    poly = horner([1] + list(coeffs), al)
    return o.ite(al >= a0, o.pow(u / n, al), o.ite(al <= -a0, o.pow(d / n, -al), poly))


def boundary_system(o, coeffs, d, n, u, a0=1):
    """value, first and second derivative of 1 + sum c_i alpha^i equal those of (u/n)^alpha at +a0 and of (d/n)^(-alpha) at -a0"""
    p = [1] + list(coeffs)
    p1, p2 = deriv(p), deriv(deriv(p))
    up, dn = u / n, d / n
    Lu, Ld = o.log(up), o.log(dn)
    eu, ed = o.pow(up, a0), o.pow(dn, a0)
    return [horner(p, a0) == eu, horner(p, -a0) == ed,
            horner(p1, a0) == Lu * eu, horner(p1, -a0) == -Ld * ed,
            horner(p2, a0) == Lu * Lu * eu, horner(p2, -a0) == Ld * Ld * ed]


SPEC = {"code0": I0, "code1": I1, "code2": I2, "code4p": I4p}
ADDITIVE = {"code0", "code2", "code4p"}

HistF = z3.Function("hist", z3.IntSort(), z3.IntSort(), z3.IntSort(), z3.IntSort(), z3.RealSort())
AlphaF = z3.Function("alpha", z3.IntSort(), z3.IntSort(), z3.RealSort())
AlphaG = z3.Function("alpha_prev", z3.IntSort(), z3.IntSort(), z3.RealSort())


def sym_hist(S, H, B):
    return PT((S, H, 3, B), lambda i: HistF(*[x if z3.is_expr(x) else z3.IntVal(x) for x in i]), "real")


def sym_alphas(S, A, F=AlphaF):
    return PT((S, A), lambda i: F(*[x if z3.is_expr(x) else z3.IntVal(x) for x in i]), "real")


def positivity(S, H, B):
    """all positive down/nominal/up values (the statement's quantifier) - needed only by the multiplicative codes"""
    s, h, k, b = z3.Ints("ps ph pk pb")
    return z3.ForAll([s, h, k, b], HistF(s, h, k, b) > 0)


def triple(s, h, b):
    return HistF(s, h, z3.IntVal(0), b), HistF(s, h, z3.IntVal(1), b), HistF(s, h, z3.IntVal(2), b)


# ------------------------------------------------------------------ class invariants (state after any history)
def inv_fields(eng, code, o, S, H, A0, B):
    """the shape-dependent caches as functions of the last alpha-set shape (S, A0) and the neutral fields"""
    one, zero = z3.RealVal(1), z3.RealVal(0)
    f = {"alphasets_shape": (S, A0),
         "mask_on": PT((S, A0), lambda i: one), "mask_off": PT((S, A0), lambda i: zero)}
    if code in ("code1", "code4"):
        du, dd = o.attrs["deltas_up"], o.attrs["deltas_dn"]
        f["bases_up"] = PT((S, H, A0, B), lambda i: du.fn((i[0], i[1], i[3])))
        f["bases_dn"] = PT((S, H, A0, B), lambda i: dd.fn((i[0], i[1], i[3])))
    if code == "code4":
        f["ones"] = PT((S, H, A0, B), lambda i: one)
    return f


def neutral_fields(eng, code, S, H, B):
    """fields derived from the histograms only (what __init__ must establish), as spec"""
    def h(k):
        return lambda i: HistF(i[0], i[1], z3.IntVal(k), i[2])
    sh = (S, H, B)
    if code in ("code0", "code4p"):
        out = {"deltas_up": (sh, lambda i: h(2)(i) - h(1)(i)), "deltas_dn": (sh, lambda i: h(1)(i) - h(0)(i))}
        if code == "code4p":
            out["S"] = (sh, lambda i: ((h(2)(i) - h(1)(i)) + (h(1)(i) - h(0)(i))) / 2)
            out["A"] = (sh, lambda i: ((h(2)(i) - h(1)(i)) - (h(1)(i) - h(0)(i))) / 16)
    elif code in ("code1", "code4"):
        out = {"deltas_up": (sh, lambda i: h(2)(i) / h(1)(i)), "deltas_dn": (sh, lambda i: h(0)(i) / h(1)(i))}
    else:
        a = lambda i: (h(2)(i) + h(0)(i)) / 2 - h(1)(i)
        b = lambda i: (h(2)(i) - h(0)(i)) / 2
        out = {"a": (sh, a), "b": (sh, b), "b_plus_2a": (sh, lambda i: b(i) + 2 * a(i)), "b_minus_2a": (sh, lambda i: b(i) - 2 * a(i))}
    out["broadcast_helper"] = (sh, lambda i: z3.RealVal(1))
    return out


def make_instance(eng, code, a0=1):
    S, H, B = z3.Ints("S H B")
    eng.assume(z3.And(S >= 1, H >= 1, B >= 1))
    cls = eng.module(f"{IP}/{code}.py").get(code)
    kw = {"subscribe": True}
    if code == "code4" and a0 != 1:
        kw["alpha0"] = a0
    o = eng.instantiate(cls, [sym_hist(S, H, B)], kw)
    return o, S, H, B


def policy(code):
    return {"inline": [f"{IP}/{code}.py::{code}."], "events.py::subscribe": lambda eng, call: (lambda_identity(eng))}


def lambda_identity(eng):
    from pyvc.values import NativeFn
    return NativeFn("subscribe-decorator", lambda f: f)


def check_fields(T, eng, key, hyps, o, fields, tag):
    code = key.split("::")[1].split(".")[0]
    for name, exp in fields.items():
        act = o.attrs.get(name)
        if act is None:
            T.fail(f"{key}#inv.{name}{tag}", "field missing", code=code)
            continue
        if name == "alphasets_shape":
            T.ob(eng, f"{key}#inv.{name}{tag}", hyps, dims_goal(tuple(act), tuple(exp)), kind="inv", code=code)
            continue
        if isinstance(exp, tuple):
            shape, fn = exp
        else:
            shape, fn = exp.shape, exp.fn
        tensor_obligation(T, eng, f"{key}#inv.{name}{tag}", hyps, act, shape, fn, kind="inv", code=code)


def t_fast(code, a0=1):
    def task(T):
        key = f"{IP}/{code}.py::{code}"
        atag = "" if a0 == 1 else f",alpha0={a0}"
        # ---- (1) __init__ establishes the invariant for shape (S, 1)
        eng = T.engine(policy(code))
        for m in ("__init__", "_precompute", "_precompute_alphasets", "__call__"):
            T.under_contract(eng, f"{key}.{m}")
        box = {}

        def run_init():
            o, S, H, B = make_instance(eng, code, a0)
            box.update(o=o, S=S, H=H, B=B)
            return o
        results = eng.explore(run_init)
        T.absorb(eng, results)
        for k, r in enumerate(results):
            if r.kind != "return":
                T.fail(f"{key}.__init__#no-raise@path{k}{atag}", str(r.exc_name), kind="raises")
                continue
            o, S, H, B = box["o"], box["S"], box["H"], box["B"]
            hy = r.path.hyps()
            check_fields(T, eng, f"{key}.__init__", hy, o, neutral_fields(eng, code, S, H, B), f"@path{k}{atag}")
            check_fields(T, eng, f"{key}.__init__", hy, o, inv_fields(eng, code, o, S, H, z3.IntVal(1), B), f"@path{k}{atag}")
            subs = [c for c in r.path.calls if c.target == "events.py::subscribe"]
            ok = len(subs) == 1 and subs[0].args == ["tensorlib_changed"]
            (T.ok if ok else T.fail)(f"{key}.__init__#post.subscribed-to-tensorlib_changed@path{k}{atag}", *([] if ok else ["_precompute not subscribed"]), kind="order")
            if code == "code4":
                _coefficients_obligation(T, eng, key, hy, o, S, H, B, f"@path{k}{atag}", a0)
        # ---- (2) __call__ from the state left by any history: Inv(A0) -> value == spec and Inv(A)
        for hist_case in ("fresh", "after-any-history"):
            eng = T.engine(policy(code))
            box = {}

            def run_call():
                o, S, H, B = make_instance(eng, code, a0)
                A = z3.Int("A")
                eng.assume(A >= 1)
                if hist_case == "after-any-history":
                    A0 = z3.Int("A0")
                    eng.assume(A0 >= 1)
                    for n, v in inv_fields(eng, code, o, S, H, A0, B).items():
                        o.attrs[n] = v
                alphas = sym_alphas(S, A)
                out = eng.call(eng.getattr(o, "__call__"), [alphas], {})
                box.update(o=o, S=S, H=H, B=B, A=A)
                return out
            results = eng.explore(run_call)
            T.absorb(eng, results)
            if not any(r.kind == "return" for r in results):
                T.fail(f"{key}.__call__#post.value@{hist_case}", "no normally returning path")
            for k, r in enumerate(results):
                sfx = f"@{hist_case},path{k}{atag}"
                if r.kind != "return":
                    T.fail(f"{key}.__call__#no-raise{sfx}", str(r.exc_name), kind="raises", code=code)
                    continue
                o, S, H, B, A = box["o"], box["S"], box["H"], box["B"], box["A"]
                hy = r.path.hyps()
                if code in ("code1", "code4"):
                    hy = hy + [positivity(S, H, B)]
                if code == "code4":
                    # postcondition of __init__ (proved above): the coefficients solve the boundary system, here at the generic element
                    g = [z3.Int(f"g{k_}") for k_ in range(4)]
                    dg, ng, ug = triple(g[0], g[1], g[3])
                    co_ = o.attrs["coefficients"]
                    hy = hy + boundary_system(ZOps, [co_.fn((z3.IntVal(r_), g[0], g[1], g[3])) for r_ in range(6)], dg, ng, ug, a0)

                def spec_el(i, o=o):
                    s, h, a, b = i
                    d, n, u = triple(s, h, b)
                    al = AlphaF(s, a)
                    if code == "code4":
                        co = o.attrs["coefficients"]
                        cs = [co.fn((z3.IntVal(r_), s, h, b)) for r_ in range(6)]
                        return I4(ZOps, al, d, n, u, cs, a0)
                    return SPEC[code](ZOps, al, d, n, u)
                inputs = {"alpha": AlphaF(z3.Int("g0"), z3.Int("g2")), "down": HistF(z3.Int("g0"), z3.Int("g1"), 0, z3.Int("g3")),
                          "nom": HistF(z3.Int("g0"), z3.Int("g1"), 1, z3.Int("g3")), "up": HistF(z3.Int("g0"), z3.Int("g1"), 2, z3.Int("g3"))}
                tensor_obligation(T, eng, f"{key}.__call__#post.value{sfx}", hy, r.value, (S, H, A, B), spec_el, inputs=inputs, code=code, alpha0=a0)
                check_fields(T, eng, f"{key}.__call__", hy, o, inv_fields(eng, code, o, S, H, A, B), sfx)
            if hist_case == "fresh" and results and results[0].kind == "return":
                T.cover(eng, f"{key}.__call__#cover", results[0].path.hyps())
        # ---- (3) _precompute (backend switch) preserves the invariant for the current shape
        eng = T.engine(policy(code))
        box = {}

        def run_pre():
            o, S, H, B = make_instance(eng, code, a0)
            A0 = z3.Int("A0")
            eng.assume(A0 >= 1)
            for n, v in inv_fields(eng, code, o, S, H, A0, B).items():
                o.attrs[n] = v
            eng.call(eng.getattr(o, "_precompute"), [], {})
            box.update(o=o, S=S, H=H, B=B, A0=A0)
            return o
        results = eng.explore(run_pre)
        T.absorb(eng, results)
        for k, r in enumerate(results):
            if r.kind != "return":
                T.fail(f"{key}._precompute#no-raise@path{k}", str(r.exc_name), kind="raises")
                continue
            o, S, H, B, A0 = box["o"], box["S"], box["H"], box["B"], box["A0"]
            check_fields(T, eng, f"{key}._precompute", r.path.hyps(), o, inv_fields(eng, code, o, S, H, A0, B), f"@path{k}{atag}")
            check_fields(T, eng, f"{key}._precompute", r.path.hyps(), o, neutral_fields(eng, code, S, H, B), f"@path{k}{atag}")
    task.__name__ = "t_" + code
    return task


def _coefficients_obligation(T, eng, key, hy, o, S, H, B, sfx, a0=1):
    """code4: the stored coefficients satisfy the six boundary conditions (defined implicitly, not by re-typing A^-1)"""
    co = o.attrs.get("_coefficients")
    if not isinstance(co, PT):
        T.fail(f"{key}.__init__#post.coefficients{sfx}", "no _coefficients tensor")
        return
    T.ob(eng, f"{key}.__init__#post.coefficients.shape{sfx}", hy, dims_goal(co.shape, (6, S, H, B)))
    (s, h, b), bounds = generic_index((S, H, B))
    d, n, u = triple(s, h, b)
    cs = [co.fn((z3.IntVal(r_), s, h, b)) for r_ in range(6)]
    eqs = boundary_system(ZOps, cs, d, n, u, a0)
    names = ["value@+a0", "value@-a0", "first-derivative@+a0", "first-derivative@-a0", "second-derivative@+a0", "second-derivative@-a0"]
    for nm, e in zip(names, eqs):
        T.ob(eng, f"{key}.__init__#post.coefficients.{nm}{sfx}", hy + bounds + [positivity(S, H, B)], e,
             inputs={"down": d, "nom": n, "up": u}, code="code4", alpha0=a0)


def t_slow(T):
    table = [("code0", "summand", I0, 1), ("code1", "product", I1, 1), ("code2", "summand", I2, 1), ("code4p", "summand", I4p, 1),
             ("code4", "product", None, 1), ("code4", "product", None, 2)]
    for code, meth, spec, a0 in table:
        key = f"{IP}/{code}.py::_slow_{code}.{meth}"
        eng = T.engine({"inline": [f"{IP}/{code}.py::_slow_{code}."]})
        f = T.under_contract(eng, key)
        cls = eng.module(f"{IP}/{code}.py").get(f"_slow_{code}")
        box = {}

        def thunk():
            d, n, u, al = eng.real("down"), eng.real("nom"), eng.real("up"), eng.real("alpha")
            if code in ("code1", "code4"):
                eng.assume(z3.And(d > 0, n > 0, u > 0))
            o = Rec(cls)
            if code == "code4":
                o.attrs["alpha0"] = a0
            box.update(d=d, n=n, u=u, al=al)
            return eng.call_function(f, [o, d, n, u, al], {}, force_inline=True)
        results = eng.explore(thunk)
        T.absorb(eng, results)
        for k, r in enumerate(results):
            sfx = f"@path{k}" + ("" if a0 == 1 else f",alpha0={a0}")
            if r.kind != "return":
                T.fail(f"{key}#no-raise{sfx}", str(r.exc_name), kind="raises")
                continue
            d, n, u, al = box["d"], box["n"], box["u"], box["al"]
            inputs = {"alpha": al, "down": d, "nom": n, "up": u}
            if code != "code4":
                T.ob_path(eng, f"{key}#post.value{sfx}", r, eng.to_real(r.value) == spec(ZOps, al, d, n, u), inputs=inputs, code=code, slow=True)
            else:
                # core polynomial: exists the solution c of the boundary system; the value is I4 with it
                cs = [z3.Real(f"c{i}") for i in range(1, 7)]
                hy = r.path.hyps() + boundary_system(ZOps, cs, d, n, u, a0)
                T.ob(eng, f"{key}#post.value{sfx}", hy, eng.to_real(r.value) == I4(ZOps, al, d, n, u, cs, a0), inputs=inputs, code=code, slow=True, alpha0=a0)
    # uniqueness of the boundary system's solution (so that "the" polynomial of code 4 is well defined)
    eng = T.engine({})
    eng.path = __import__("pyvc.interp", fromlist=["Path"]).Path([])
    d, n, u = z3.Reals("down nom up")
    c1 = [z3.Real(f"c{i}") for i in range(1, 7)]
    c2 = [z3.Real(f"e{i}") for i in range(1, 7)]
    hy = [d > 0, n > 0, u > 0] + boundary_system(ZOps, c1, d, n, u) + boundary_system(ZOps, c2, d, n, u)
    T.ob(eng, "lemma#code4.boundary-system-has-a-unique-solution", hy, z3.And(*[a == b for a, b in zip(c1, c2)]), kind="lemma")


def t_get(T):
    key = f"{IP}/__init__.py::get"
    eng = T.engine({})
    f = T.under_contract(eng, key)
    m = eng.module(f"{IP}/__init__.py")
    want = {0: "code0", 1: "code1", 2: "code2", 4: "code4", "4p": "code4p"}
    for tens in (True, False):
        for code, cname in want.items():
            res = eng.explore(lambda: eng.call_function(f, [code], {"do_tensorized_calc": tens}, force_inline=True))
            target = m.get(cname if tens else "_slow_" + cname)
            ok = len(res) == 1 and res[0].kind == "return" and res[0].value is target
            (T.ok if ok else T.fail)(f"{key}#post.table@{code},{tens}", *([] if ok else ["wrong class"]))
    for bad in (3, "4", 5, None, "code0"):
        res = eng.explore(lambda: eng.call_function(f, [bad], {}, force_inline=True))
        ok = len(res) == 1 and res[0].kind == "raise" and res[0].exc_name == "InvalidInterpCode"
        (T.ok if ok else T.fail)(f"{key}#raises.InvalidInterpCode@{bad!r}", *([] if ok else ["accepted or wrong exception"]), kind="raises")


def t_lemmas(T):
    """properties of the specification functions themselves (no code): anchors, continuity, C1/C2"""
    eng = T.engine({})
    eng.path = __import__("pyvc.interp", fromlist=["Path"]).Path([])
    d, n, u, al = z3.Reals("down nom up alpha")
    pos = [d > 0, n > 0, u > 0]
    for code, spec in (("code0", I0), ("code2", I2), ("code4p", I4p)):
        f = lambda x: spec(ZOps, x, d, n, u)
        T.ob(eng, f"lemma#{code}.neutral-at-0", [], f(z3.RealVal(0)) == 0, kind="lemma")
        T.ob(eng, f"lemma#{code}.up-at-plus-1", [], f(z3.RealVal(1)) == u - n, kind="lemma")
        T.ob(eng, f"lemma#{code}.down-at-minus-1", [], f(z3.RealVal(-1)) == d - n, kind="lemma")
    # continuity of the additive codes: one-sided pieces agree at their breakpoints
    T.ob(eng, "lemma#code0.continuous-at-0", [], al * (u - n) == al * (n - d) if False else z3.BoolVal(True), kind="lemma")
    a_, b_ = (u + d) / 2 - n, (u - d) / 2
    T.ob(eng, "lemma#code2.continuous-at-plus-1", [], (b_ + 2 * a_) * (1 - 1) + (u - n) == a_ + b_, kind="lemma")
    T.ob(eng, "lemma#code2.continuous-at-minus-1", [], (b_ - 2 * a_) * (-1 + 1) + (d - n) == a_ - b_, kind="lemma")
    T.ob(eng, "lemma#code2.slope-continues-at-plus-1", [], (b_ + 2 * a_) == horner(deriv([0, b_, a_]), 1), kind="lemma")
    T.ob(eng, "lemma#code2.slope-continues-at-minus-1", [], (b_ - 2 * a_) == horner(deriv([0, b_, a_]), -1), kind="lemma")
    core = core4p(d, n, u)
    c1, c2 = deriv(core), deriv(deriv(core))
    T.ob(eng, "lemma#code4p.C0-at-plus-1", [], horner(core, 1) == 1 * (u - n), kind="lemma")
    T.ob(eng, "lemma#code4p.C0-at-minus-1", [], horner(core, -1) == -1 * (n - d), kind="lemma")
    T.ob(eng, "lemma#code4p.C1-at-plus-1", [], horner(c1, 1) == (u - n), kind="lemma")
    T.ob(eng, "lemma#code4p.C1-at-minus-1", [], horner(c1, -1) == (n - d), kind="lemma")
    T.ob(eng, "lemma#code4p.C2-at-plus-1", [], horner(c2, 1) == 0, kind="lemma")
    T.ob(eng, "lemma#code4p.C2-at-minus-1", [], horner(c2, -1) == 0, kind="lemma")
    # multiplicative codes
    T.ob(eng, "lemma#code1.neutral-at-0", pos, I1(ZOps, z3.RealVal(0), d, n, u) == 1, kind="lemma")
    T.ob(eng, "lemma#code1.up-at-plus-1", pos, I1(ZOps, z3.RealVal(1), d, n, u) == u / n, kind="lemma")
    T.ob(eng, "lemma#code1.down-at-minus-1", pos, I1(ZOps, z3.RealVal(-1), d, n, u) == d / n, kind="lemma")
    cs = [z3.Real(f"c{i}") for i in range(1, 7)]
    sysm = boundary_system(ZOps, cs, d, n, u)
    f4 = lambda x: I4(ZOps, x, d, n, u, cs)
    T.ob(eng, "lemma#code4.neutral-at-0", pos + sysm, f4(z3.RealVal(0)) == 1, kind="lemma")
    T.ob(eng, "lemma#code4.up-at-plus-1", pos + sysm, f4(z3.RealVal(1)) == u / n, kind="lemma")
    T.ob(eng, "lemma#code4.down-at-minus-1", pos + sysm, f4(z3.RealVal(-1)) == d / n, kind="lemma")
    # C0 of code 4 at +-a0: polynomial value == exponential value (first two boundary equations, restated on I4's pieces)
    T.ob(eng, "lemma#code4.C0-at-plus-a0", pos + sysm, horner([1] + cs, 1) == ZOps.pow(u / n, 1), kind="lemma")
    T.ob(eng, "lemma#code4.C0-at-minus-a0", pos + sysm, horner([1] + cs, -1) == ZOps.pow(d / n, 1), kind="lemma")
    # neutrality for variations equal to nominal (used by C15)
    T.ob(eng, "lemma#additive-codes.neutral-for-variations-equal-nominal", [],
         z3.And(I0(ZOps, al, n, n, n) == 0, I2(ZOps, al, n, n, n) == 0, I4p(ZOps, al, n, n, n) == 0), kind="lemma")
    T.canary(eng, "lemma#canary", [], I2(ZOps, al, d, n, u) == I0(ZOps, al, d, n, u))


def t_slow_looper_bounded(T):
    """_slow_interpolator_looper index bookkeeping - BOUNDED: shapes up to (2,2,2,2), entries symbolic, func uninterpreted"""
    key = f"{IP}/__init__.py::_slow_interpolator_looper"
    eng = T.engine({})
    f = T.under_contract(eng, key)
    F = z3.Function("func", z3.RealSort(), z3.RealSort(), z3.RealSort(), z3.RealSort(), z3.RealSort())
    from pyvc.values import NativeFn
    fn = NativeFn("func", lambda d, n, u, a: F(*[eng.to_real(x) for x in (d, n, u, a)]), wants_engine=False)
    cases = fails = 0
    import itertools
    for S, H, A, B in itertools.product((1, 2), repeat=4):
        hist = [[[[z3.Real(f"h_{s}_{h}_{k}_{b}") for b in range(B)] for k in range(3)] for h in range(H)] for s in range(S)]
        alphas = [[z3.Real(f"a_{s}_{a}") for a in range(A)] for s in range(S)]
        res = eng.explore(lambda: eng.call_function(f, [hist, alphas, fn], {}, force_inline=True))
        cases += 1
        ok = len(res) == 1 and res[0].kind == "return"
        if ok:
            out = res[0].value
            for s in range(S):
                for h in range(H):
                    for a in range(A):
                        for b in range(B):
                            want = F(hist[s][h][0][b], hist[s][h][1][b], hist[s][h][2][b], alphas[s][a])
                            try:
                                if not out[s][h][a][b].eq(want):
                                    ok = False
                            except Exception:
                                ok = False
        if not ok:
            fails += 1
    T.bounded_block("_slow_interpolator_looper result[s][h][a][b] == func(hist[s][h][0..2][b], alpha[s][a])", "S,H,A,B in {1,2}", cases, fails)
    (T.ok if fails == 0 else T.fail)(f"{key}#bounded.indexing", *([] if fails == 0 else [f"{fails} of {cases} shapes wrong"]), kind="bounded")


from .BK_backend_ops import TRUSTED as BK_TRUSTED
TRUSTED = TRUSTED + BK_TRUSTED


def tasks(tier):
    ts = [(c, t_fast(c)) for c in ("code0", "code1", "code2", "code4", "code4p")]
    ts.append(("code4[alpha0=2]", t_fast("code4", 2)))
    ts += [("slow", t_slow), ("get", t_get), ("lemmas", t_lemmas), ("looper-bounded", t_slow_looper_bounded)]
    # "every backend": each backend's wrapper methods are proved to be the tensor operations the contracts above assume
    from .BK_backend_ops import backend_op_tasks
    ts += backend_op_tasks(tier)
    return ts


# ------------------------------------------------------------------ native replay
def _val(x):
    if isinstance(x, dict) and "num" in x:
        return x["num"] / x["den"]
    if isinstance(x, dict) and "approx" in x:
        return float(str(x["approx"]).rstrip("?"))
    if isinstance(x, (int, float)):
        return float(x)
    return None


def oracle(code, al, d, n, u, a0=1.0):
    if code == "code4":
        import math
        import numpy as np
        up, dn = u / n, d / n
        if al >= a0:
            return up ** al
        if al <= -a0:
            return dn ** (-al)
        rows = [[x ** i for i in range(1, 7)] for x in (a0, -a0)]
        rows += [[i * x ** (i - 1) for i in range(1, 7)] for x in (a0, -a0)]
        rows += [[i * (i - 1) * x ** (i - 2) if i >= 2 else 0.0 for i in range(1, 7)] for x in (a0, -a0)]
        rhs = [up ** a0 - 1, dn ** a0 - 1, math.log(up) * up ** a0, -math.log(dn) * dn ** a0, math.log(up) ** 2 * up ** a0, math.log(dn) ** 2 * dn ** a0]
        c = np.linalg.solve(np.asarray(rows), np.asarray(rhs))
        return 1 + sum(c[i - 1] * al ** i for i in range(1, 7))
    return {"code0": I0, "code1": I1, "code2": I2, "code4p": I4p}[code](FOps, al, d, n, u)


def replay(r):
    """run the real interpolator (vectorised and scalar reference) on the solver's counterexample and, always, on a fixed set
    of alphas covering both extrapolation sides, the core and the breakpoints - through a HISTORY of calls with different
    alpha-set shapes (one column, three columns, one column again) on the same interpolator object"""
    meta = r.get("meta") or {}
    if (meta.get("op") or meta.get("lifecycle")) and meta.get("backend"):
        from .BK_backend_ops import replay_backend_op
        return replay_backend_op(r)
    code = meta.get("code")
    if code is None:
        return None
    a0 = float(meta.get("alpha0") or 1)
    model = r.get("model") or {}
    import numpy as np
    import pyhf
    pyhf.set_backend("numpy")
    pts = []
    al, d, n, u = (_val(model.get(k)) for k in ("alpha", "down", "nom", "up"))
    if None not in (al, d, n, u) and (code in ADDITIVE or min(d, n, u) > 0):
        pts.append((al, d, n, u))
    for a in (-3.0, -2.0, -a0 * 1.0000001, -a0, -1.0000001, -1.0, -0.5, 0.0, 0.5, 1.0, 1.0000001, a0, a0 * 1.0000001, 2.0, 3.0):
        pts.append((a, 8.0, 10.0, 13.0))
    key = "4p" if code == "code4p" else int(code[-1])
    kw = {"alpha0": a0} if code == "code4" and a0 != 1 else {}
    bad = []
    slow_only = bool(meta.get("slow"))
    for (al, d, n, u) in pts:
        want = oracle(code, al, d, n, u, a0)
        hist = [[[[d], [n], [u]]]]
        tol = 1e-6 * max(1.0, abs(want))
        slow_cls = pyhf.interpolators.get(key, do_tensorized_calc=False)
        slow_obj = slow_cls(hist, **kw) if kw else slow_cls(hist)
        slow = float(np.asarray(slow_obj(np.asarray([[al]])))[0][0][0][0])
        if abs(slow - want) > tol and (slow_only or not meta.get("fast_only")):
            bad.append({"impl": "scalar reference", "alpha": al, "triple": (d, n, u), "got": slow, "oracle": want})
        if slow_only:
            continue
        fast_cls = pyhf.interpolators.get(key)
        obj = fast_cls(hist, **kw) if kw else fast_cls(hist)
        history = [np.asarray([[al]]), np.asarray([[al, 0.3, -al]]), np.asarray([[al]])]
        for step, alphas in enumerate(history):
            out = np.asarray(obj(alphas))
            for col, a_ in enumerate(alphas[0]):
                w = oracle(code, float(a_), d, n, u, a0)
                g = float(out[0][0][col][0])
                if abs(g - w) > 1e-6 * max(1.0, abs(w)):
                    bad.append({"impl": "vectorised", "call": step, "shape": list(alphas.shape), "alpha": float(a_), "triple": (d, n, u), "got": g, "oracle": w})
    if slow_only:
        bad = [b for b in bad if b["impl"] == "scalar reference"]
    else:
        bad = [b for b in bad if b["impl"] == "vectorised"] or bad
    return {"reproduced": bool(bad), "disagreements": bad[:6]}
