"""C13 - gradients handed to optimisers: the part a contract can decide (wiring).

With the automatic-differentiation operators uninterpreted it is proved on the current source that
  * the value returned by the value-and-gradient function is objective(stitch_pars(pars), data, pdf)[0] - the very value
    of the non-differentiating path of the same module;
  * the derivative is requested OF THAT SAME value WITH RESPECT TO the free-parameter tensor `pars` (after astensor),
    not of another evaluation and not with respect to the stitched vector:
      pytorch  torch.autograd.grad(constr_nll, pars)           (requires_grad set on pars before stitching)
      tflow    tape.watch(pars) before the objective is evaluated inside the tape; tape.gradient(constr_nll, pars)
      jax      jax.value_and_grad(_final_objective, argnums=0) under jit with static_argnums (3,4,5,6,7); the wrapped
               function forwards (pars, data, fixed_values, fixed_idx, variable_idx, do_stitch, objective, pdf) in that order
               and _final_objective stitches fixed values and free parameters to their own positions (bounded: <= 3 parameters).
NOT decided: that jax / torch / tensorflow return the true derivative of the traced program (external AD engines,
floating point).  The C1 continuity of codes 4 / 4p at their breakpoints (so that the selected-branch derivative is the
derivative there) is a lemma of C03."""
import itertools

import z3

from pyvc.interp import _Namespace
from pyvc.tensor import PT
from pyvc.values import FuncV, I, NativeFn, Obj, item_of, ufunc, is_z
from .common import calls_to

PROPERTY = "C13"
LEVEL = "proof"
OPT = "optimize"
EXPLANATION = ("the three value-and-gradient wrappers are executed symbolically with the AD operators uninterpreted; what is differentiated, with "
               "respect to what, and which value is returned are forwarding obligations")
TRUSTED = ["torch.autograd.grad / tf.GradientTape.gradient / jax.value_and_grad return the derivative of their first argument with respect to the "
           "indicated argument (external AD engines) - NOT verified",
           "_TensorViewer.stitch on concrete index sets executed natively"]
ASSUMPTIONS = ["exactness of the gradient at every parameter point, regime and breakpoint is a property of the external AD engines and of floating point - NOT decided"]


def _args(eng):
    return {n: eng.obj(n) for n in ("objective", "data", "pdf", "stitch_pars")}


def t_pytorch(T):
    key = f"{OPT}/opt_pytorch.py::wrap_objective"
    eng = T.engine({})
    f = T.under_contract(eng, key)
    for do_grad in (True, False):
        box = {}

        def run():
            a = _args(eng)
            p = eng.obj("p")
            fn = eng.call_function(f, [a["objective"], a["data"], a["pdf"], a["stitch_pars"]], {"do_grad": do_grad}, force_inline=True)
            box.update(a=a, p=p)
            return eng.call(fn, [p], {})
        for k, r in enumerate(eng.explore(run)):
            sfx = f"@grad={do_grad},path{k}"
            if r.kind != "return":
                T.fail(f"{key}#no-raise{sfx}", str(r.exc_name), kind="raises")
                continue
            a, p = box["a"], box["p"]
            stitched = eng._opaque_apply(a["stitch_pars"], [p], {})
            nll = eng._opaque_apply(a["objective"], [stitched, a["data"], a["pdf"]], {})
            if not do_grad:
                T.ob_path(eng, f"{key}.func#post.value-is-objective-at-stitched-parameters{sfx}", r, eng.veq(r.value, item_of(nll, eng.box(0))), kind="forwarding")
                continue
            ok = isinstance(r.value, tuple) and len(r.value) == 2
            (T.ok if ok else T.fail)(f"{key}.func#post.returns-value-and-gradient{sfx}", *([] if ok else [repr(r.value)]))
            if not ok:
                continue
            val, grad = r.value
            det = eng._opaque_apply(eng.opaque_attr(nll, "detach"), [], {})
            want_val = item_of(eng._opaque_apply(eng.opaque_attr(det, "numpy"), [], {}), eng.box(0))
            T.ob_path(eng, f"{key}.func#post.value-is-the-differentiated-objective{sfx}", r, eng.veq(val, want_val), kind="forwarding")
            gc = calls_to(r.path, "ext:torch.autograd.grad")
            okg = len(gc) == 1
            (T.ok if okg else T.fail)(f"{key}.func#fwd.one-gradient-request{sfx}", *([] if okg else [f"{len(gc)} calls"]), kind="forwarding")
            if okg:
                T.ob_path(eng, f"{key}.func#fwd.gradient-of-that-value-wrt-the-free-parameters{sfx}", r, eng.veq(gc[0].args[:2], [nll, p]), kind="forwarding")
                T.ob_path(eng, f"{key}.func#post.gradient-returned{sfx}", r, eng.veq(grad, item_of(gc[0].result, eng.box(0))), kind="forwarding")
            rg = [c for c in r.path.calls if isinstance(c.target, tuple) and c.target == ("setattr", "requires_grad")]
            st = [c for c in r.path.calls if isinstance(c.target, tuple) and c.target[0] == "opaque" and c.target[1].eq(a["stitch_pars"])]
            oko = bool(rg) and bool(st) and rg[0].seq < st[0].seq and rg[0].args[0].eq(p) and rg[0].args[1] is True
            (T.ok if oko else T.fail)(f"{key}.func#order.requires_grad-on-free-parameters-before-stitching{sfx}", *([] if oko else ["requires_grad not set on pars before use"]), kind="order")


def t_tflow(T):
    key = f"{OPT}/opt_tflow.py::wrap_objective"
    eng = T.engine({})
    f = T.under_contract(eng, key)
    for do_grad in (True, False):
        box = {}

        def run():
            a = _args(eng)
            p = eng.obj("p")
            fn = eng.call_function(f, [a["objective"], a["data"], a["pdf"], a["stitch_pars"]], {"do_grad": do_grad}, force_inline=True)
            box.update(a=a, p=p)
            return eng.call(fn, [p], {})
        for k, r in enumerate(eng.explore(run)):
            sfx = f"@grad={do_grad},path{k}"
            if r.kind != "return":
                T.fail(f"{key}#no-raise{sfx}", str(r.exc_name), kind="raises")
                continue
            a, p = box["a"], box["p"]
            stitched = eng._opaque_apply(a["stitch_pars"], [p], {})
            nll = eng._opaque_apply(a["objective"], [stitched, a["data"], a["pdf"]], {})
            if not do_grad:
                T.ob_path(eng, f"{key}.func#post.value-is-objective-at-stitched-parameters{sfx}", r, eng.veq(r.value, item_of(nll, eng.box(0))), kind="forwarding")
                continue
            ok = isinstance(r.value, tuple) and len(r.value) == 2
            (T.ok if ok else T.fail)(f"{key}.func#post.returns-value-and-gradient{sfx}", *([] if ok else [repr(r.value)]))
            if not ok:
                continue
            val, grad = r.value
            want_val = item_of(eng._opaque_apply(eng.opaque_attr(nll, "numpy"), [], {}), eng.box(0))
            T.ob_path(eng, f"{key}.func#post.value-is-the-differentiated-objective{sfx}", r, eng.veq(val, want_val), kind="forwarding")
            calls = [c for c in r.path.calls if isinstance(c.target, tuple) and c.target[0] == "opaque"]
            watch = [c for c in calls if "attr:watch" in c.target[1].sexpr()]
            gradc = [c for c in calls if "attr:gradient" in c.target[1].sexpr()]
            objc = [c for c in calls if c.target[1].eq(a["objective"])]
            okw = len(watch) == 1 and len(objc) == 1 and watch[0].seq < objc[0].seq and eng.veq(watch[0].args, [p]) is not False
            (T.ok if okw else T.fail)(f"{key}.func#order.watch-free-parameters-before-evaluating{sfx}", *([] if okw else ["tape.watch(pars) missing or late"]), kind="order")
            if okw:
                T.ob_path(eng, f"{key}.func#fwd.watch-the-free-parameters{sfx}", r, eng.veq(watch[0].args, [p]), kind="forwarding")
            okg = len(gradc) == 1
            (T.ok if okg else T.fail)(f"{key}.func#fwd.one-gradient-request{sfx}", *([] if okg else [f"{len(gradc)}"]), kind="forwarding")
            if okg:
                T.ob_path(eng, f"{key}.func#fwd.gradient-of-that-value-wrt-the-free-parameters{sfx}", r, eng.veq(gradc[0].args, [nll, p]), kind="forwarding")
                conv = calls_to(r.path, "ext:tensorflow.convert_to_tensor")
                okc = len(conv) == 1
                (T.ok if okc else T.fail)(f"{key}.func#post.gradient-densified{sfx}", *([] if okc else ["convert_to_tensor not applied"]), kind="forwarding")
                if okc:
                    T.ob_path(eng, f"{key}.func#post.gradient-returned{sfx}", r, z3.And(_zb(eng.veq(conv[0].args, [gradc[0].result])), _zb(eng.veq(grad, conv[0].result))), kind="forwarding")


def _zb(x):
    return z3.BoolVal(x) if isinstance(x, bool) else x


def t_jax(T):
    mod = f"{OPT}/opt_jax.py"
    eng = T.engine({"events.py::subscribe": lambda e, c: NativeFn("dec", lambda f: f), "inline": ["tensor/common.py::"]})
    T.under_contract(eng, f"{mod}::_final_objective")
    T.under_contract(eng, f"{mod}::wrap_objective")
    from pyvc.interp import Path
    eng.path = Path([])
    m = eng.module(mod)
    fo = m.get("_final_objective")
    # module-level bindings: value_and_grad of _final_objective w.r.t. argument 0, jitted with static arguments 3..7
    jg, jo = m.get("_jitted_objective_and_grad"), m.get("_jitted_objective")
    ref = eng.box(fo)

    def shape(term):
        """(function symbol, children) of an uninterpreted application"""
        return term.decl().name(), list(term.children())
    ok = False
    detail = ""
    try:
        n1, c1 = shape(jg)                       # call1{static_argnums}(ref:jax.jit, inner, static)
        n2, c2 = shape(c1[1])                    # call1{argnums}(ref:jax.value_and_grad, ref:_final_objective, argnums)
        ok = ("static_argnums" in n1 and "jax.jit" in c1[0].sexpr() and "argnums" in n2 and "jax.value_and_grad" in c2[0].sexpr() and c2[1].eq(ref))
        detail = f"{n1} / {n2}"
        s = z3.Solver()
        s.add(*eng.path.facts)
        s.add(z3.Not(z3.And(c2[2] == eng.box(0), c1[2] == eng.box((3, 4, 5, 6, 7)))))
        ok = ok and s.check() == z3.unsat
    except Exception as e:            # structure not as expected
        detail = f"{type(e).__name__}: {e}"
    (T.ok if ok else T.fail)(f"{mod}::_jitted_objective_and_grad#post.value_and_grad-of-_final_objective-wrt-argument-0-static-3..7", *([] if ok else [detail]), kind="forwarding")
    ok2 = False
    try:
        n1, c1 = shape(jo)
        ok2 = "static_argnums" in n1 and "jax.jit" in c1[0].sexpr() and c1[1].eq(ref)
    except Exception:
        pass
    (T.ok if ok2 else T.fail)(f"{mod}::_jitted_objective#post.jit-of-_final_objective", *([] if ok2 else ["structure"]), kind="forwarding")
    # wrap_objective.func forwards its pieces positionally
    for do_grad in (True, False):
        eng2 = T.engine({})
        f = eng2.func(f"{mod}::wrap_objective")
        box = {}

        def run():
            a = _args(eng2)
            jp = {"fixed_values": eng2.obj("fixed_values"), "fixed_idx": [1], "variable_idx": [0, 2], "do_stitch": eng2.obj("do_stitch")}
            fn = eng2.call_function(f, [a["objective"], a["data"], a["pdf"], a["stitch_pars"]], {"do_grad": do_grad, "jit_pieces": jp}, force_inline=True)
            p = eng2.obj("p")
            box.update(a=a, jp=jp, p=p)
            return eng2.call(fn, [p], {})
        for k, r in enumerate(eng2.explore(run)):
            sfx = f"@grad={do_grad},path{k}"
            if r.kind != "return":
                T.fail(f"{mod}::wrap_objective#no-raise{sfx}", str(r.exc_name), kind="raises")
                continue
            a, jp, p = box["a"], box["jp"], box["p"]
            target = eng2.module(mod).get("_jitted_objective_and_grad" if do_grad else "_jitted_objective")
            want = eng2._opaque_apply(target, [p, a["data"], jp["fixed_values"], (1,), (0, 2), jp["do_stitch"], a["objective"], a["pdf"]], {})
            T.ob_path(eng2, f"{mod}::wrap_objective.func#fwd.positional-pieces{sfx}", r, eng2.veq(r.value, want), kind="forwarding")
    # _final_objective: stitching (bounded) and value
    cases = 0
    for npars in (1, 2, 3):
        for nfix in range(0, npars + 1):
            for fixed_idx in itertools.combinations(range(npars), nfix):
                for do_stitch in (False, True):
                    cases += 1
                    eng3 = T.engine({"events.py::subscribe": lambda e, c: NativeFn("dec", lambda f: f), "inline": ["tensor/common.py::"]})
                    f3 = eng3.func(f"{mod}::_final_objective")
                    free = [i for i in range(npars) if i not in fixed_idx]
                    box = {}

                    def run3():
                        P = z3.Function("p", I, z3.RealSort())
                        n = len(free) if do_stitch else npars
                        pars = PT((n,), lambda idx: P(idx[0]), "real")
                        vals = [z3.Real(f"fv{i}") for i in fixed_idx]
                        data, objective, pdf = eng3.obj("data"), eng3.obj("objective"), eng3.obj("pdf")
                        box.update(P=P, vals=dict(zip(fixed_idx, vals)), data=data, objective=objective, pdf=pdf)
                        return eng3.call_function(f3, [pars, data, vals, tuple(fixed_idx), tuple(free), do_stitch, objective, pdf], {}, force_inline=True)
                    tag = f"@npars={npars},fixed={fixed_idx},stitch={do_stitch}"
                    for k, r in enumerate(eng3.explore(run3)):
                        if r.kind != "return":
                            T.fail(f"{mod}::_final_objective#no-raise{tag},path{k}", f"{r.exc_name}", kind="raises")
                            continue
                        oc = [c for c in r.path.calls if isinstance(c.target, tuple) and c.target[0] == "opaque" and c.target[1].eq(box["objective"])]
                        if len(oc) != 1:
                            T.fail(f"{mod}::_final_objective#fwd.objective-once{tag},path{k}", f"{len(oc)}", kind="forwarding")
                            continue
                        full = oc[0].args[0]
                        P = box["P"]
                        want = [box["vals"][i] if (do_stitch and i in fixed_idx) else P(z3.IntVal(free.index(i) if do_stitch else i)) for i in range(npars)]
                        okn = isinstance(full, PT) and full.shape == (npars,)
                        (T.ok if okn else T.fail)(f"{mod}::_final_objective#post.full-vector-length{tag},path{k}", *([] if okn else [str(getattr(full, "shape", None))]))
                        if okn:
                            T.ob_path(eng3, f"{mod}::_final_objective#post.fixed-and-free-values-at-their-positions{tag},path{k}", r,
                                      z3.And(*[full.fn((z3.IntVal(i),)) == want[i] for i in range(npars)]))
                        T.ob_path(eng3, f"{mod}::_final_objective#post.value-is-objective-at-the-full-vector{tag},path{k}", r,
                                  z3.And(_zb(eng3.veq(oc[0].args[1:], [box["data"], box["pdf"]])), _zb(eng3.veq(r.value, item_of(oc[0].result, eng3.box(0))))), kind="forwarding")
    T.bounded_block("opt_jax._final_objective stitching", "npars <= 3, every fixed subset, do_stitch on/off; values symbolic", cases, 0)


from .BK_backend_ops import TRUSTED as BK_TRUSTED
TRUSTED = TRUSTED + BK_TRUSTED


def tasks(tier):
    # "differentiable primitives" of the three AD backends: their wrapper methods are the tensor operations of the objective
    from .BK_backend_ops import backend_op_tasks
    from .C05_fits import t_shim       # "fixed parameters stitched out or not": the split / re-assembly and the pieces the shims receive
    return [("opt_pytorch", t_pytorch), ("opt_tflow", t_tflow), ("opt_jax", t_jax), ("shim", t_shim)] + [(n, f) for n, f in backend_op_tasks(tier) if "numpy" not in n]


def replay(r):
    """native replay: on a small model, for the backend the obligation is about, the value-and-gradient function of the
    real shim is compared with the non-differentiating path (value) and with central finite differences (gradient),
    with and without stitching, at points in every interpolation regime"""
    name = r["name"]
    if "common.py::shim" in name or "common.py::_make_stitch_pars" in name:
        from .C05_fits import replay as replay_c05
        return replay_c05(r)
    if ((r.get("meta") or {}).get("op") or (r.get("meta") or {}).get("lifecycle")) and (r.get("meta") or {}).get("backend"):
        from .BK_backend_ops import replay_backend_op
        return replay_backend_op(r)
    backend = "pytorch" if "opt_pytorch" in name else ("tensorflow" if "opt_tflow" in name else ("jax" if "opt_jax" in name else None))
    if backend is None:
        return None
    import numpy as np
    import pyhf
    from pyhf.optimize.common import shim
    spec = {"channels": [{"name": "c", "samples": [
        {"name": "sig", "data": [5.0, 7.0], "modifiers": [{"name": "mu", "type": "normfactor", "data": None}]},
        {"name": "bkg", "data": [50.0, 60.0], "modifiers": [{"name": "ns", "type": "normsys", "data": {"hi": 1.1, "lo": 0.92}},
                                                            {"name": "hs", "type": "histosys", "data": {"hi_data": [55.0, 63.0], "lo_data": [44.0, 58.0]}}]}]}]}
    gamma_spec = {"channels": [{"name": "c", "samples": [
        {"name": "b1", "data": [50.0, 60.0], "modifiers": [{"name": "ss", "type": "shapesys", "data": [5.0, 7.0]}, {"name": "sf", "type": "shapefactor", "data": None}]},
        {"name": "b2", "data": [20.0, 10.0], "modifiers": [{"name": "st", "type": "staterror", "data": [2.0, 1.5]}]}]}]}
    bad = []
    try:
        pyhf.set_backend(backend, precision="64b")
        tl, _ = pyhf.get_backend()
        # (a) models whose parameters are only gathered (no POI): shapesys / staterror / shapefactor
        gm = pyhf.Model(gamma_spec, poi_name=None)
        gdata = [75.0, 66.0] + gm.config.auxdata
        gpoint = [1.0 + 0.07 * (i + 1) * (-1) ** i for i in range(gm.config.npars)]
        kw, _ = shim(pyhf.infer.mle.twice_nll, gdata, gm, gpoint, gm.config.suggested_bounds(), [], do_grad=True, do_stitch=False)
        kw0, _ = shim(pyhf.infer.mle.twice_nll, gdata, gm, gpoint, gm.config.suggested_bounds(), [], do_grad=False, do_stitch=False)
        x = np.asarray(kw["x0"], dtype=float)
        val, grad = kw["func"](x)
        grad = np.asarray(grad, dtype=float).reshape(-1)
        for i in range(len(x)):
            h = 1e-5
            xp, xm = x.copy(), x.copy()
            xp[i] += h
            xm[i] -= h
            fd = (float(np.asarray(kw0["func"](xp))) - float(np.asarray(kw0["func"](xm)))) / (2 * h)
            if len(grad) != len(x) or abs(grad[i] - fd) > 1e-4 * max(1.0, abs(fd)):
                bad.append({"what": f"gamma-only model without POI: gradient component {i}", "got": grad.tolist(), "finite difference": fd})
                break
        # (b) history: the same native tensor handed in twice (as an optimiser loop of that library would)
        model = pyhf.Model(spec, poi_name="mu")
        data = [58.0, 70.0] + model.config.auxdata
        kw, _ = shim(pyhf.infer.mle.twice_nll, data, model, [1.0, 0.3, -0.4], model.config.suggested_bounds(), [], do_grad=True, do_stitch=False)
        xt = tl.astensor([1.0, 0.3, -0.4])
        g1 = np.asarray(tl.tolist(kw["func"](xt)[1]), dtype=float)
        g2 = np.asarray(tl.tolist(kw["func"](xt)[1]), dtype=float)
        if not np.allclose(g1, g2, rtol=1e-10, atol=1e-12):
            bad.append({"what": "second call with the same parameter tensor returns another gradient", "first": g1.tolist(), "second": g2.tolist()})
        for do_stitch in (False, True):
            for point in ([1.0, 0.3, -0.4], [0.5, 1.7, -2.2], [2.0, -1.0, 1.0]):
                fixed_vals = [(1, point[1])] if do_stitch else []
                kw, _ = shim(pyhf.infer.mle.twice_nll, data, model, point, model.config.suggested_bounds(), fixed_vals, do_grad=True, do_stitch=do_stitch)
                kw0, _ = shim(pyhf.infer.mle.twice_nll, data, model, point, model.config.suggested_bounds(), fixed_vals, do_grad=False, do_stitch=do_stitch)
                x = np.asarray(kw["x0"], dtype=float)
                val, grad = kw["func"](x)
                val0 = float(np.asarray(kw0["func"](x)))
                grad = np.asarray(grad, dtype=float).reshape(-1)
                if abs(float(val) - val0) > 1e-8 * max(1, abs(val0)):
                    bad.append({"what": "value", "stitch": do_stitch, "point": point, "got": float(val), "non-differentiating path": val0})
                for i in range(len(x)):
                    h = 1e-5
                    xp, xm = x.copy(), x.copy()
                    xp[i] += h
                    xm[i] -= h
                    fd = (float(np.asarray(kw0["func"](xp))) - float(np.asarray(kw0["func"](xm)))) / (2 * h)
                    if len(grad) != len(x) or abs(grad[i] - fd) > 1e-4 * max(1.0, abs(fd)):
                        bad.append({"what": f"gradient component {i}", "stitch": do_stitch, "point": point, "got": grad.tolist(), "finite difference": fd})
                        break
    except Exception as e:
        bad.append({"what": "exception", "error": f"{type(e).__name__}: {e}"})
    finally:
        pyhf.set_backend("numpy")
    return {"reproduced": bool(bad), "backend": backend, "disagreements": bad[:4]}
