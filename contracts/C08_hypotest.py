"""C08 - hypothesis tests: result layout, wiring of fits / statistic / calculator, Asimov data, refusals.

Decided here: the returned tuple for all 16 flag combinations x {discovery, not discovery}, the
order and arguments of the calculator calls, default settings taken from the model iff not given,
generate_asimov_data == expected_data(fixed_poi_fit(asimov_mu, ...)), the calculator table, and the
two refusals (no POI -> UnspecifiedPOI, fixed POI -> InvalidModel).  The numeric agreement with
closed-form asymptotic values needs the external optimiser and is NOT decided (it composes the C05
assumption with the C06 and C07 proofs)."""
import itertools

import z3

from pyvc.values import Obj, PyRaise, Rec, ClassV, isnone_of, truthy_of, real_of, item_of
from .common import MLE, calls_to, fit_contract, method_calls, poi_index, std_args, typed_opaque

PROPERTY = "C08"
LEVEL = "proof"
INFER = "infer/__init__.py"
CALC = "infer/calculators.py"
UTILS = "infer/utils.py"
EXPLANATION = ("hypotest, _check_hypotest_prerequisites, all_pois_floating, create_calculator and generate_asimov_data are executed "
               "symbolically on the current source for every flag combination; layout / forwarding / refusal clauses are discharged by z3")
TRUSTED = ["calculator interface: teststatistic -> scalar, distributions -> pair, pvalues -> 3 scalars, expected_pvalues -> 3 lists of 5 (proved for AsymptoticCalculator in C07)",
           "fixed_poi_fit contract (C05)", "pdf.expected_data uninterpreted"]
ASSUMPTIONS = ["agreement of CLs/p0 with analytic asymptotic values on counting models is not decided (external optimiser); it follows from C05-assumption o C06 o C07",
               "**kwargs are modelled as a dict with the key test_stat (absent, or any string) plus one arbitrary further key"]

ARGS = ["data", "pdf", "init_pars", "par_bounds", "fixed_params"]


def calc_iface(eng):
    def teststatistic(e, call):
        return e.real("teststat")

    def distributions(e, call):
        return (e.obj("sb_dist"), e.obj("b_dist"))

    def pvalues(e, call):
        return (e.real("CLsb_obs"), e.real("CLb_obs"), e.real("CLs_obs"))

    def expected_pvalues(e, call):
        return [[e.real(f"{n}_exp{k}") for k in range(5)] for n in ("CLsb", "CLb", "CLs")]
    return typed_opaque(eng, "calc", {"teststatistic": teststatistic, "distributions": distributions, "pvalues": pvalues,
                                      "expected_pvalues": expected_pvalues})


def create_calculator_contract(eng, call):
    return calc_iface(eng)


def prereq_contract(eng, call):
    """_check_hypotest_prerequisites as proved below: may refuse, otherwise returns None"""
    pdf, fixed = call.arg(0, "pdf"), call.arg(4, "fixed_params")
    if eng.branch(isnone_of(poi_index(eng, pdf))):
        raise PyRaise(eng.module("exceptions/__init__.py").get("UnspecifiedPOI"), ())
    if eng.branch(truthy_of(eng.getitem(fixed, poi_index(eng, pdf)))):
        raise PyRaise(eng.module("exceptions/__init__.py").get("InvalidModel"), ())
    return None


def t_prerequisites(T):
    key = f"{INFER}::_check_hypotest_prerequisites"
    eng = T.engine({f"{UTILS}::all_pois_floating": "inline"})
    f = T.under_contract(eng, key)
    T.under_contract(eng, f"{UTILS}::all_pois_floating")
    box = {}

    def thunk():
        a = std_args(eng, with_mu=False)
        box["a"] = a
        return eng.call_function(f, [a["pdf"], a["data"], a["init_pars"], a["par_bounds"], a["fixed_params"]], {}, force_inline=True)
    results = eng.explore(thunk)
    T.absorb(eng, results)
    a = box["a"]
    nopoi = isnone_of(poi_index(eng, a["pdf"]))
    fixed = truthy_of(eng.getitem(a["fixed_params"], poi_index(eng, a["pdf"])))
    seen = set()
    for k, r in enumerate(results):
        if r.kind == "raise":
            seen.add(r.exc_name)
            if r.exc_name == "UnspecifiedPOI":
                T.ob_path(eng, f"{key}#raises.UnspecifiedPOI-iff-no-poi@path{k}", r, nopoi, kind="raises")
            elif r.exc_name == "InvalidModel":
                T.ob_path(eng, f"{key}#raises.InvalidModel-iff-poi-fixed@path{k}", r, z3.And(z3.Not(nopoi), fixed), kind="raises")
            else:
                T.fail(f"{key}#raises.only-documented@path{k}", f"raises {r.exc_name}", kind="raises")
        else:
            T.ob_path(eng, f"{key}#raises.UnspecifiedPOI-iff-no-poi@path{k}", r, z3.Not(nopoi), kind="raises")
            T.ob_path(eng, f"{key}#raises.InvalidModel-iff-poi-fixed@path{k}", r, z3.Not(fixed), kind="raises")
    for want in ("UnspecifiedPOI", "InvalidModel"):
        (T.ok if want in seen else T.fail)(f"{key}#raises.{want}-path-exists", *([] if want in seen else ["no such raising path"]), kind="raises")


def t_create_calculator(T):
    key = f"{UTILS}::create_calculator"
    for calctype, cls in (("asymptotics", "AsymptoticCalculator"), ("toybased", "ToyCalculator")):
        marker = {}

        def ctor(eng, call, cls=cls):
            return eng.obj("made_" + cls)
        eng = T.engine({f"{CALC}::AsymptoticCalculator": ctor, f"{CALC}::ToyCalculator": ctor})
        f = T.under_contract(eng, key)
        box = {}

        def thunk():
            a = std_args(eng, with_mu=False)
            box["a"] = a
            kw = {"test_stat": eng.obj("kw_test_stat"), "kwX": eng.obj("kwX")}
            box["kw"] = kw
            return eng.call_function(f, [calctype] + [a[n] for n in ARGS], kw, force_inline=True)
        results = eng.explore(thunk)
        T.absorb(eng, results)
        ok = len(results) == 1 and results[0].kind == "return"
        if not ok:
            T.fail(f"{key}#post.table@{calctype}", "not a single normal path")
            continue
        r = results[0]
        cs = [c for c in r.path.calls if c.target == f"{CALC}::{cls}"]
        if len(cs) != 1:
            T.fail(f"{key}#post.table@{calctype}", f"{cls} constructed {len(cs)}x")
            continue
        T.ok(f"{key}#post.table@{calctype}")
        T.ob_path(eng, f"{key}#fwd.args@{calctype}", r, eng.veq([cs[0].args, cs[0].kwargs], [[box["a"][n] for n in ARGS], box["kw"]]), kind="forwarding")
        T.ob_path(eng, f"{key}#post.returns-instance@{calctype}", r, eng.veq(r.value, cs[0].result), kind="forwarding")
    eng = T.engine({})
    f = eng.func(key)
    results = eng.explore(lambda: eng.call_function(f, ["bogus", eng.obj("data")], {}, force_inline=True))
    ok = len(results) == 1 and results[0].kind == "raise"
    (T.ok if ok else T.fail)(f"{key}#raises.on-unknown-calctype", *([] if ok else ["accepted"]), kind="raises")


def t_generate_asimov(T):
    key = f"{CALC}::generate_asimov_data"
    for rfp in (False, True):
        eng = T.engine({f"{MLE}::fixed_poi_fit": fit_contract("fixed_poi_fit")})
        f = T.under_contract(eng, key)
        box = {}

        def thunk():
            a = std_args(eng, with_mu=False)
            a["asimov_mu"] = eng.obj("asimov_mu")
            box["a"] = a
            return eng.call_function(f, [a["asimov_mu"]] + [a[n] for n in ARGS], {"return_fitted_pars": rfp}, force_inline=True)
        results = eng.explore(thunk)
        T.absorb(eng, results)
        a = box["a"]
        for k, r in enumerate(results):
            pid = f"@rfp={rfp},path{k}"
            if r.kind == "raise":
                T.ob_path(eng, f"{key}#raises.only-UnspecifiedPOI{pid}", r, z3.BoolVal(r.exc_name == "UnspecifiedPOI"), kind="raises")
                continue
            cs = calls_to(r.path, f"{MLE}::fixed_poi_fit")
            if len(cs) != 1:
                T.fail(f"{key}#fwd.one-conditional-fit{pid}", f"fixed_poi_fit called {len(cs)}x", kind="forwarding")
                continue
            c = cs[0]
            T.ob_path(eng, f"{key}#fwd.fixed_poi_fit-args{pid}", r,
                      eng.veq([c.arg(i, None, None) for i in range(6)], [a["asimov_mu"]] + [a[n] for n in ARGS]), kind="forwarding")
            T.ob_path(eng, f"{key}#fwd.no-extra-kwargs{pid}", r, z3.BoolVal(not c.kwargs), kind="forwarding")
            want = eng._opaque_apply(eng.opaque_attr(a["pdf"], "expected_data"), [c.pars], {})
            if rfp:
                T.ob_path(eng, f"{key}#post.asimov-is-expected-data-at-conditional-fit{pid}", r, eng.veq(r.value, (want, c.pars)), kind="forwarding")
            else:
                T.ob_path(eng, f"{key}#post.asimov-is-expected-data-at-conditional-fit{pid}", r, eng.veq(r.value, want), kind="forwarding")


def _hypotest_run(eng, flags, kwcase, given):
    f = eng.func(f"{INFER}::hypotest")
    a = std_args(eng, with_mu=False)
    a["poi_test"] = eng.obj("poi_test")
    for n in ARGS:
        eng.assume(z3.Not(isnone_of(a[n])))
    if given:
        for n in ARGS[2:]:
            eng.assume(truthy_of(a[n]))
    kw = {"kwX": eng.obj("kwX")}
    ts = None
    if kwcase == "symbolic":
        ts = eng.string("test_stat")
        kw["test_stat"] = ts
    calctype = eng.obj("calctype")
    out = eng.call_function(f, [a["poi_test"], a["data"], a["pdf"], a["init_pars"], a["par_bounds"], a["fixed_params"]],
                            dict(calctype=calctype, **flags, **kw), force_inline=True)
    return {"a": a, "kw": kw, "ts": ts, "calctype": calctype, "out": out}


def _policy():
    return {f"{INFER}::_check_hypotest_prerequisites": prereq_contract, f"{UTILS}::create_calculator": create_calculator_contract}


FLAGS = ["return_tail_probs", "return_expected", "return_expected_set", "return_calculator"]


def t_hypotest_layout(T):
    key = f"{INFER}::hypotest"
    for bits in itertools.product([False, True], repeat=4):
        flags = dict(zip(FLAGS, bits))
        tag = "".join("1" if b else "0" for b in bits)
        for kwcase in ("absent", "symbolic"):
            eng = T.engine(_policy())
            T.under_contract(eng, key)
            box = {}

            def thunk():
                o = _hypotest_run(eng, flags, kwcase, True)
                box["o"] = o
                return o
            results = eng.explore(thunk)
            T.absorb(eng, results)
            n_ok = 0
            for k, r in enumerate(results):
                pid = f"@flags={tag},kw={kwcase},path{k}"
                if r.kind == "raise":
                    # refusals come only from the prerequisite check
                    ok = r.exc_name in ("UnspecifiedPOI", "InvalidModel") and not calls_to(r.path, f"{UTILS}::create_calculator")
                    (T.ok if ok else T.fail)(f"{key}#raises.only-prerequisites{pid}", *([] if ok else [f"raises {r.exc_name}"]), kind="raises")
                    continue
                n_ok += 1
                o = r.value
                ts = o["ts"]
                is_q0 = (ts == z3.StringVal("q0")) if ts is not None else z3.BoolVal(False)
                pv = method_calls(r.path, "calc", "pvalues")
                ev = method_calls(r.path, "calc", "expected_pvalues")
                tsc = method_calls(r.path, "calc", "teststatistic")
                dc = method_calls(r.path, "calc", "distributions")
                cc = calls_to(r.path, f"{UTILS}::create_calculator")
                if not (len(pv) == len(ev) == len(tsc) == len(dc) == len(cc) == 1):
                    T.fail(f"{key}#fwd.call-structure{pid}", "calculator methods not each called once", kind="forwarding")
                    continue
                CLsb, CLb, CLs = pv[0].result
                sb_e, b_e, s_e = ev[0].result
                calc = cc[0].result
                # --- expected layout, written from the documented return list
                def layout(q0):
                    first = CLsb if q0 else CLs
                    band = sb_e if q0 else s_e
                    ret = [first]
                    if flags["return_tail_probs"]:
                        ret.append([CLb] if q0 else [CLsb, CLb])
                    if flags["return_expected"]:
                        ret.append(band[2])
                    if flags["return_expected_set"]:
                        ret.append(list(band))
                    if flags["return_calculator"]:
                        ret.append(calc)
                    return tuple(ret) if len(ret) > 1 else ret[0]
                out = o["out"]
                g_q0 = eng.veq(out, layout(True))
                g_not = eng.veq(out, layout(False))
                goal = z3.And(z3.Implies(is_q0, _zb(g_q0)), z3.Implies(z3.Not(is_q0), _zb(g_not)))
                T.ob_path(eng, f"{key}#post.layout{pid}", r, goal, flags=tag)
                # --- wiring
                T.ob_path(eng, f"{key}#fwd.teststatistic-poi{pid}", r, eng.veq(tsc[0].args, [o["a"]["poi_test"]]), kind="forwarding")
                T.ob_path(eng, f"{key}#fwd.distributions-poi{pid}", r, eng.veq(dc[0].args, [o["a"]["poi_test"]]), kind="forwarding")
                (T.ok if tsc[0].seq < dc[0].seq else T.fail)(f"{key}#order.teststatistic-before-distributions{pid}",
                                                             *([] if tsc[0].seq < dc[0].seq else ["distributions() before teststatistic()"]), kind="order")
                T.ob_path(eng, f"{key}#fwd.pvalues-args{pid}", r, eng.veq(pv[0].args, [tsc[0].result, dc[0].result[0], dc[0].result[1]]), kind="forwarding")
                T.ob_path(eng, f"{key}#fwd.expected_pvalues-args{pid}", r, eng.veq(ev[0].args, [dc[0].result[0], dc[0].result[1]]), kind="forwarding")
                a = o["a"]
                T.ob_path(eng, f"{key}#fwd.create_calculator-args{pid}", r,
                          eng.veq([cc[0].args, cc[0].kwargs], [[o["calctype"]] + [a[n] for n in ARGS], o["kw"]]), kind="forwarding")
                pc = calls_to(r.path, f"{INFER}::_check_hypotest_prerequisites")
                okp = len(pc) == 1 and pc[0].seq < cc[0].seq
                (T.ok if okp else T.fail)(f"{key}#order.prerequisites-before-calculator{pid}", *([] if okp else ["prerequisite check missing or late"]), kind="order")
                if okp:
                    T.ob_path(eng, f"{key}#fwd.prerequisites-args{pid}", r,
                              eng.veq(pc[0].args, [a["pdf"], a["data"], a["init_pars"], a["par_bounds"], a["fixed_params"]]), kind="forwarding")
            if n_ok == 0:
                T.fail(f"{key}#post.layout@flags={tag},kw={kwcase}", "no normally returning path")


def _zb(x):
    return z3.BoolVal(x) if isinstance(x, bool) else x


def t_hypotest_defaults(T):
    """settings not given (None or empty) are replaced by the model's suggestions, in all three positions"""
    key = f"{INFER}::hypotest"
    eng = T.engine(_policy())
    flags = dict(zip(FLAGS, [False] * 4))
    results = eng.explore(lambda: _hypotest_run(eng, flags, "absent", False))
    T.absorb(eng, results)
    n = 0
    for k, r in enumerate(results):
        if r.kind == "raise":
            continue
        n += 1
        o = r.value
        a = o["a"]
        cc = calls_to(r.path, f"{UTILS}::create_calculator")[0]
        cfg = eng.getattr(a["pdf"], "config")
        want = []
        for nme, sug in (("init_pars", "suggested_init"), ("par_bounds", "suggested_bounds"), ("fixed_params", "suggested_fixed")):
            default = eng._opaque_apply(eng.opaque_attr(cfg, sug), [], {})
            want.append(z3.If(truthy_of(a[nme]), a[nme], default))
        T.ob_path(eng, f"{key}#post.defaults-iff-not-given@path{k}", r, eng.veq(list(cc.args[3:6]), want), kind="forwarding")
    (T.ok if n == 8 else T.fail)(f"{key}#post.defaults-paths", *([] if n == 8 else [f"{n} normal paths, expected 8"]))


def tasks(tier):
    return [("_check_hypotest_prerequisites", t_prerequisites), ("create_calculator", t_create_calculator),
            ("generate_asimov_data", t_generate_asimov), ("hypotest.layout", t_hypotest_layout), ("hypotest.defaults", t_hypotest_defaults)]


def replay(r):
    """native replay of layout obligations: the real hypotest with a recording stub calculator"""
    name = r["name"]
    if "hypotest#post.layout" not in name:
        return None
    import numpy as np
    import pyhf
    import pyhf.infer as inf
    tag = (r.get("meta") or {}).get("flags")
    if not tag:
        return None
    flags = dict(zip(FLAGS, [c == "1" for c in tag]))

    class Calc:
        def teststatistic(self, poi): return np.asarray(1.5)
        def distributions(self, poi): return ("sb", "b")
        def pvalues(self, t, sb, b): return np.asarray(0.1), np.asarray(0.4), np.asarray(0.25)
        def expected_pvalues(self, sb, b):
            return [[np.asarray(0.01 * (k + 1)) for k in range(5)], [np.asarray(0.1 * (k + 1)) for k in range(5)], [np.asarray(0.11 * (k + 1)) for k in range(5)]]
    calc = Calc()

    class Cfg:
        poi_index = 0
        def suggested_init(self): return [1.0]
        def suggested_bounds(self): return [(0, 10)]
        def suggested_fixed(self): return [False]

    class Pdf:
        config = Cfg()
    saved = inf.utils.create_calculator
    inf.utils.create_calculator = lambda *a, **k: calc
    bad = {}
    try:
        for ts in ("qtilde", "q0"):
            out = inf.hypotest(1.0, [1.0], Pdf(), test_stat=ts, **flags)
            q0 = ts == "q0"
            band = [0.01 * (k + 1) for k in range(5)] if q0 else [0.11 * (k + 1) for k in range(5)]
            want = [0.1 if q0 else 0.25]
            if flags["return_tail_probs"]:
                want.append([0.4] if q0 else [0.1, 0.4])
            if flags["return_expected"]:
                want.append(band[2])
            if flags["return_expected_set"]:
                want.append(band)
            if flags["return_calculator"]:
                want.append(calc)
            want = tuple(want) if len(want) > 1 else want[0]

            def norm(x):
                if isinstance(x, (list, tuple)):
                    return type(x)(norm(e) for e in x)
                if isinstance(x, np.ndarray):
                    return round(float(x), 12)
                if isinstance(x, float):
                    return round(x, 12)
                return x
            if norm(out) != norm(want):
                bad[ts] = {"got": repr(norm(out)), "oracle": repr(norm(want))}
    finally:
        inf.utils.create_calculator = saved
    return {"reproduced": bool(bad), "flags": flags, "disagreements": bad}
