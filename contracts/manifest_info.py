"""Per-property manifest texts (consumed by tools/gen_manifest.py)."""
NOTES = ("Contract-based deductive verification with an own VC generator (pyvc). Exit codes of ./check: 0 all obligations "
         "discharged, 1 VIOLATION (refuted obligation, replayed natively where an input exists), 2 UNDECIDED (unknown / "
         "unsupported construct; never reported as violation), 3 internal error or vacuity guard failed.")

_WIP = "check not built yet in this round (work in progress, see DESIGN.md section 5 build order)"

CHECKS = {
    "C06": {
        "category": "proof",
        "text": ("All paths of _tmu_like, _qmu_like, q0, qmu, qmu_tilde, tmu, tmu_tilde and get_test_stat are executed symbolically on the "
                 "current source; the case definitions of the statement (max(0, v_fixed - v_free), one-sided zeroing, mu forced to 0 for q0, "
                 "no zeroing for t/ttilde, UnspecifiedPOI iff no POI, argument forwarding to the two fits) are postconditions discharged by z3 "
                 "for all real inputs. Closed-form numeric agreement is not decided (needs the external optimiser)."),
        "note": ("fits replaced by their C05 contract (opaque fitted parameters and objective value); tensorlib.where/clip/astensor as pointwise op "
                 "contracts; floats as reals"),
        "technique": "contract-based deductive verification: symbolic execution of the real AST, z3-discharged postconditions, native stub replay",
    },
}

NOT_APPLICABLE = {p: _WIP for p in [f"C{i:02d}" for i in range(1, 21)] if p not in CHECKS}
