"""Per-property manifest texts (consumed by tools/gen_manifest.py)."""
NOTES = ("Contract-based deductive verification with an own VC generator (pyvc). Exit codes of ./check: 0 all obligations "
         "discharged, 1 VIOLATION (refuted obligation, replayed natively where an input exists), 2 UNDECIDED (unknown / "
         "unsupported construct; never reported as violation), 3 internal error or vacuity guard failed.")

_WIP = "check not built yet in this round (work in progress, see DESIGN.md section 5 build order)"

CHECKS = {
    "C06": {
        "category": "proof",
        "text": ("All paths of _tmu_like, _qmu_like, q0, qmu, qmu_tilde, tmu, tmu_tilde and get_test_stat are executed symbolically on the "
                 "current source; the case definitions of the statement (max(0, v_fixed - v_free), one-sided zeroing, mu forced to 0 for q0, "
                 "no zeroing for t/ttilde, UnspecifiedPOI iff no POI, argument forwarding to the two fits) are postconditions discharged by z3 "
                 "for all real inputs. Closed-form numeric agreement is not decided (needs the external optimiser)."),
        "note": ("fits replaced by their C05 contract (opaque fitted parameters and objective value); tensorlib.where/clip/astensor as pointwise op "
                 "contracts; floats as reals"),
        "technique": "contract-based deductive verification: symbolic execution of the real AST, z3-discharged postconditions, native stub replay",
    },
}

NOT_APPLICABLE = {p: _WIP for p in [f"C{i:02d}" for i in range(1, 21)] if p not in CHECKS}

CHECKS["C07"] = {
    "category": "proof",
    "text": ("AsymptoticCalculator.{__init__,teststatistic,distributions,pvalues,expected_pvalues} and AsymptoticTestStatDistribution.{cdf,pvalue,"
             "expected_value} are executed symbolically on the current source for q, qtilde, q0 x normal, clipped_normal. The formulae of the statement "
             "(CLsb, CLb for both qtilde branches, agreement at the seam, CLs ratio, expected values Phi(-N-sqrt qA)/Phi(-N), 0<=CLsb<=CLb<=1, 0<=CLs<=1, "
             "band monotone, clipped variant never below the cutoff, observed statistic never in the NaN branch) are composite postconditions over all "
             "q >= 0, q_A > 0 discharged by z3, plus the wiring of the statistic/Asimov calls. Every backend: the structural wrapper methods of numpy / jax / pytorch / tensorflow (where, clip, tile, gather, boolean_mask, sum / product, ones / zeros, power, sqrt, divide, log, exp, erf, stack, concatenate, reshape, ravel, einsum, transpose, percentile, astensor, tolist, conditional) are executed symbolically and proved to be the abstract tensor operations these contracts assume, with the library functions replaced by their documented meaning (contracts/BK_backend_ops.py)."),
    "note": ("Phi and sqrt uninterpreted with ground-instantiated axioms (monotone, range, symmetry; sqrt^2); band monotonicity additionally uses "
             "log-concavity of Phi as a trusted axiom; 'representable tails' read as Phi total and exact; the library normal cdf itself is C04"),
    "technique": "contract-based deductive verification: symbolic execution of the real AST, composite postconditions discharged by z3 (NRA with axiomatised Phi/sqrt), native stub replay",
}
CHECKS["C08"] = {
    "category": "proof",
    "text": ("hypotest is executed symbolically for all 16 flag combinations x {test_stat absent, any string} with the calculator as a typed opaque "
             "object: returned tuple == documented layout (discovery and non-discovery), teststatistic before distributions, arguments of every "
             "calculator call, defaults taken from the model iff a setting is None/empty, refusals only from the prerequisite check; "
             "_check_hypotest_prerequisites raises UnspecifiedPOI iff no POI and InvalidModel iff the POI is fixed; generate_asimov_data == "
             "expected_data(fixed_poi_fit(asimov_mu, ...)); create_calculator table. The analytic-value clause for counting models is NOT decided."),
    "note": "numeric agreement with closed-form asymptotic values needs the external optimiser (C05 assumption) and is outside; calculator method contracts as proved in C07",
    "technique": "contract-based deductive verification: path enumeration of the real AST over all flag combinations, z3-discharged layout/forwarding obligations",
}
CHECKS["C09"] = {
    "category": "proof",
    "text": ("upper_limit/upperlimit: level, return_results, scan and every hypotest kwarg reach the scan that is executed, in both modes (this "
             "obligation found the dropped level in auto-scan mode, repaired by a fix: commit). toms748_scan: the objective handed to the root finder "
             "is curve_k(poi) - level for k = 0..5 with args=(level, k) and the caller's tolerances, the cache invariant (entry == hypotest of its key) "
             "is preserved by every insertion, the two bracket-extension loops are handled by loop invariants and end with all curves on the right "
             "side of level, the returned results are the cache. linear_grid_scan (scan length symbolic): np.interp receives level, curve k reversed "
             "and the reversed scan, results[i] is the hypotest at scan[i]. Lemma over the assumed np.interp contract: the limit lies in the crossing cell."),
    "note": "toms748 and np.interp are assumed contracts; best_bracket's numpy mask/argmin body is assumed, not proved; monotone CLs with a crossing is the statement's premise",
    "technique": "contract-based deductive verification: symbolic execution with loop invariants and a ghost map invariant, z3; native replay with spied numerical library calls",
}
for _p in ("C07", "C08", "C09"):
    NOT_APPLICABLE.pop(_p, None)

CHECKS["C19"] = {
    "category": "proof",
    "text": ("All 14 click command bodies (cls, fit, inspect, prune, rename, combine, digest, sort, patchset extract/apply/verify/inspect, xml2json, "
             "json2xml) are executed symbolically on the current source with opaque option values and uninterpreted, logged library calls. "
             "Per command: every option reaches the library parameter it documents (term identity, or data dependence without cross-wiring for "
             "derived values), every option is used on every successful path (this obligation found `inspect --measurement` being ignored, "
             "repaired by a fix: commit), the library call is on every successful path, no try/except swallows a library exception, backend and "
             "optimiser are set before the inference call (all 7 backend spellings x 2 optimisers), file and stdout branches serialise the same "
             "object with the same indent/sort_keys, and the emitted object is the library result; the optimizer is registered with the backend that "
             "is current AFTER the requested switch (get_backend modelled per number of earlier set_backend calls); a repeated --optconf key takes its "
             "last value; `inspect` is additionally executed on a concrete-structured workspace (channels listed against their sort order, shared "
             "modifier names, two measurements) through the real Workspace / Model code and every table entry of the dumped object and the printed "
             "channel table is compared with what the library reports. Any option a command hands to Workspace.model besides measurement and patches equals the library default read from pdf.py; the xml2json mount option type hands on the host part converted and the mount part as written."),
    "note": ("click's own parsing is assumed; loops over option tuples are executed with two generic elements (dataflow abstraction); the "
             "library calls are uninterpreted here (their values are C05-C09/C16-C18); options_from_eqdelimstring string handling not covered"),
    "technique": "contract-based deductive verification: symbolic execution of the real command bodies, forwarding/dataflow obligations over logged uninterpreted calls; CliRunner replay",
}
NOT_APPLICABLE.pop("C19", None)

CHECKS["C17"] = {
    "category": "proof",
    "text": ("PatchSet.__init__ is verified with a loop invariant over a dictionary with symbolic keys (names: strings, values: real sequences; any "
             "number of patches): the lookup table contains exactly the names and value tuples of the patches seen so far, each mapping to its "
             "patch; InvalidPatchSet is raised iff a name or value tuple repeats or len(values) != len(labels), and for no other reason (this "
             "invariant's base case found the table seeded with the keys 'name'/'values', repaired by a fix: commit). __getitem__ under the "
             "invariant: returns patch j iff the key is its name or value tuple (list or tuple), else InvalidPatchLookup. verify: loop invariant, "
             "returns normally iff every listed digest matches, else PatchSetVerificationError. apply: verify first, then "
             "Workspace(self[key].apply(spec)) without in_place. Patch properties; utils.digest wiring and ValueError paths. The Workspace constructor through which apply returns its result shares nothing with its argument (dict or Workspace)."),
    "note": ("schema validity is a precondition (names are strings, values numeric tuples); jsonpatch.apply non-mutating and json.dumps(sort_keys)/"
             "hash properties (order insensitivity, value sensitivity) are external assumptions"),
    "technique": "contract-based deductive verification: loop invariants over z3 arrays (map representation invariant with ghost witness), z3; native replay battery",
}
NOT_APPLICABLE.pop("C17", None)

CHECKS["C03"] = {
    "category": "proof",
    "text": ("The vectorised code0/1/2/4/4p.{__init__,_precompute,_precompute_alphasets,__call__} are executed on the current source under a "
             "pointwise tensor semantics with symbolic shapes (S,H,A,B): the generic output element equals the piecewise specification written "
             "from the statement for ALL real alpha and all (positive, for the multiplicative codes) triples, starting from the state left by ANY "
             "history of earlier call shapes (class invariant: established by __init__, preserved by __call__ and by _precompute). The scalar "
             "reference implementations are proved equal to the same specification path by path, hence fast == slow everywhere. code4's "
             "coefficients are proved to solve the six boundary conditions (value, first, second derivative at +-alpha0) rather than compared "
             "with a re-typed inverse matrix; spec lemmas: anchors at 0/+-1, continuity, C1/C2 for 4p and 4, uniqueness of the code-4 polynomial. "
             "This check found code 2 discontinuous at +-1 and fast != slow below -1 (repaired by a fix: commit). Every backend: the structural wrapper methods of numpy / jax / pytorch / tensorflow (where, clip, tile, gather, boolean_mask, sum / product, ones / zeros, power, sqrt, divide, log, exp, erf, stack, concatenate, reshape, ravel, einsum, transpose, percentile, astensor, tolist, conditional) are executed symbolically and proved to be the abstract tensor operations these contracts assume, with the library functions replaced by their documented meaning (contracts/BK_backend_ops.py)."),
    "note": ("reals for floats (floating-point neighbours of breakpoints only as reals); pow/log uninterpreted with pow(x,0)=1, pow(x,1)=x, "
             "positivity; alpha0 = 1; tensor op contracts assumed (validated against numpy); _slow_interpolator_looper indexing bounded (shapes <= 2)"),
    "technique": "contract-based deductive verification: symbolic execution of the real tensor code under pointwise-tensor op contracts, class invariant + z3 (NRA); native replay of counterexamples",
}
NOT_APPLICABLE.pop("C03", None)

_PIPE = ("skeleton-bounded, value-unbounded: the structure (channels, samples, bins, modifier names/types, listing order) ranges over the skeleton list "
         "(10 curated + seeded random ones; <= 3 channels, <= 2 samples per channel, <= 3 bins), all numbers are z3 reals")
CHECKS["C01"] = {
    "category": "proof",
    "text": ("The REAL pipeline Model.__init__ -> builders -> *_combined.__init__ -> _MainModel.expected_data is executed symbolically on structure "
             "skeletons whose numbers are all symbolic; every reported bin (plain, by sample, through Model.expected_data/expected_actualdata, "
             "with sample/bin clipping, with the non-default interpolation codes) is proved by z3 equal to the independent rate formula of the "
             "statement for ALL parameter values inside and outside |alpha|<=1 and all positive yields; channel slices tile the main data in the "
             "reported order. " + _PIPE + ". Tier P (unbounded shapes): for symbolic numbers of modifiers, samples, batch rows, bins and parameters "
             "the real apply methods of the seven *_combined classes, ParamViewer.get and _MainModel.expected_data / modifications are executed on the "
             "abstract object state allowed by their class invariants and proved at a generic index: apply == where(declared[m,s,b], value of the "
             "parameter the modifier is named after (through the interpolator contract for normsys / histosys, the index field of the same batch row "
             "for the bin-wise types), neutral element); by-sample rate == prod_k prod_m factor_k * (nominal + sum_m delta), clipped only where the "
             "sample exists; reported rate == sum over samples, then the bin clip (reductions over symbolic extents: congruence + split rules). "
             "That the constructors establish the invariants is what the skeleton tier executes. Every backend: the structural wrapper methods of numpy / jax / pytorch / tensorflow (where, clip, tile, gather, boolean_mask, sum / product, ones / zeros, power, sqrt, divide, log, exp, erf, stack, concatenate, reshape, ravel, einsum, transpose, percentile, astensor, tolist, conditional) are executed symbolically and proved to be the abstract tensor operations these contracts assume, with the library functions replaced by their documented meaning (contracts/BK_backend_ops.py)."),
    "note": ("interpolators replaced by their C03 contract; index/mask computations that are fully concrete are run by CPython with the numpy backend "
             "of the tree under test; other backends only through op contracts; the structure is bounded (stated), the numbers are not"),
    "technique": "contract-based deductive verification: symbolic execution of the real constructors and evaluators per structure skeleton, z3 equality with an independent oracle; unbounded-shape proofs of apply / get / expected_data under class invariants; native replay",
}
CHECKS["C02"] = {
    "category": "proof",
    "text": ("The REAL constraint constructors, make_pdf, Simultaneous/Independent.log_prob and Model.logpdf/mainlogpdf/constraint_logpdf/pdf/"
             "expected_auxdata are executed symbolically on structure skeletons; parameters, main data and AUXILIARY data are independent symbolic "
             "reals. Proved: logpdf == sum_g logPois(n_g|E_g) + one term per constrained component (unit Gaussian for normsys/histosys, "
             "Gaussian(aux|gamma, quadrature-summed relative MC uncertainty) for staterror, Gaussian(lumi_0|lambda, sigma) for lumi, "
             "Poisson(tau|gamma tau), tau=(nom/unc)^2 for shapesys), each paired with the auxiliary datum at the reported position; main + "
             "constraint == full; pdf == exp(logpdf); config.auxdata is the nominal auxiliary data in the reported order; overrides of "
             "auxdata/sigmas/factors appear verbatim. Found and repaired (fix: commit): constraint_logpdf/expected_auxdata raised IndexError on "
             "models without constrained parameters. " + _PIPE + ". Tier P (unbounded number of constrained components N, parameters, auxiliary data, batch rows): gaussian_ / poisson_constraint_combined.make_pdf + logpdf are executed on the abstract state of their class invariants and the value is proved to be ONE reduction over the components whose n-th term is logN(aux[d(n)] | par[k(n)], sigma(n)) resp. logPois(aux[d(n)] | par[k(n)] * factor(n)); no pdf object without constrained components; _TensorViewer.stitch / split for any two-part partition of symbolic sizes under the permutation invariant (every datum lands at the position its index names; split reads each part's own indices), with and without leading axes. Every backend: the structural wrapper methods of numpy / jax / pytorch / tensorflow (where, clip, tile, gather, boolean_mask, sum / product, ones / zeros, power, sqrt, divide, log, exp, erf, stack, concatenate, reshape, ravel, einsum, transpose, percentile, astensor, tolist, conditional) are executed symbolically and proved to be the abstract tensor operations these contracts assume, with the library functions replaced by their documented meaning (contracts/BK_backend_ops.py)."),
    "note": "density formulas are the C04 specification functions (xlogy, lgamma, log, sqrt uninterpreted with axioms); structure bounded, numbers unbounded",
    "technique": "contract-based deductive verification: symbolic execution of the real likelihood pipeline per structure skeleton, z3 equality with the template oracle; native replay",
}
CHECKS["C10"] = {
    "category": "proof",
    "text": ("Batched models (batch size 2 in the quick tier; 1, 2, 3 in the thorough tier) are executed symbolically on structure skeletons with "
             "DISTINCT symbolic parameter and data rows: every row of expected_data / expected_actualdata / logpdf is proved equal to the row-local "
             "oracle evaluated on that row alone (== the unbatched model by C01/C02), the batch axis is leading. Sample shapes are checked natively "
             "(bounded, labelled). " + _PIPE + ". Every backend: the structural wrapper methods of numpy / jax / pytorch / tensorflow (where, clip, tile, gather, boolean_mask, sum / product, ones / zeros, power, sqrt, divide, log, exp, erf, stack, concatenate, reshape, ravel, einsum, transpose, percentile, astensor, tolist, conditional) are executed symbolically and proved to be the abstract tensor operations these contracts assume, with the library functions replaced by their documented meaning (contracts/BK_backend_ops.py)."),
    "note": "samplers are external (shape only, bounded); batch sizes bounded as stated; numbers unbounded",
    "technique": "contract-based deductive verification: symbolic execution of the batched pipeline per structure skeleton with distinct symbolic rows, z3; native replay",
}
for _p in ("C01", "C02", "C10"):
    NOT_APPLICABLE.pop(_p, None)

CHECKS["C20"] = {
    "category": "proof",
    "text": ("Every fault class of the statement (duplicate channel / sample / (type,name) modifier, sample or modifier data length != bin count, "
             "bin-wise modifier shared between places with different bin counts, one name with conflicting constraint types or sizes, override of "
             "the wrong length, undefined POI, lumi without settings, plus the pair 'compensating length errors in two channels') is injected at "
             "EVERY applicable position of three base skeletons with all numbers symbolic; the real Model.__init__ is executed symbolically on each "
             "faulty specification and every path must end in InvalidSpecification / InvalidModel / InvalidModifier / InvalidNameReuse - no "
             "acceptance, no other exception type, no AssertionError (for size-mismatched sharing the safety form: acceptance only if every "
             "declared cell is bound correctly, proved against the rate oracle). The check found, with native replays, five genuine defects "
             "(duplicates accepted; compensating length errors; staterror AssertionError; shapefactor bound to parameter 0; lumi override length / "
             "missing lumi settings) that are repaired by fix: commits."),
    "note": "the JSON schema validator is skipped (faults are schema-valid by construction); structure bounded by the base skeletons and single faults, numbers symbolic",
    "technique": "contract-based deductive verification: fault enumeration over structure skeletons, symbolic execution of the real constructor, exception-type obligations; native replay",
}
NOT_APPLICABLE.pop("C20", None)

CHECKS["C12"] = {
    "category": "proof",
    "text": ("Unbounded: _ModelConfig._create_and_register_paramsets is proved with a loop invariant for ANY number of parameter sets of ANY sizes "
             "(next_index is the prefix sum, every registered slice is [P(j), P(j+1)), par_order is the names so far) => the slices tile [0, npars) "
             "in par_order. Skeleton-bounded with symbolic numbers and symbolic measurement overrides (two override sets per skeleton): slices and "
             "sizes, one entry per component in suggested_init/bounds/fixed/par_names, overrides (inits, bounds, fixed) verbatim and documented "
             "defaults otherwise, Workspace.data == observations in model channel order (+auxdata) with a second call equal and nothing mutated, "
             "the caller's specification untouched, layout / rates / data invariant under reversing every list, Workspace.build(model, data) "
             "reproduces layout, data, settings and auxiliary data. Found and repaired (fix: commits): build dropped auxdata/sigmas/factors (lumi "
             "models could not be rebuilt) and raised RuntimeError for partly fixed parameter sets."),
    "note": ("_ChannelSummaryMixin slice loop checked for 1-4 channels (bounded, labelled); sorted/set/deepcopy are assumed builtin contracts; the "
             "constraint-term side of the overrides (auxdata, sigmas, factors) is C02"),
    "technique": "contract-based deductive verification: loop invariant over z3 arrays (unbounded) plus symbolic execution of the real constructors per structure skeleton; native replay",
}
NOT_APPLICABLE.pop("C12", None)

CHECKS["C14"] = {
    "category": "proof",
    "text": ("EmpiricalDistribution and ToyCalculator are executed symbolically on the current source for an ARBITRARY number of toys: pvalue(v) is "
             "exactly #{s_i >= v}/n with ties counted (a symbolic sum, rules R1-R3), lies in [0,1] and never increases with v; expected_value forwards "
             "Phi(nsigma)*100 to the linear percentile. ToyCalculator.distributions: signal toys are drawn from make_pdf(fixed_poi_fit(poi_test,...)), "
             "background toys from make_pdf(fixed_poi_fit(0 | 1 for q0,...)) with sample shape (ntoys,), and - the two toy "
             "loops over a sequence of symbolic length being read as the comprehensions they are, independently of local names - entry i of either distribution is teststat(poi_test, sample_i, pdf, init, bounds, fixed); pvalues gives the two tail fractions "
             "and their ratio; teststatistic is the statistic of the observed data. NOT decided: the sampling distributions themselves (integer "
             "counts, mean = variance = rate, auxiliary values ~ constraint terms) and the agreement of toy estimates with exact tails - statistical "
             "statements about external samplers. pyhf's own distribution objects of numpy / jax (_BasicPoisson / _BasicNormal): sample(shape) is one library draw with the object's rate / loc, scale and size shape + parameter shape."),
    "note": "samplers, make_pdf and percentile uninterpreted; fit and statistic functions by their C05/C06 contracts; R1-R3 reduction rules trusted",
    "technique": "contract-based deductive verification: symbolic sums with congruence/bound rules, toy loops of symbolic length read as comprehensions (append-loop rule), z3; native replay with stubs",
}
NOT_APPLICABLE.pop("C14", None)

CHECKS["C05"] = {
    "category": "proof",
    "text": ("What pyhf itself does around the external minimisers is executed symbolically on the current source: twice_nll == -2 logpdf; "
             "_validate_fit_inputs raises ValueError iff an initial value is outside its bounds (loop invariant, any number of parameters); fit: "
             "defaults iff a setting is missing, fixed_vals == {(i, init[i]) : fixed[i]} (filtered comprehension characterised element-wise), all "
             "arguments and kwargs forwarded to opt.minimize; fixed_poi_fit: UnspecifiedPOI iff no POI, POI value set and flagged fixed on COPIES, the "
             "caller's lists never written; shim / stitch_pars (bounded: <= 4 parameters, every fixed subset, values symbolic): start values and "
             "bounds of exactly the free parameters, every fixed value and free parameter back at its own position; opt_numpy.wrap_objective; scipy / "
             "minuit adapters: equality constraint vanishes iff every fixed parameter is at its value, fixed flags, limits, tolerances, maxiter "
             "forwarded, unknown options refused; _internal_minimize raises FailedMinimization iff not success; minimize layout for all flag "
             "combinations. Feasibility and honesty of a reported fit follow by a lemma from these contracts and the documented behaviour of "
             "SLSQP / MIGRAD. NOT decided: optimality, success on closed-form models, independence of stitch / grad / optimiser / backend."),
    "note": "external minimisers uninterpreted (assumed to respect bounds / constraints / fixed flags and to report fun == func(x)); pdf.logpdf is C02",
    "technique": "contract-based deductive verification: symbolic execution of the fit wiring with uninterpreted minimisers, loop invariant, z3; native replay with recording stubs",
}
NOT_APPLICABLE.pop("C05", None)

CHECKS["C13"] = {
    "category": "proof",
    "text": ("Wiring only (the decidable part): with the AD operators uninterpreted, the pytorch / tensorflow / jax value-and-gradient wrappers are "
             "executed symbolically on the current source. Proved: the returned value is objective(stitch_pars(pars), data, pdf)[0] - the value of "
             "the non-differentiating path; the derivative is requested of THAT value with respect to the FREE-parameter tensor (torch.autograd.grad("
             "constr_nll, pars) with requires_grad set before stitching; tape.watch(pars) before the objective is evaluated and tape.gradient("
             "constr_nll, pars); jax.value_and_grad(_final_objective, argnums=0) jitted with static_argnums (3..7)); wrap_objective forwards its "
             "pieces positionally; _final_objective puts fixed values and free parameters at their own positions (bounded: <= 3 parameters). "
             "NOT decided: that the AD engines return the true derivative at every point, regime and breakpoint (external engines, floating point); "
             "the C1 continuity of codes 4 / 4p at their breakpoints is a lemma proved in C03. Every backend: the structural wrapper methods of numpy / jax / pytorch / tensorflow (where, clip, tile, gather, boolean_mask, sum / product, ones / zeros, power, sqrt, divide, log, exp, erf, stack, concatenate, reshape, ravel, einsum, transpose, percentile, astensor, tolist, conditional) are executed symbolically and proved to be the abstract tensor operations these contracts assume, with the library functions replaced by their documented meaning (contracts/BK_backend_ops.py)."),
    "note": "torch / tensorflow / jax automatic differentiation is external and assumed correct; replay compares with finite differences (testing-grade, only as arbiter)",
    "technique": "contract-based deductive verification: symbolic execution of the gradient wrappers with uninterpreted AD operators, forwarding obligations; finite-difference native replay",
}
NOT_APPLICABLE.pop("C13", None)

CHECKS["C18"] = {
    "category": "proof",
    "text": ("Skeleton-bounded, value-unbounded: for every workspace skeleton (all seven modifier types, custom normfactor init / bounds, lumi != 1 with its own "
             "uncertainty, fixed parameters, several measurements, a zero-yield bin, integer-typed yields) the real writexml.writexml and then the real "
             "readxml.parse (with build_* / process_* / import_root_histogram / dedupe_parameters / compat.interpret_rootname inlined) are executed "
             "symbolically with every number an independent symbol, against stated contracts of ElementTree / uproot / the file system / numpy. Proved "
             "for all numbers: same channels, samples, nominal yields, observations, POI and constant flags; normsys / histosys / shapesys / staterror "
             "data survive the absolute<->relative conversion; names survive except staterror_<channel>; normfactor init and bounds; lumi central value "
             "and absolute uncertainty; no exception. Histories run through the real module-level state: export A, import, export B into the same "
             "directory, import gives B; exporting elsewhere leaves the first import unchanged. Likelihood equality is derived from these clauses via "
             "C01 / C02 and compared natively in the replay only."),
    "note": ("I/O libraries are ASSUMED contracts (pyvc/iomodel.py): XML text serialisation, ROOT file format, float(str(x)) == x, stat() distinguishing "
             "rewritten files; schema validation of the parsed workspace assumed to accept; DTD conformance of the written XML is not checked"),
    "technique": "contract-based deductive verification: symbolic execution of the real writer and reader against library contracts, z3-discharged round-trip postconditions per skeleton; native replay with real uproot files",
}
NOT_APPLICABLE.pop("C18", None)

CHECKS["C16"] = {
    "category": "proof",
    "text": ("Skeleton-bounded, value-unbounded: the real Workspace.combine (with _join_items / _join_versions / _join_channels / _join_observations / "
             "_join_measurements / _join_parameter_configs), prune, rename, _prune_and_rename, sorted and Workspace.__init__ are executed symbolically "
             "on workspace skeletons whose numbers are independent symbols; the operands of a combination use disjoint symbols, so the identical and the "
             "conflicting overlap are the two branches of the content comparisons and both are explored. Proved per path for all numbers: a combination "
             "is refused (InvalidWorkspaceOperation / ValueError) exactly when the statement says so (common names under 'none', same name with different "
             "content, POI or parameter configuration under 'outer', different versions, unknown join, merging without outer join) and otherwise holds "
             "every channel / observation / measurement of both operands once and unchanged (primary side first under one-sided joins, samples united "
             "under channel merging); prune removes exactly the named items; rename is a relabelling (POI and parameter configurations along) undone by "
             "the inverse renaming; sorted keeps the content, is idempotent and equal for permuted inputs; every result is a new Workspace validated "
             "against workspace.json, operands are unmodified and share no mutable state with it. Likelihood clauses are derived via C01 / C02 and "
             "compared natively in the replay only. Workspace(spec) owns its content for a dict AND for a Workspace argument: same content, no shared mutable container."),
    "note": "structure (names, list lengths, selections, permutations) bounded by the listed skeletons; schema verdict assumed; deepcopy modelled",
    "technique": "contract-based deductive verification: symbolic execution of the real workspace operations on skeletons with symbolic content, both branches of every content comparison, z3-discharged postconditions against specification functions of the statement; native replay incl. likelihood comparison",
}
NOT_APPLICABLE.pop("C16", None)

CHECKS["C11"] = {
    "category": "proof",
    "text": ("Three layers on the real source. (E) events.Callables / subscribe / trigger with an explicit weak-reference model, every live/dead pattern "
             "of up to four subscribed bound methods: a trigger calls exactly the live subscribers once, in subscription order, dead references are not "
             "called and are dropped. (M) tensor/manager.set_backend for 3 starting states x 8 requests (incl. bytes, upper case, precision "
             "override) x optimizers x default flag: afterwards get_backend() is the requested pair, tensorlib_changed fires iff name or precision "
             "changed and only after the state was switched, default state only with default=True, unsupported names / precisions refused. (H) "
             "histories, skeleton-bounded and value-unbounded: the real Model construction (real events registry, every real _precompute of _MainModel, "
             "the seven *_combined appliers, both constraint classes, ParamViewer, _TensorViewer, interpolators code0/1/2/4/4p) interleaved with real "
             "set_backend calls set(a); O1; set(b); O2; [collect O1]; set(c); O3 over {numpy/64b, numpy/32b, jax/64b}^3: every live old object is "
             "proved equal to the fresh O3 attribute by attribute (values; for derived tensors also the precision / backend tag, so a tensor that was not "
             "re-derived is recognised), expected_data and logpdf at a symbolic parameter point are equal and are tensors of the current backend that "
             "consumed no tensor of an earlier backend, nothing raises and collected objects are not called. Backend life cycle: constructing a backend object makes no library call; _setup configures library-global state only for pytorch (default dtype == its float type) - results cannot depend on which backend objects were constructed or on switches made earlier through such state."),
    "note": ("jax / pytorch / tensorflow are represented by the shared tensor-op contracts with their own tag (their array types and the jax jit cache are "
             "external); weak references and garbage collection are a model driven by the harness; histories bounded to three switches; inference equality "
             "follows from equal expected_data / logpdf; the replay runs random histories on the real installed backends"),
    "technique": "contract-based deductive verification: symbolic execution of the real event registry, set_backend and every _precompute along bounded switch/create/collect histories, representation invariant 'old object state == fresh object state' discharged structurally and by z3; native replay on real backends",
}
NOT_APPLICABLE.pop("C11", None)

CHECKS["C15"] = {
    "category": "proof",
    "text": ("The likelihood side of the statement, as lemmas over the real pipeline: for base skeletons and the rewrites reorder / rename / add a zero-yield "
             "sample / add a no-op normsys and histosys / split a channel's bins into two channels / merge two samples with identical modifiers / rescale "
             "the signal by k (and pairwise compositions) the REAL Model.__init__ -> expected_data / logpdf code is executed symbolically on the skeleton "
             "and on its rewritten form in one run, with parameters identified by name and data by channel and bin over one set of canonical symbols. "
             "Proved for all numbers, entry by entry: expected data and constraint widths agree, logpdf' == logpdf (plus exactly the added unit-Gaussian "
             "terms for the no-op systematics; at mu/k for the rescaling), same POI, suggested init / bounds / fixed flags correspond. Frame obligation: "
             "the inference functions under contract in C05, C06, C08, C09 read the model only through logpdf / expected_data / make_pdf and the "
             "configuration accessors. From these the invariances of the statement follow for exact optimisation. NOT decided: agreement beyond fit "
             "tolerance, between scipy and minuit, and across backends (external minimisers, floating point)."),
    "note": ("structure bounded by three base skeletons x the listed rewrites; trusted axiom: the code-4 core polynomial of a triple with down == nominal == up "
             "vanishes; the step from equal likelihoods to equal inference results assumes exact optimisation"),
    "technique": "contract-based deductive verification: relational lemmas - symbolic execution of the real model pipeline on a skeleton and its rewrite over shared canonical symbols, stepwise z3 proofs (rates, widths, log-density); attribute-read frame obligation over the inference contracts; native replay of the rewrite on concrete models",
}
NOT_APPLICABLE.pop("C15", None)

CHECKS["C04"] = {
    "category": "proof",
    "text": ("The decidable part only. (F) The primitive methods of the four backends and the wrappers of probability.py are executed symbolically on the "
             "current source with the library special functions uninterpreted: numpy / jax poisson_logpdf == xlogy(n, lam) - lam - gammaln(n + 1), "
             "poisson == exp of it, the hand-written normal_logpdf == -log s - log sqrt(2 pi) - (x - mu)^2 / (2 s^2) (proved from sqrt(2)^2 = 2 and "
             "log(ab) = log a + log b), normal / normal_cdf forward (x, loc=mu, scale=s) to norm.pdf / norm.cdf; pytorch forwards to Poisson(rate=lam, "
             "validate_args=False).log_prob(n), Normal(mu, s).log_prob(x), normal_cdf == erfc(-((x - mu)/s)/sqrt 2)/2, non-log variants are exponentials "
             "of the log variants; tensorflow forwards to tfp Poisson / Normal log_prob / prob / cdf; poisson_dist / normal_dist and probability.Poisson / "
             "Normal / Independent evaluate the same primitives with (value, rate) / (value, loc, scale), Independent sums over the last axis. (D) astensor of "
             "every backend x precision x input kind against a dtype-tracking model of the conversion functions: the result has the backend's dtype and "
             "the value never passes through a narrower float type. NOT decided: the accuracy claims of the statement (few ulps, far tails, lam = 0, large "
             "counts, 32b tolerances) - floating-point behaviour of external special functions. Backend life cycle: constructing a backend object makes no library call; _setup configures library-global state only for pytorch (default dtype == its float type) - results cannot depend on which backend objects were constructed or on switches made earlier through such state."),
    "note": "library special functions and distributions are uninterpreted (trusted); floats as reals; the dtype model of tf.convert_to_tensor / np.asarray / torch.as_tensor is assumed",
    "technique": "contract-based deductive verification: symbolic execution of the backend primitives with uninterpreted library functions, formula and forwarding postconditions discharged by z3; dtype-path contract of astensor; native replay against scipy",
}
NOT_APPLICABLE.pop("C04", None)
