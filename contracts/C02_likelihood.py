"""C02 - the log-likelihood is exactly the HistFactory template.

(B2, skeleton-bounded, value-unbounded)  For every skeleton the REAL pipeline Model.__init__ -> constraint
  constructors -> make_pdf -> log_prob is executed symbolically (yields, uncertainties, settings, parameters,
  main data and auxiliary data are independent z3 reals) and proved equal to
     sum_g logPois(n_g | E_g) + sum over constrained components of the term the statement assigns,
  with each term paired with the auxiliary datum at the reported position; mainlogpdf + constraint_logpdf
  == logpdf, pdf == exp(logpdf); config.auxdata holds the nominal auxiliary data in the reported order;
  measurement-level overrides of auxdata / sigmas / factors appear verbatim in the terms.
logPois / logN are the C04 specification functions (xlogy, lgamma, log uninterpreted)."""
import z3

from pyvc.tensor import PT, Exp
from pyvc.values import Unsupported
from . import hf_oracle as O
from . import hf_skeleton as K

PROPERTY = "C02"
LEVEL = "proof"
EXPLANATION = ("the real constraint constructors, make_pdf and log_prob are executed symbolically on structure skeletons with all numbers (incl. "
               "auxiliary data, varied independently of the parameters) symbolic; the log-density is proved equal to the template term by term")
TRUSTED = ["Poisson / Normal log-density formulas of the backend (C04): xlogy(n,lam) - lam - lgamma(n+1), -log(sigma) - log(sqrt(2 pi)) - (x-mu)^2/(2 sigma^2)",
           "interpolator contract (C03); tensor op contracts; concrete index computations run natively",
           "sqrt axioms (sqrt(x)^2 = x, sqrt(x) >= 0 for x >= 0)"]
ASSUMPTIONS = ["yields, uncertainties, variations strictly positive; structure bounded by the skeleton list; numbers unbounded"]

OVERRIDE_SKELETONS = [
    ("override-normsys-aux-sigma", {"channels": [("c1", 2, [("sig", [("normfactor", "mu")]), ("bkg", [("normsys", "n1"), ("shapesys", "ss")])])], "poi": "mu",
                                    "parameters": "n1:auxdata;ss:auxdata,factors"}),
    ("override-staterror", {"channels": [("c1", 2, [("sig", [("normfactor", "mu"), ("staterror", "st")]), ("bkg", [("staterror", "st")])])], "poi": "mu",
                            "parameters": "st:auxdata,sigmas"}),
]
NO_CONSTRAINT_SKELETON = ("no-constrained-parameter", {"channels": [("c1", 2, [("sig", [("normfactor", "mu")]), ("bkg", [("shapefactor", "sf")])])], "poi": "mu"})


def with_overrides(skel, sym):
    """turn the 'name:key,key;...' shorthand into symbolic measurement-level parameter settings"""
    sk = dict(skel)
    text = sk.pop("parameters", None)
    if not isinstance(text, str):
        return skel
    pars = []
    for item in text.split(";"):
        name, keys = item.split(":")
        n = 1
        for _, nb, ss in skel["channels"]:
            for _, ms in ss:
                for t, nm in ms:
                    if nm == name and t in ("shapesys", "staterror", "shapefactor"):
                        n = nb
        p = {"name": name}
        for k in keys.split(","):
            p[k] = [sym(f"cfg.{name}.{k}{j}") for j in range(n)]
        pars.append(p)
    sk["parameters"] = pars
    return sk


def run_one(T, name, skel):
    key = "pdf.py::Model.logpdf"
    eng = T.engine(K.pipeline_policy())
    box = {}

    def thunk():
        sym = K.Sym()
        sk = with_overrides(skel, sym)
        spec, sym = K.build_spec(sk, sym)
        for c in sym.positivity():
            eng.assume(c)
        m = K.make_model(eng, spec, skel.get("poi"))
        lay = K.layout_of(eng, m)
        th = K.theta_vec(lay.npars)
        for t in th:
            eng.assume(t > 0)            # rates stay positive (constraint rates gamma*tau > 0)
        cfg = eng.getattr(m, "config")
        nmain, naux = eng.getattr(cfg, "nmaindata"), eng.getattr(cfg, "nauxdata")
        data = [z3.Real(f"d{i}") for i in range(nmain + naux)]
        out = {"logpdf": eng.call(eng.getattr(m, "logpdf"), [th, data], {}),
               "main": eng.call(eng.getattr(m, "mainlogpdf"), [data[:nmain], th], {}),
               "auxdata": list(eng.getattr(cfg, "auxdata")), "nmain": nmain, "naux": naux}
        box.update(spec=spec, lay=lay, th=th, data=data, m=m)
        try:
            out["con"] = ("ok", eng.call(eng.getattr(m, "constraint_logpdf"), [data[nmain:], th], {}))
        except Exception as e:          # recorded, judged below
            if isinstance(e, Unsupported):
                raise
            out["con"] = ("raise", getattr(e, "cls", type(e)))
        try:
            out["exp_aux"] = ("ok", eng.call(eng.getattr(m, "expected_auxdata"), [th], {}))
        except Exception as e:
            if isinstance(e, Unsupported):
                raise
            out["exp_aux"] = ("raise", getattr(e, "cls", type(e)))
        out["pdf"] = eng.call(eng.getattr(m, "pdf"), [th, data], {})
        return out
    results = eng.explore(thunk)
    T.absorb(eng, results)
    for k, r in enumerate(results):
        sfx = f"{name},path{k}"
        if r.kind != "return":
            T.fail(f"{key}#no-raise@class=well-formed|{sfx}", f"raises {r.exc_name} {getattr(r.value, 'eargs', '')}", kind="raises", skeleton=skel)
            continue
        spec, lay, th, data = box["spec"], box["lay"], box["th"], box["data"]
        o = r.value
        hy = r.path.hyps()
        nmain = o["nmain"]
        terms = O.constraint_terms(O.ZOps, spec, lay, th)
        okn = o["naux"] == len(terms)
        (T.ok if okn else T.fail)(f"pdf.py::_ModelConfig.set_auxinfo#post.one-auxiliary-datum-per-constrained-component@class=well-formed|{sfx}",
                                  *([] if okn else [f"nauxdata {o['naux']} but {len(terms)} constrained components"]), skeleton=skel)
        if not okn:
            continue
        # nominal auxiliary data, in the reported order
        T.ob(eng, f"pdf.py::_create_parameters_from_spec#post.auxdata-in-reported-order@class=well-formed|{sfx}", hy,
             z3.And(*[eng.to_real(a) == t[3] for a, t in zip(o["auxdata"], terms)]) if terms else z3.BoolVal(True), skeleton=skel)
        main, con = O.logpdf(O.ZOps, spec, lay, th, data)
        # lemma use: the rates were proved equal to the oracle in C01; here the whole log-density, term structure included
        lp = o["logpdf"]
        lpv = lp.fn((z3.IntVal(0),)) if isinstance(lp, PT) else eng.to_real(lp)
        okshape = isinstance(lp, PT) and lp.shape == (1,)
        (T.ok if okshape else T.fail)(f"{key}#post.shape-(1,)@class=well-formed|{sfx}", *([] if okshape else [f"shape {getattr(lp, 'shape', None)}"]), skeleton=skel)
        T.ob(eng, f"{key}#post.template@class=well-formed|{sfx}", hy, lpv == main + con, skeleton=skel)
        mv = eng.to_real(o["main"]) if not isinstance(o["main"], PT) else eng.to_real(o["main"].fn(tuple(z3.IntVal(0) for _ in o["main"].shape)))
        T.ob(eng, f"pdf.py::Model.mainlogpdf#post.poisson-part@class=well-formed|{sfx}", hy, mv == main, skeleton=skel)
        cls = "well-formed" if terms else "no-constrained-parameter"
        if o["con"][0] == "ok":
            cv = o["con"][1]
            cv = eng.to_real(cv) if not isinstance(cv, PT) else eng.to_real(cv.fn(tuple(z3.IntVal(0) for _ in cv.shape)))
            T.ob(eng, f"pdf.py::Model.constraint_logpdf#post.constraint-part@class={cls}|{sfx}", hy, cv == con, skeleton=skel)
            T.ob(eng, f"{key}#post.main-plus-constraint@class={cls}|{sfx}", hy, lpv == mv + cv, skeleton=skel)
        else:
            T.fail(f"pdf.py::Model.constraint_logpdf#no-raise@class={cls}|{sfx}", f"raises {getattr(o['con'][1], '__name__', o['con'][1])}", kind="raises", skeleton=skel, what="constraint_logpdf")
        if o["exp_aux"][0] == "ok":
            ea = o["exp_aux"][1]
            want = O.expected_aux(O.ZOps, spec, lay, th)
            n = ea.shape[0] if isinstance(ea, PT) else len(ea)
            if n != len(want):
                T.fail(f"pdf.py::Model.expected_auxdata#post.value@class={cls}|{sfx}", f"length {n} != {len(want)}", skeleton=skel)
            else:
                T.ob(eng, f"pdf.py::Model.expected_auxdata#post.value@class={cls}|{sfx}", hy,
                     z3.And(*[a == b for a, b in zip(K.elements(ea, n), want)]) if want else z3.BoolVal(True), skeleton=skel)
        else:
            T.fail(f"pdf.py::Model.expected_auxdata#no-raise@class={cls}|{sfx}", f"raises {getattr(o['exp_aux'][1], '__name__', o['exp_aux'][1])}", kind="raises", skeleton=skel, what="expected_auxdata")
        pv = o["pdf"]
        pv = pv.fn((z3.IntVal(0),)) if isinstance(pv, PT) else eng.to_real(pv)
        T.ob(eng, f"pdf.py::Model.pdf#post.exp-of-logpdf@class=well-formed|{sfx}", hy, pv == Exp(lpv), skeleton=skel)


def make_task(chunk):
    def task(T):
        for name, skel in chunk:
            run_one(T, name, skel)
        T.bounded_block("skeleton-bounded symbolic execution of Model.__init__ -> logpdf / mainlogpdf / constraint_logpdf / pdf",
                        "structure: skeletons " + ", ".join(nm for nm, _ in chunk) + "; numbers incl. auxiliary data: unbounded (z3 reals)", len(chunk), 0)
    return task


from .BK_backend_ops import TRUSTED as BK_TRUSTED
TRUSTED = TRUSTED + BK_TRUSTED


def tasks(tier):
    import os
    seed = int(os.environ.get("VERIF_SEED", "0") or 0)
    sk = K.skeletons(tier, seed) + OVERRIDE_SKELETONS + [NO_CONSTRAINT_SKELETON]
    out = []
    for i in range(0, len(sk), 2):
        chunk = sk[i:i + 2]
        out.append((f"pipeline[{','.join(n for n, _ in chunk)}]", make_task(chunk)))
    # "batched or not" is part of the quantifier: the bin-wise skeletons are also run with batch size 2 (shared with C10)
    from . import C10_batching as B

    def batched(T):
        for nm in ("2c-different-nbins-staterror", "all-seven-types"):
            B.run_one(T, nm, dict(K.CURATED)[nm], 2)
    out.append(("batched-variant", batched))
    from .C02_tierp import tierp_tasks
    out += tierp_tasks(tier)
    # "every backend": each backend's wrapper methods are proved to be the tensor operations the contracts above assume
    from .BK_backend_ops import backend_op_tasks
    out += backend_op_tasks(tier)
    return out


def replay(r):
    meta = r.get("meta") or {}
    if (meta.get("op") or meta.get("lifecycle")) and meta.get("backend"):
        from .BK_backend_ops import replay_backend_op
        return replay_backend_op(r)
    skel = meta.get("skeleton")
    if skel is None and "_TensorViewer" in r["name"]:
        import numpy as np
        import pyhf
        from pyhf.tensor.common import _TensorViewer
        pyhf.set_backend("numpy")
        bad = {}
        for lname, idx in {"in-order": [[0, 1, 2], [3, 4]], "first-part-last": [[3, 4], [0, 1, 2]], "interleaved": [[0, 2], [1, 3, 4]], "one-each": [[1], [0]]}.items():
            tv = _TensorViewer([np.asarray(i) for i in idx])
            for lead in ((), (2,), (2, 3)):
                parts = [100.0 * (k + 1) + np.arange(int(np.prod(lead + (len(ix),))), dtype=float).reshape(lead + (len(ix),)) for k, ix in enumerate(idx)]
                try:
                    st = np.asarray(tv.stitch(parts))
                    for k, ix in enumerate(idx):
                        if st.shape != lead + (sum(map(len, idx)),) or not np.array_equal(st[..., ix], parts[k]):
                            bad[f"stitch:{lname},lead={lead},part{k}"] = {"got": st[..., ix].tolist() if st.ndim else None, "want": parts[k].tolist()}
                    back = tv.split(st)
                    for k in range(len(idx)):
                        if not np.array_equal(np.asarray(back[k]), st[..., idx[k]]):
                            bad[f"split:{lname},lead={lead},part{k}"] = {"got": np.asarray(back[k]).tolist(), "want": st[..., idx[k]].tolist()}
                except Exception as e:
                    bad[f"{lname},lead={lead}"] = f"{type(e).__name__}: {e}"
        return {"reproduced": bool(bad), "disagreements": dict(list(bad.items())[:4])}
    if skel is None and "_constraint_combined" in r["name"]:
        # tier P obligations carry no input: the constraint classes are exercised natively through Model.logpdf on curated skeletons
        from .hf_native import native_compare
        out = {"reproduced": False, "disagreements": []}
        for sk in ("all-seven-types", "2c-different-nbins-staterror", "mixed-constraint-widths", "1c2s-normfactor-shapesys"):
            for batch in (None, 2):
                try:
                    res = native_compare(dict(K.CURATED)[sk], what="logpdf", batch=batch)
                except Exception as e:
                    res = {"reproduced": True, "disagreements": [f"evaluation raises {type(e).__name__}: {e}"]}
                if res.get("reproduced"):
                    out["reproduced"] = True
                    out["disagreements"].append({"skeleton": sk, "batch": batch, "first": res["disagreements"][:2]})
        return out
    if skel is None:
        return None
    if meta.get("what") in ("constraint_logpdf", "expected_auxdata"):
        import random
        import pyhf
        from .hf_native import concretise
        spec = concretise(skel, random.Random(3))
        m = pyhf.Model(spec, poi_name=skel.get("poi"))
        pars = m.config.suggested_init()
        try:
            if meta["what"] == "constraint_logpdf":
                m.constraint_logpdf(m.config.auxdata, pars)
            else:
                m.expected_auxdata(pars)
            return {"reproduced": False}
        except Exception as e:
            return {"reproduced": True, "call": meta["what"], "raises": f"{type(e).__name__}: {e}", "spec": spec}
    from .hf_native import native_compare

    class NumSym:
        def __init__(self):
            self.leaves, self.k = {}, 0

        def __call__(self, name):
            self.k += 1
            v = round(0.6 + 0.37 * self.k, 3) if "auxdata" in name else round(1.3 + 0.21 * self.k, 3)
            if "sigmas" in name:
                v = round(0.1 + 0.07 * self.k, 3)
            self.leaves[name] = v
            return v
    sk = with_overrides(skel, NumSym())
    return native_compare(sk, what="logpdf")
