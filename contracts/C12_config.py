"""C12 - the model configuration is a consistent partition and honours overrides.

(U, unbounded)  _ModelConfig._create_and_register_paramsets: loop invariant over an arbitrary number of parameter
  sets of arbitrary sizes  next_index == P(i), slice_j == [P(j), P(j+1)) for j < i, par_order == names[:i]
  (P the prefix sum of n_parameters) => the slices tile [0, P(N)) in par_order;
  _ChannelSummaryMixin.__init__ slice loop: begin == sum of earlier bin counts => channel slices tile the main data.
(B2, skeleton-bounded, value-unbounded)  On structure skeletons with symbolic numbers and symbolic measurement
  overrides the real Workspace / Model constructors are executed symbolically: slices tile [0, npars) in par_order;
  suggested_init / bounds / fixed / par_names have one entry per component; overrides (inits, bounds, fixed) appear
  verbatim, documented defaults otherwise; Workspace.data == observations in model channel order (+ auxdata)
  without mutating the workspace or the configuration; Workspace.build(model, data) reproduces model and data;
  construction leaves the caller's specification untouched; reversing every list of the specification changes
  neither the layout nor the likelihood."""
import copy

import z3

from pyvc.interp import LoopSpec
from pyvc.symmap import Key, SymDict
from pyvc.tensor import PT
from pyvc.values import I, Obj, Rec, SeqV, SymList, Unsupported, is_z, item_of, len_of, real_of, str_of, ufunc, box_real
from . import hf_oracle as O
from . import hf_skeleton as K

PROPERTY = "C12"
LEVEL = "proof"
EXPLANATION = ("running-index loops proved with invariants for any number / size of parameter sets and channels; the remaining clauses are proved "
               "per structure skeleton by symbolic execution of the real constructors with symbolic numbers and overrides")
TRUSTED = ["sorted(), set(), copy.deepcopy (assumed contracts of the builtins)", "interpolator contract (C03); tensor op contracts",
           "documented modifier defaults used as the oracle for non-overridden settings: normfactor 1 in [0,10]; normsys/histosys 0 in [-5,5]; "
           "shapesys/staterror 1 in [1e-10,10]; shapefactor 1 in [0,10]; lumi from the measurement"]
ASSUMPTIONS = ["structure bounded by the skeleton list for the B2 clauses; numbers and overrides symbolic"]

DEFAULTS = {"normfactor": (1.0, (0, 10)), "normsys": (0.0, (-5.0, 5.0)), "histosys": (0.0, (-5.0, 5.0)), "shapesys": (1.0, (1e-10, 10.0)),
            "staterror": (1.0, (1e-10, 10.0)), "shapefactor": (1.0, (0.0, 10.0))}


# ------------------------------------------------------------------ (U) unbounded loop proofs
Pfx = z3.Function("prefix_npar", I, I)        # P(i) = sum_{j<i} n_parameters(j)
NPar = z3.Function("npar_of", I, I)


def prefix_axioms():
    j = z3.Int("pj")
    return [Pfx(0) == 0, z3.ForAll([j], z3.Implies(j >= 0, z3.And(Pfx(j + 1) == Pfx(j) + NPar(j), NPar(j) >= 1)))]


def t_register_paramsets(T):
    key = "pdf.py::_ModelConfig._create_and_register_paramsets"
    state = {}
    name_of = z3.Function("parname_of", I, z3.StringSort())
    pset_of = z3.Function("paramset_of", I, Obj)
    slice_of = ufunc("mk_slice", Obj, Obj, Obj)

    def items_contract(eng, n):
        # required_paramsets.items(): entry j is (name_j, paramset_j) with paramset_j.n_parameters == NPar(j)
        def at(e, i):
            ps = pset_of(i)
            e.assume(real_of(e.opaque_attr(ps, "n_parameters")) == z3.ToReal(NPar(i)))
            return (name_of(i), ps)
        return SymList(n, at)

    def inv(eng, env, i):
        d, order = state["par_map"], state["order"]
        j = z3.Int("ij")
        k = z3.Const("ik", Key)
        nxt = env.lookup("next_index")
        w = z3.Select(d.owner, k)
        # the slice stored for name_j is [P(j), P(j+1))
        stored = lambda jj: z3.Select(d.lookup, Key.KStr(name_of(jj)))
        return [("next_index-is-prefix-sum", eng.to_arith(nxt) == Pfx(i)),
                ("par_order-is-names-so-far", z3.And(order.n == i, z3.ForAll([j], z3.Implies(z3.And(0 <= j, j < i), z3.Select(order.arr, j) == eng.box(name_of(j)))))),
                ("slices-are-prefix-intervals", z3.ForAll([j], z3.Implies(z3.And(0 <= j, j < i), z3.And(
                    z3.Select(d.member, Key.KStr(name_of(j))),
                    stored(j) == state["entry"](eng, Pfx(j), Pfx(j + 1), pset_of(j))))))]

    def havoc(eng, env):
        state["par_map"].havoc(eng)
        o = state["order"]
        o.arr, o.n = z3.Const("order!arr", z3.ArraySort(I, Obj)), z3.Int("order!n")
        env.bind("next_index", z3.Int("next_index!h"))

    def entry(eng, a, b, ps):
        return eng.box({"slice": slice(a, b), "paramset": ps})
    state["entry"] = entry
    eng = T.engine({("loop", key, 0): LoopSpec(f"{key}#inv", inv, havoc)})
    f = T.under_contract(eng, key)
    cls = eng.module("pdf.py").get("_ModelConfig")

    def thunk():
        for ax in prefix_axioms():
            eng.assume(ax)
        # distinct names (dict keys of required_paramsets)
        a, b = z3.Ints("na nb")
        eng.assume(z3.ForAll([a, b], z3.Implies(z3.And(0 <= a, a < b), name_of(a) != name_of(b))))
        n = z3.Int("N")
        eng.assume(n >= 0)
        o = Rec(cls)
        state["par_map"] = SymDict(eng, "par_map")
        state["order"] = SeqV(z3.K(I, z3.Const("none", Obj)), z3.IntVal(0))
        o.attrs["par_map"] = state["par_map"]
        o.attrs["_par_order"] = state["order"]
        req = eng.obj("required_paramsets")
        eng.policy[("opaque_items", req.get_id())] = True
        items = items_contract(eng, n)
        from pyvc.values import NativeFn
        eng.set_iface(req, {"items": lambda e, self_obj: items})
        state["n"] = n
        eng.call_function(f, [o, req], {}, force_inline=True)
        return o, state["par_map"], state["order"], n
    results = eng.explore(thunk)
    T.absorb(eng, results)
    kinds = set()
    for k, r in enumerate(results):
        kinds.add(r.kind)
        T.discharge_required(eng, r, f"@path{k}")
        if r.kind == "raise":
            T.fail(f"{key}#no-raise@path{k}", f"raises {r.exc_name}", kind="raises")
        if r.kind == "return":
            # exit: Inv(N) => the slices tile [0, P(N)) in par_order (statement of C12)
            _, d, order, n = r.value
            j = z3.Int("tj")
            hy = r.path.hyps()
            sl = lambda jj: z3.Select(d.lookup, Key.KStr(name_of(jj)))
            T.ob(eng, f"{key}#post.slices-tile-in-par_order@path{k}", hy + [0 <= j, j < n],
                 z3.And(sl(j) == entry(eng, Pfx(j), Pfx(j + 1), pset_of(j)), Pfx(j) < Pfx(j + 1), Pfx(0) == 0, order.n == n), kind="inv")
            T.canary(eng, f"{key}#canary@path{k}", hy, z3.BoolVal(False))
    for want in ("return", "cut"):
        (T.ok if want in kinds else T.fail)(f"{key}#paths.{want}-exists", *([] if want in kinds else ["missing path kind"]), kind="raises")


def t_channel_slices(T):
    """_ChannelSummaryMixin.__init__, second loop: begin == sum of the bin counts of the earlier channels"""
    key = "mixins.py::_ChannelSummaryMixin.__init__"
    eng = T.engine({"default": "inline"})
    f = T.under_contract(eng, key)
    cls = eng.module("mixins.py").get("_ChannelSummaryMixin")
    import itertools
    cases = fails = 0
    # the constructor collects names through python lists / set / sorted: executed for concrete name skeletons with symbolic data lengths
    for names in (["c"], ["b", "a"], ["m", "z", "a"], ["x", "y", "x2", "a"]):
        nb = {n: k + 1 for k, n in enumerate(names)}
        chans = [{"name": n, "samples": [{"name": "s", "data": [z3.Real(f"{n}.{b}") for b in range(nb[n])], "modifiers": []}]} for n in names]
        res = eng.explore(lambda: eng.instantiate(cls, [], {"channels": chans}))
        cases += 1
        ok = len(res) == 1 and res[0].kind == "return"
        if ok:
            o = res[0].value
            order = o.attrs["_channels"]
            ok = order == sorted(set(names))
            off = 0
            for c in order:
                s = o.attrs["_channel_slices"][c]
                ok = ok and (s.start, s.stop) == (off, off + nb[c])
                off += nb[c]
        fails += 0 if ok else 1
    T.bounded_block("_ChannelSummaryMixin.__init__: channels == sorted(set(names)), slices tile the main data in that order", "1-4 channels, distinct bin counts", cases, fails)
    (T.ok if not fails else T.fail)(f"{key}#post.channel-slices-tile-in-sorted-order", *([] if not fails else [f"{fails} of {cases} cases wrong"]), kind="bounded")


# ------------------------------------------------------------------ (B2) pipeline
OVERRIDES = {
    "normfactor": ["inits", "bounds", "fixed"], "normsys": ["inits", "bounds", "fixed"], "histosys": ["inits", "bounds"],
    "shapesys": ["inits", "bounds"], "staterror": ["inits", "bounds", "fixed"], "shapefactor": ["inits", "bounds", "fixed"],
}


PARTIALLY_FIXED = ("partially-fixed-binwise-parameter",
                   {"channels": [("c1", 2, [("sig", [("normfactor", "mu")]), ("bkg", [("shapesys", "ss"), ("staterror", "st")])])], "poi": "mu",
                    "zero_uncertainty": {"ss": 1, "st": 0}})


def param_table(skel):
    """parameter name -> (types, number of components) from the skeleton"""
    tab = {}
    for cname, nb, ss in skel["channels"]:
        for sname, ms in ss:
            for t, n in ms:
                size = nb if t in ("shapesys", "shapefactor") else 1
                e = tab.setdefault(n, {"types": set(), "size": 0, "bins": {}})
                e["types"].add(t)
                if t == "staterror":
                    e["bins"][cname] = nb
                    e["size"] = sum(e["bins"].values())
                else:
                    e["size"] = max(e["size"], size)
    return tab


def make_overrides(skel, sym, which):
    pars = []
    tab = param_table(skel)
    for k, (name, e) in enumerate(sorted(tab.items())):
        forced = bool(skel.get("zero_uncertainty")) and name in skel["zero_uncertainty"] and which == 1
        if "lumi" in e["types"] or (k % 2 != which and not forced):
            continue
        t = sorted(e["types"])[0]
        p = {"name": name}
        for key in OVERRIDES.get(t, []) + (["fixed"] if skel.get("zero_uncertainty") and name in skel["zero_uncertainty"] and which == 1 else []):
            if key == "fixed" and skel.get("zero_uncertainty") and name in skel["zero_uncertainty"]:
                p[key] = False          # an explicit "not fixed" must win over the partly-fixed default
                continue
            if key == "inits":
                p[key] = [sym(f"ov.{name}.init{j}") for j in range(e["size"])]
            elif key == "bounds":
                p[key] = [[sym(f"ov.{name}.lo{j}"), sym(f"ov.{name}.hi{j}")] for j in range(e["size"])]
            else:
                p[key] = True
        pars.append(p)
    return pars


def reverse_lists(wsspec):
    w = copy.deepcopy(wsspec) if not _has_z3(wsspec) else _copy(wsspec)
    w["channels"] = list(reversed(w["channels"]))
    for c in w["channels"]:
        c["samples"] = list(reversed(c["samples"]))
        for s in c["samples"]:
            s["modifiers"] = list(reversed(s["modifiers"]))
    w["observations"] = list(reversed(w["observations"]))
    for m in w["measurements"]:
        m["config"]["parameters"] = list(reversed(m["config"]["parameters"]))
    return w


def _has_z3(x):
    return True


def _copy(x):
    if isinstance(x, dict):
        return {k: _copy(v) for k, v in x.items()}
    if isinstance(x, list):
        return [_copy(v) for v in x]
    return x


def _same(eng, a, b):
    """structural equality of two JSON-like trees with symbolic leaves (python bool or z3 Bool)"""
    return eng.veq(a, b)


def run_one(T, name, skel, which):
    key = "pdf.py::_ModelConfig"
    eng = T.engine(K.pipeline_policy())
    box = {}

    def thunk():
        sym = K.Sym()
        sk = dict(skel)
        sk["parameters"] = make_overrides(skel, sym, which)
        spec, sym = K.build_spec(sk, sym)
        zero = skel.get("zero_uncertainty")
        if zero:
            # a bin-wise modifier with a vanishing uncertainty in one bin: that component is fixed, the others are not
            for c in spec["channels"]:
                for s_ in c["samples"]:
                    for m_ in s_["modifiers"]:
                        if m_["name"] in zero:
                            dead = m_["data"][zero[m_["name"]]]
                            sym.leaves = {k_: v_ for k_, v_ in sym.leaves.items() if not v_.eq(dead)}
                            m_["data"][zero[m_["name"]]] = 0.0
        for c in sym.positivity():
            eng.assume(c)
        obs = [{"name": c["name"], "data": [z3.Real(f"obs.{c['name']}.{b}") for b in range(len(c["samples"][0]["data"]))]} for c in spec["channels"]]
        wsspec = {"channels": spec["channels"], "observations": obs,
                  "measurements": [{"name": "meas", "config": {"poi": skel.get("poi") or "", "parameters": spec.get("parameters", [])}}], "version": "1.0.0"}
        snapshot = _copy(wsspec)
        W = eng.module("workspace.py").get("Workspace")
        ws = eng.instantiate(W, [wsspec], {})
        kw = {} if skel.get("poi") else {"poi_name": None}
        m = eng.call(eng.getattr(ws, "model"), [], kw)
        obs_before = _copy(ws.attrs["observations"])
        cfg = eng.getattr(m, "config")
        aux_before = list(cfg.attrs["_auxdata"])
        d1 = eng.call(eng.getattr(ws, "data"), [m], {})
        d2 = eng.call(eng.getattr(ws, "data"), [m], {})          # a second call must give the same vector (no accumulation)
        d_noaux = eng.call(eng.getattr(ws, "data"), [m], {"include_auxdata": False})
        box.update(spec=spec, wsspec=wsspec, snapshot=snapshot, ws=ws, m=m, cfg=cfg, obs=obs, obs_before=obs_before, aux_before=aux_before,
                   d1=d1, d2=d2, d_noaux=d_noaux, pars=sk["parameters"], W=W)
        # rebuild
        try:
            ws2 = eng.call(eng.getattr(W, "build"), [m, d1], {})
            m2 = eng.call(eng.getattr(ws2, "model"), [], kw)
            box["rebuilt"] = ("ok", ws2, m2, eng.call(eng.getattr(ws2, "data"), [m2], {}))
        except Exception as e:
            if isinstance(e, Unsupported):
                raise
            from pyvc.values import PyRaise
            box["rebuilt"] = ("raise", e.cls if isinstance(e, PyRaise) else type(e))
        # order independence: every list reversed
        wsr = eng.instantiate(W, [reverse_lists(wsspec)], {})
        mr = eng.call(eng.getattr(wsr, "model"), [], kw)
        box["reversed"] = (wsr, mr, eng.call(eng.getattr(wsr, "data"), [mr], {}))
        lay = K.layout_of(eng, m)
        th = K.theta_vec(lay.npars)
        box.update(lay=lay, th=th, ed=eng.call(eng.getattr(m, "expected_data"), [th], {}), edr=eng.call(eng.getattr(mr, "expected_data"), [th], {}))
        return True
    results = eng.explore(thunk)
    T.absorb(eng, results)
    for k, r in enumerate(results):
        sfx = f"{name},ov{which},path{k}"
        meta = dict(skeleton=skel, which=which)
        if r.kind != "return":
            T.fail(f"{key}#no-raise@class=well-formed|{sfx}", f"raises {r.exc_name} {getattr(r.value, 'eargs', '')}", kind="raises", **meta)
            continue
        hy = r.path.hyps()
        cfg, m, ws, spec = box["cfg"], box["m"], box["ws"], box["spec"]
        par_order = list(cfg.attrs["_par_order"])
        par_map = cfg.attrs["par_map"]
        npars = cfg.attrs["npars"]
        tab = param_table(skel)
        # 1. slices tile [0, npars) in par_order, sizes as declared
        off, ok = 0, sorted(par_order) == sorted(tab)
        for p in par_order:
            s = par_map[p]["slice"]
            ok = ok and (s.start, s.stop) == (off, off + tab[p]["size"])
            off += tab[p]["size"]
        ok = ok and off == npars
        (T.ok if ok else T.fail)(f"{key}#post.slices-tile-parameter-vector-in-par_order@class=well-formed|{sfx}", *([] if ok else ["gap / overlap / wrong size"]), **meta)
        # 2. one entry per component
        init = eng.call(eng.getattr(cfg, "suggested_init"), [], {})
        bounds = eng.call(eng.getattr(cfg, "suggested_bounds"), [], {})
        fixed = eng.call(eng.getattr(cfg, "suggested_fixed"), [], {})
        names = eng.getattr(cfg, "par_names")
        okl = len(init) == len(bounds) == len(fixed) == len(names) == npars
        (T.ok if okl else T.fail)(f"{key}#post.one-entry-per-component@class=well-formed|{sfx}", *([] if okl else [f"lengths {len(init)},{len(bounds)},{len(fixed)},{len(names)} vs npars {npars}"]), **meta)
        if not (ok and okl):
            continue
        # 3. overrides verbatim, documented defaults otherwise; names
        ov = {p["name"]: p for p in box["pars"]}
        goals, nameok = [], True
        for p in par_order:
            s = par_map[p]["slice"]
            t = sorted(tab[p]["types"])[0]
            cfgp = ov.get(p, {})
            for j in range(tab[p]["size"]):
                g = s.start + j
                if "inits" in cfgp:
                    goals.append(eng.veq(init[g], cfgp["inits"][j]))
                elif "lumi" not in tab[p]["types"]:
                    goals.append(eng.veq(init[g], DEFAULTS[t][0]))
                if "bounds" in cfgp:
                    goals.append(eng.veq(list(bounds[g]), list(cfgp["bounds"][j])))
                elif "lumi" not in tab[p]["types"]:
                    goals.append(eng.veq(list(bounds[g]), list(DEFAULTS[t][1])))
                dead = (skel.get("zero_uncertainty") or {}).get(p)
                if "fixed" in cfgp:
                    goals.append(eng.veq(fixed[g], cfgp["fixed"]))
                else:
                    goals.append(eng.veq(fixed[g], dead == j))
                want_name = p if tab[p]["size"] == 1 and t not in ("shapesys", "staterror", "shapefactor") else f"{p}[{j}]"
                nameok = nameok and names[g] == want_name
        goals = [z3.BoolVal(x) if isinstance(x, bool) else x for x in goals]
        T.ob(eng, f"{key}#post.overrides-verbatim-defaults-otherwise@class=well-formed|{sfx}", hy, z3.And(*goals) if goals else z3.BoolVal(True), **meta)
        (T.ok if nameok else T.fail)(f"{key}.par_names#post.component-names@class=well-formed|{sfx}", *([] if nameok else [f"{names}"]), **meta)
        # 4. Workspace.data layout, idempotent, no mutation
        lay = box["lay"]
        want = []
        for c in lay.channels:
            want += next(o["data"] for o in box["obs"] if o["name"] == c)
        aux = list(cfg.attrs["_auxdata"])
        T.ob(eng, f"workspace.py::Workspace.data#post.observations-in-model-channel-order-then-auxdata@class=well-formed|{sfx}", hy,
             _zb(eng.veq(list(box["d1"]), want + box["aux_before"])), **meta)
        T.ob(eng, f"workspace.py::Workspace.data#post.main-only@class=well-formed|{sfx}", hy, _zb(eng.veq(list(box["d_noaux"]), want)), **meta)
        T.ob(eng, f"workspace.py::Workspace.data#frame.second-call-equal-and-nothing-mutated@class=well-formed|{sfx}", hy,
             z3.And(_zb(eng.veq(list(box["d2"]), list(box["d1"]))), _zb(eng.veq(ws.attrs["observations"], box["obs_before"])), _zb(eng.veq(aux, box["aux_before"]))), **meta)
        # 5. the caller's specification is untouched
        T.ob(eng, f"workspace.py::Workspace.__init__#frame.caller-specification-untouched@class=well-formed|{sfx}", hy, _zb(eng.veq(box["wsspec"], box["snapshot"])), **meta)
        # 6. listing-order independence
        wsr, mr, dr = box["reversed"]
        cr = eng.getattr(mr, "config")
        same_layout = (list(cr.attrs["_par_order"]) == par_order and {k2: (v["slice"].start, v["slice"].stop) for k2, v in cr.attrs["par_map"].items()} ==
                       {k2: (v["slice"].start, v["slice"].stop) for k2, v in par_map.items()} and list(cr.attrs["_channels"]) == lay.channels
                       and list(cr.attrs["auxdata_order"]) == list(cfg.attrs["auxdata_order"]))
        (T.ok if same_layout else T.fail)(f"{key}#post.layout-independent-of-listing-order@class=well-formed|{sfx}", *([] if same_layout else ["layout differs for the reversed specification"]), **meta)
        n = box["ed"].shape[0] if isinstance(box["ed"], PT) else len(box["ed"])
        T.ob(eng, f"{key}#post.rates-and-data-independent-of-listing-order@class=well-formed|{sfx}", hy,
             z3.And(*[a == b for a, b in zip(K.elements(box["ed"], n), K.elements(box["edr"], n))], _zb(eng.veq(list(dr), list(box["d1"])))), **meta)
        # 7. rebuild
        rb = box["rebuilt"]
        has_lumi = any("lumi" in e["types"] for e in tab.values())
        has_settings = any(("sigmas" in p or "auxdata" in p or "factors" in p) for p in box["pars"]) or has_lumi
        cls = "model-with-lumi-or-constraint-settings" if has_settings else "well-formed"
        if skel.get("zero_uncertainty"):
            cls = "partially-fixed-parameter-set"
        if rb[0] != "ok":
            T.fail(f"workspace.py::Workspace.build#post.rebuilds@class={cls}|{sfx}", f"rebuilding raises {getattr(rb[1], 'name', getattr(rb[1], '__name__', rb[1]))}", kind="raises", **meta)
        else:
            _, ws2, m2, data2 = rb
            c2 = eng.getattr(m2, "config")
            init2 = eng.call(eng.getattr(c2, "suggested_init"), [], {})
            b2 = eng.call(eng.getattr(c2, "suggested_bounds"), [], {})
            f2 = eng.call(eng.getattr(c2, "suggested_fixed"), [], {})
            same = (list(c2.attrs["_par_order"]) == par_order and list(c2.attrs["_channels"]) == lay.channels and c2.attrs["npars"] == npars)
            (T.ok if same else T.fail)(f"workspace.py::Workspace.build#post.same-layout@class={cls}|{sfx}", *([] if same else ["layout differs"]), **meta)
            if same:
                T.ob(eng, f"workspace.py::Workspace.build#post.reproduces-data-and-settings@class={cls}|{sfx}", hy,
                     z3.And(_zb(eng.veq(list(data2), list(box["d1"]))), _zb(eng.veq(list(init2), list(init))),
                            _zb(eng.veq([list(x) for x in b2], [list(x) for x in bounds])), _zb(eng.veq(list(f2), list(fixed))),
                            _zb(eng.veq(list(c2.attrs["_auxdata"]), aux))), **meta)


def _zb(x):
    return z3.BoolVal(x) if isinstance(x, bool) else x


def make_task(chunk):
    def task(T):
        for name, skel in chunk:
            for which in (0, 1):
                run_one(T, name, skel, which)
        T.bounded_block("skeleton-bounded symbolic execution of Workspace / Model construction, data, build", "skeletons " + ", ".join(n for n, _ in chunk) + "; two override sets each; numbers symbolic", 2 * len(chunk), 0)
    return task


def tasks(tier):
    import os
    seed = int(os.environ.get("VERIF_SEED", "0") or 0)
    sk = K.skeletons(tier, seed)
    out = [("register-paramsets-loop", t_register_paramsets), ("channel-slices", t_channel_slices)]
    out += [(f"config[{name}]", make_task([(name, skel)])) for name, skel in sk]
    out.append(("config[partially-fixed]", make_task([PARTIALLY_FIXED])))
    return out


def replay(r):
    meta = r.get("meta") or {}
    skel = meta.get("skeleton")
    if skel is None:
        return None
    import random
    import numpy as np
    import pyhf
    from .hf_native import concretise
    rng = random.Random(17)
    spec = concretise(skel, rng)
    for c_ in spec["channels"]:
        for s_ in c_["samples"]:
            for m_ in s_["modifiers"]:
                if m_["name"] in (skel.get("zero_uncertainty") or {}):
                    m_["data"][skel["zero_uncertainty"][m_["name"]]] = 0.0
    class NumSym:
        def __init__(self):
            self.k = 0

        def __call__(self, name):
            self.k += 1
            if ".lo" in name:
                return 0.01 * self.k
            if ".hi" in name:
                return 20.0 + self.k
            return round(0.7 + 0.13 * self.k, 3)
    ov = make_overrides(skel, NumSym(), meta.get("which", 0))
    spec["parameters"] = [p for p in spec.get("parameters", []) if p["name"] not in {o["name"] for o in ov}] + ov
    obs = [{"name": c["name"], "data": [float(rng.randint(1, 50)) for _ in c["samples"][0]["data"]]} for c in spec["channels"]]
    wsspec = {"channels": spec["channels"], "observations": obs,
              "measurements": [{"name": "meas", "config": {"poi": skel.get("poi") or "", "parameters": spec.get("parameters", [])}}], "version": "1.0.0"}
    bad = {}
    try:
        ws = pyhf.Workspace(wsspec)
        kw = {} if skel.get("poi") else {"poi_name": None}
        m = ws.model(**kw)
        d = ws.data(m)
        if "Workspace.build" in r["name"]:
            try:
                ws2 = pyhf.Workspace.build(m, d)
                m2 = ws2.model(**kw)
                if (list(ws2.data(m2)) != list(d) or m2.config.suggested_init() != m.config.suggested_init() or list(m2.config.auxdata) != list(m.config.auxdata)
                        or m2.config.suggested_fixed() != m.config.suggested_fixed() or [tuple(b) for b in m2.config.suggested_bounds()] != [tuple(b) for b in m.config.suggested_bounds()]):
                    bad["rebuild"] = "rebuilt workspace does not reproduce data / settings"
                else:
                    pars = m.config.suggested_init()
                    if abs(float(m2.logpdf(pars, d)[0]) - float(m.logpdf(pars, d)[0])) > 1e-9:
                        bad["rebuild"] = "rebuilt model has a different likelihood"
            except Exception as e:
                bad["rebuild"] = f"{type(e).__name__}: {e}"
        else:
            off = 0
            for p in m.config.par_order:
                s = m.config.par_slice(p)
                if s.start != off:
                    bad["tiling"] = p
                off = s.stop
            if off != m.config.npars or len(m.config.suggested_init()) != m.config.npars or len(m.config.par_names) != m.config.npars:
                bad["lengths"] = (off, m.config.npars, len(m.config.suggested_init()), len(m.config.par_names))
            want = []
            for c in m.config.channels:
                want += next(o["data"] for o in obs if o["name"] == c)
            if list(d) != want + list(m.config.auxdata) or list(ws.data(m)) != list(d):
                bad["data"] = "Workspace.data layout / idempotence"
            init, bnds, fx = m.config.suggested_init(), m.config.suggested_bounds(), m.config.suggested_fixed()
            for o in ov:
                s_ = m.config.par_slice(o["name"])
                if "inits" in o and list(init[s_]) != list(o["inits"]):
                    bad[f"inits of {o['name']}"] = {"got": list(init[s_]), "override": o["inits"]}
                if "bounds" in o and [list(b) for b in bnds[s_]] != [list(b) for b in o["bounds"]]:
                    bad[f"bounds of {o['name']}"] = {"got": [list(b) for b in bnds[s_]], "override": o["bounds"]}
                if "fixed" in o and list(fx[s_]) != [o["fixed"]] * (s_.stop - s_.start):
                    bad[f"fixed of {o['name']}"] = {"got": list(fx[s_]), "override": o["fixed"]}
    except Exception as e:
        bad["construction"] = f"{type(e).__name__}: {e}"
    return {"reproduced": bool(bad), "disagreements": bad, "spec": wsspec if bad else None}
