"""C04 - probability primitives: what contracts can decide.

The statement is about floating-point accuracy of library special functions (scipy / jax / torch / tfp) over the
whole argument range; that is outside the reach of a deductive verifier over real arithmetic and is NOT decided here.
Decided on the real source of the four backends and of probability.py, for all real arguments:
 (F) formulas and forwarding
     numpy / jax : poisson_logpdf(n, lam) == xlogy(n, lam) - lam - gammaln(n + 1)   (the continuation through Gamma; the
                   lam -> 0 limits are those of xlogy(0, 0) = 0), poisson == exp of it,
                   normal_logpdf(x, mu, s) == -log(s) - log(sqrt(2 pi)) - (x - mu)^2 / (2 s^2)   (the hand-written form is
                   proved equal to the textbook one from sqrt(2)^2 = 2 and log(a b) = log a + log b),
                   normal == norm.pdf(x, loc=mu, scale=s), normal_cdf == norm.cdf(x, loc=mu, scale=s);
     pytorch     : poisson_logpdf == Poisson(rate=lam, validate_args=False).log_prob(n), normal_logpdf == Normal(mu, s).log_prob(x),
                   normal_cdf == 0.5 erfc(-((x - mu) / s) / sqrt 2), non-log variants == exp of the log variants;
     tensorflow  : tfp Poisson(rate=astensor(lam)).log_prob(n), Normal(astensor(mu), astensor(s)).log_prob / prob / cdf (x);
     distribution objects (poisson_dist / normal_dist, probability.Poisson / Normal / Independent) evaluate the same
     primitive with (value, rate) / (value, loc, scale) in that order; Independent sums over the last axis.
 (D) precision path of astensor on every backend: the value handed in reaches the backend's float type without passing
     through a narrower float type (a Python float must not be rounded to 32 bits on the way to a 64-bit tensor)."""
import math

import z3

from pyvc.tensor import Erfc, Exp, Lgamma, Log, PT, Sqrt, Xlogy
from pyvc.values import Ext, HostObj, NativeFn, Obj, PyRaise, Unsupported, is_obj, is_z
from .common import calls_to

PROPERTY = "C04"
LEVEL = "proof"
EXPLANATION = ("the primitive methods of the four backends are executed symbolically on the current source with the library functions uninterpreted: formulas "
               "and argument forwarding are postconditions for all real arguments; astensor is executed against a dtype-tracking model of each library")
TRUSTED = ["scipy / jax xlogy, gammaln, norm.pdf, norm.cdf; torch.distributions Poisson / Normal, torch.erfc; tfp Poisson / Normal: uninterpreted (their accuracy is NOT decided)",
           "log(a b) = log a + log b for a, b > 0; sqrt(2)^2 = 2; Phi(z) = erfc(-z / sqrt 2) / 2 (definitions)",
           "dtype model of the conversion functions: np.asarray / jnp.asarray / torch.as_tensor(x, dtype=d) convert directly to d; tf.convert_to_tensor(x) without dtype infers "
           "float32 for Python floats, int32 for Python ints and keeps the dtype of arrays / tensors; tf.cast converts to the given dtype"]
ASSUMPTIONS = ["floats as reals: rounding, cancellation, overflow / underflow in the tails, 32b tolerance are NOT decided (external libraries, IEEE arithmetic)"]

TENSOR = "tensor"
SPEC_PI2 = 2 * math.pi


# ---------------------------------------------------------------- library models
def _r(x):
    if is_z(x):
        if is_obj(x):
            from pyvc.values import real_of
            return real_of(x)           # an opaque library value used as a number
        return z3.ToReal(x) if x.sort() == z3.IntSort() else x
    return z3.RealVal(repr(float(x)))


def numeric_policy(prefixes):
    """real-arithmetic contracts of the array libraries' elementwise functions on scalars"""
    pol = {}
    for np_ in prefixes:
        pol[f"ext:{np_}.sqrt"] = lambda e, c: Sqrt(_r(c.args[0]))
        pol[f"ext:{np_}.log"] = lambda e, c: Log(_r(c.args[0]))
        pol[f"ext:{np_}.exp"] = lambda e, c: Exp(_r(c.args[0]))
        pol[f"ext:{np_}.square"] = lambda e, c: _r(c.args[0]) * _r(c.args[0])
        pol[f"ext:{np_}.divide"] = lambda e, c: _r(c.args[0]) / _r(c.args[1])
        pol[f"ext:{np_}.asarray"] = lambda e, c: c.args[0]
        pol[("ext_value", f"{np_}.pi")] = math.pi
    for sp in ("scipy.special", "jax.scipy.special"):
        pol[f"ext:{sp}.xlogy"] = lambda e, c: Xlogy(_r(c.args[0]), _r(c.args[1]))
        pol[f"ext:{sp}.gammaln"] = lambda e, c: Lgamma(_r(c.args[0]))
    return pol


def log_product_schema(found, formulas):
    """log(a b) = log a + log b for positive a, b - instantiated for the products that occur under ulog"""
    from pyvc.solver import _apps, _ground
    facts = []
    for t in _apps(formulas, ["ulog"])["ulog"]:
        if not _ground(t):
            continue
        a = t.arg(0)
        if z3.is_mul(a) and a.num_args() == 2:
            x, y = a.arg(0), a.arg(1)
            facts.append(z3.Implies(z3.And(x > 0, y > 0), t == Log(x) + Log(y)))
    return facts


def backend_instance(eng, fname, cname, precision="64b"):
    cls = eng.module(f"{TENSOR}/{fname}.py").get(cname)
    return eng.instantiate(cls, [], {"precision": precision})


# ---------------------------------------------------------------- (F) numpy / jax formulas
def t_formulas(T):
    for fname, cname, libs in (("numpy_backend", "numpy_backend", ("numpy",)), ("jax_backend", "jax_backend", ("jax.numpy", "numpy"))):
        base = f"{TENSOR}/{fname}.py::{cname}"
        pol = numeric_policy(libs)
        pol["inline"] = [f"{TENSOR}/{fname}.py::"]
        pol["numbers_are_arrays"] = True
        eng = T.engine(pol)
        eng.axiom_schemas = list(getattr(eng, "axiom_schemas", [])) + [log_product_schema]
        for m in ("poisson_logpdf", "poisson", "normal_logpdf", "normal", "normal_cdf", "poisson_dist", "normal_dist"):
            T.under_contract(eng, f"{base}.{m}")
        box = {}

        def run():
            tl = backend_instance(eng, fname, cname)
            n, lam, x, mu, s = (eng.real(v) for v in ("n", "lam", "x", "mu", "sigma"))
            eng.assume(s > 0)
            out = {"plog": eng.call(eng.getattr(tl, "poisson_logpdf"), [n, lam], {}),
                   "p": eng.call(eng.getattr(tl, "poisson"), [n, lam], {}),
                   "nlog": eng.call(eng.getattr(tl, "normal_logpdf"), [x, mu, s], {})}
            k0 = len(eng.path.calls)
            out["npdf"] = eng.call(eng.getattr(tl, "normal"), [x, mu, s], {})
            out["npdf_calls"] = eng.path.calls[k0:]
            k1 = len(eng.path.calls)
            out["ncdf"] = eng.call(eng.getattr(tl, "normal_cdf"), [x, mu, s], {})
            out["ncdf_calls"] = eng.path.calls[k1:]
            k2 = len(eng.path.calls)
            out["ncdf_default"] = eng.call(eng.getattr(tl, "normal_cdf"), [x], {})
            out["ncdf_default_calls"] = eng.path.calls[k2:]
            pd = eng.call(eng.getattr(tl, "poisson_dist"), [lam], {})
            nd = eng.call(eng.getattr(tl, "normal_dist"), [mu, s], {})
            out["pd_log"] = eng.call(eng.getattr(pd, "log_prob"), [n], {})
            out["nd_log"] = eng.call(eng.getattr(nd, "log_prob"), [x], {})
            box.update(n=n, lam=lam, x=x, mu=mu, s=s)
            return out
        results = eng.explore(run)
        T.absorb(eng, results)
        for k, r in enumerate(results):
            sfx = f"@path{k}"
            if r.kind != "return":
                T.fail(f"{base}#no-raise{sfx}", f"{r.exc_name} {getattr(r.value, 'eargs', '')}", kind="raises")
                continue
            o = r.value
            n, lam, x, mu, s = (box[v] for v in ("n", "lam", "x", "mu", "s"))
            plog = Xlogy(n, lam) - lam - Lgamma(n + 1)
            nlog = -Log(s) - Log(Sqrt(z3.RealVal(repr(SPEC_PI2)))) - ((x - mu) * (x - mu)) / (2 * s * s)
            T.ob_path(eng, f"{base}.poisson_logpdf#post.xlogy-minus-rate-minus-lgamma{sfx}", r, eng.to_real(o["plog"]) == plog)
            T.ob_path(eng, f"{base}.poisson#post.exp-of-the-log-mass{sfx}", r, eng.to_real(o["p"]) == Exp(plog))
            T.ob_path(eng, f"{base}.normal_logpdf#post.textbook-log-density{sfx}", r, eng.to_real(o["nlog"]) == nlog)
            T.ob_path(eng, f"{base}.poisson_dist#post.log_prob-is-poisson_logpdf-of-value-and-rate{sfx}", r, eng.to_real(o["pd_log"]) == plog)
            T.ob_path(eng, f"{base}.normal_dist#post.log_prob-is-normal_logpdf-of-value-loc-scale{sfx}", r, eng.to_real(o["nd_log"]) == nlog)
            for nm, calls, fn, args in (("normal", o["npdf_calls"], "pdf", (x, mu, s)), ("normal_cdf", o["ncdf_calls"], "cdf", (x, mu, s)),
                                        ("normal_cdf-defaults", o["ncdf_default_calls"], "cdf", (x, 0, 1))):
                cs = [c for c in calls if isinstance(c.target, str) and c.target.endswith(f"norm.{fn}")]
                ok = len(cs) == 1
                (T.ok if ok else T.fail)(f"{base}.{nm}#fwd.one-call-of-norm.{fn}{sfx}", *([] if ok else [f"{[c.target for c in calls]}"]), kind="forwarding")
                if ok:
                    c = cs[0]
                    T.ob_path(eng, f"{base}.{nm}#fwd.x-loc-scale{sfx}", r,
                              z3.And(_zb(eng.veq(c.args[0] if c.args else c.kwargs.get("x"), args[0])), _zb(eng.veq(c.kwargs.get("loc", c.args[1] if len(c.args) > 1 else None), args[1])),
                                     _zb(eng.veq(c.kwargs.get("scale", c.args[2] if len(c.args) > 2 else None), args[2]))), kind="forwarding")


def _zb(x):
    return z3.BoolVal(x) if isinstance(x, bool) else x


# ---------------------------------------------------------------- (F) pytorch / tensorflow forwarding
class DistObj(HostObj):
    """a library distribution object: remembers its constructor arguments; log_prob / prob / cdf are uninterpreted functions of them"""

    def __init__(self, family, params, kwargs):
        self.family, self.params, self.kwargs = family, params, kwargs

    def _f(self, what, value):
        f = z3.Function(f"{self.family}.{what}", *([z3.RealSort()] * (len(self.params) + 1)), z3.RealSort())
        return f(*[_r(p) for p in self.params], _r(value))

    def log_prob(self, value):
        return self._f("log_prob", value)

    def prob(self, value):
        return self._f("prob", value)

    def cdf(self, value):
        return self._f("cdf", value)


def t_torch(T):
    base = f"{TENSOR}/pytorch_backend.py::pytorch_backend"
    pol = {"inline": [f"{TENSOR}/pytorch_backend.py::"],
           "ext:torch.distributions.Poisson": lambda e, c: DistObj("Poisson", [c.args[0] if c.args else c.kwargs["rate"]], dict(c.kwargs)),
           "ext:torch.distributions.Normal": lambda e, c: DistObj("Normal", [c.args[0], c.args[1]], dict(c.kwargs)),
           "ext:torch.as_tensor": lambda e, c: c.args[0],
           "ext:torch.exp": lambda e, c: Exp(_r(c.args[0])),
           "ext:torch.erfc": lambda e, c: Erfc(_r(c.args[0])),
           "ext:torch.distributions.utils.broadcast_all": lambda e, c: tuple(c.args),
           ("num_method", "reciprocal"): lambda e, o: 1 / _r(o)}
    eng = T.engine(pol)
    for m in ("poisson_logpdf", "poisson", "normal_logpdf", "normal", "normal_cdf", "poisson_dist", "normal_dist"):
        T.under_contract(eng, f"{base}.{m}")
    box = {}

    def run():
        tl = backend_instance(eng, "pytorch_backend", "pytorch_backend")
        n, lam, x, mu, s = (eng.real(v) for v in ("n", "lam", "x", "mu", "sigma"))
        eng.assume(s > 0)
        box.update(n=n, lam=lam, x=x, mu=mu, s=s)
        k0 = len(eng.path.calls)
        out = {"plog": eng.call(eng.getattr(tl, "poisson_logpdf"), [n, lam], {})}
        out["pois_calls"] = [c for c in eng.path.calls[k0:] if c.target == "ext:torch.distributions.Poisson"]
        out.update(p=eng.call(eng.getattr(tl, "poisson"), [n, lam], {}), nlog=eng.call(eng.getattr(tl, "normal_logpdf"), [x, mu, s], {}),
                   npdf=eng.call(eng.getattr(tl, "normal"), [x, mu, s], {}), ncdf=eng.call(eng.getattr(tl, "normal_cdf"), [x, mu, s], {}),
                   ncdf0=eng.call(eng.getattr(tl, "normal_cdf"), [x], {}),
                   pd=eng.call(eng.getattr(tl, "poisson_dist"), [lam], {}), nd=eng.call(eng.getattr(tl, "normal_dist"), [mu, s], {}))
        return out
    results = eng.explore(run)
    T.absorb(eng, results)
    P = z3.Function("Poisson.log_prob", z3.RealSort(), z3.RealSort(), z3.RealSort())
    N = z3.Function("Normal.log_prob", z3.RealSort(), z3.RealSort(), z3.RealSort(), z3.RealSort())
    for k, r in enumerate(results):
        sfx = f"@path{k}"
        if r.kind != "return":
            T.fail(f"{base}#no-raise{sfx}", f"{r.exc_name} {getattr(r.value, 'eargs', '')}", kind="raises")
            continue
        o = r.value
        n, lam, x, mu, s = (box[v] for v in ("n", "lam", "x", "mu", "s"))
        T.ob_path(eng, f"{base}.poisson_logpdf#fwd.Poisson-of-rate-lam-evaluated-at-n{sfx}", r, eng.to_real(o["plog"]) == P(lam, n), kind="forwarding")
        okv = all(c.kwargs.get("validate_args") is False for c in o["pois_calls"]) and len(o["pois_calls"]) == 1
        (T.ok if okv else T.fail)(f"{base}.poisson_logpdf#fwd.validate_args-off-for-non-integer-counts{sfx}", *([] if okv else ["validate_args not False"]), kind="forwarding")
        T.ob_path(eng, f"{base}.poisson#post.exp-of-the-log-mass{sfx}", r, eng.to_real(o["p"]) == Exp(P(lam, n)))
        T.ob_path(eng, f"{base}.normal_logpdf#fwd.Normal-of-mu-sigma-evaluated-at-x{sfx}", r, eng.to_real(o["nlog"]) == N(mu, s, x), kind="forwarding")
        T.ob_path(eng, f"{base}.normal#post.exp-of-the-log-density{sfx}", r, eng.to_real(o["npdf"]) == Exp(N(mu, s, x)))
        rt2 = z3.RealVal(repr(math.sqrt(2)))
        T.ob_path(eng, f"{base}.normal_cdf#post.half-erfc-of-minus-z-over-root2{sfx}", r, eng.to_real(o["ncdf"]) == Erfc(-(((x - mu) / s) / rt2)) / 2)
        T.ob_path(eng, f"{base}.normal_cdf#post.standard-normal-by-default{sfx}", r, eng.to_real(o["ncdf0"]) == Erfc(-(x / rt2)) / 2)
        okd = isinstance(o["pd"], DistObj) and o["pd"].family == "Poisson" and o["pd"].kwargs.get("validate_args") is False and isinstance(o["nd"], DistObj) and o["nd"].family == "Normal"
        (T.ok if okd else T.fail)(f"{base}.poisson_dist#post.library-distribution-objects{sfx}", *([] if okd else ["not the library distributions"]), kind="forwarding")
        if okd:
            T.ob_path(eng, f"{base}.poisson_dist#fwd.rate{sfx}", r, _zb(eng.veq(o["pd"].params[0], lam)), kind="forwarding")
            T.ob_path(eng, f"{base}.normal_dist#fwd.loc-scale{sfx}", r, z3.And(_zb(eng.veq(o["nd"].params[0], mu)), _zb(eng.veq(o["nd"].params[1], s))), kind="forwarding")


def t_tensorflow(T):
    base = f"{TENSOR}/tensorflow_backend.py::tensorflow_backend"
    pol = {"inline": [f"{TENSOR}/tensorflow_backend.py::"],
           f"{TENSOR}/tensorflow_backend.py::tensorflow_backend.astensor": lambda e, c: (c.args[1] if len(c.args) > 1 else c.args[0]),
           "ext:tensorflow_probability.distributions.Poisson": lambda e, c: DistObj("Poisson", [c.args[0] if c.args else c.kwargs["rate"]], dict(c.kwargs)),
           "ext:tensorflow_probability.distributions.Normal": lambda e, c: DistObj("Normal", [c.args[0], c.args[1]], dict(c.kwargs)),
           "ext:tensorflow.exp": lambda e, c: Exp(_r(c.args[0]))}
    eng = T.engine(pol)
    for m in ("poisson_logpdf", "poisson", "normal_logpdf", "normal", "normal_cdf", "poisson_dist", "normal_dist"):
        T.under_contract(eng, f"{base}.{m}")
    box = {}

    def run():
        tl = backend_instance(eng, "tensorflow_backend", "tensorflow_backend")
        n, lam, x, mu, s = (eng.real(v) for v in ("n", "lam", "x", "mu", "sigma"))
        eng.assume(s > 0)
        box.update(n=n, lam=lam, x=x, mu=mu, s=s)
        k0 = len(eng.path.calls)
        out = dict(plog=eng.call(eng.getattr(tl, "poisson_logpdf"), [n, lam], {}), p=eng.call(eng.getattr(tl, "poisson"), [n, lam], {}),
                   nlog=eng.call(eng.getattr(tl, "normal_logpdf"), [x, mu, s], {}), npdf=eng.call(eng.getattr(tl, "normal"), [x, mu, s], {}),
                   ncdf=eng.call(eng.getattr(tl, "normal_cdf"), [x, mu, s], {}), ncdf0=eng.call(eng.getattr(tl, "normal_cdf"), [x], {}),
                   pd=eng.call(eng.getattr(tl, "poisson_dist"), [lam], {}), nd=eng.call(eng.getattr(tl, "normal_dist"), [mu, s], {}))
        out["converted"] = [c.args[1] if len(c.args) > 1 else c.args[0] for c in eng.path.calls[k0:] if isinstance(c.target, str) and c.target.endswith("tensorflow_backend.astensor")]
        return out
    results = eng.explore(run)
    T.absorb(eng, results)
    P = z3.Function("Poisson.log_prob", z3.RealSort(), z3.RealSort(), z3.RealSort())
    N = lambda what: z3.Function(f"Normal.{what}", z3.RealSort(), z3.RealSort(), z3.RealSort(), z3.RealSort())
    for k, r in enumerate(results):
        sfx = f"@path{k}"
        if r.kind != "return":
            T.fail(f"{base}#no-raise{sfx}", f"{r.exc_name} {getattr(r.value, 'eargs', '')}", kind="raises")
            continue
        o = r.value
        n, lam, x, mu, s = (box[v] for v in ("n", "lam", "x", "mu", "s"))
        T.ob_path(eng, f"{base}.poisson_logpdf#fwd.Poisson-of-rate-lam-evaluated-at-n{sfx}", r, eng.to_real(o["plog"]) == P(lam, n), kind="forwarding")
        T.ob_path(eng, f"{base}.poisson#post.exp-of-the-log-mass{sfx}", r, eng.to_real(o["p"]) == Exp(P(lam, n)))
        T.ob_path(eng, f"{base}.normal_logpdf#fwd.Normal-of-mu-sigma-evaluated-at-x{sfx}", r, eng.to_real(o["nlog"]) == N("log_prob")(mu, s, x), kind="forwarding")
        T.ob_path(eng, f"{base}.normal#fwd.Normal-prob{sfx}", r, eng.to_real(o["npdf"]) == N("prob")(mu, s, x), kind="forwarding")
        T.ob_path(eng, f"{base}.normal_cdf#fwd.Normal-cdf{sfx}", r, eng.to_real(o["ncdf"]) == N("cdf")(mu, s, x), kind="forwarding")
        T.ob_path(eng, f"{base}.normal_cdf#post.standard-normal-by-default{sfx}", r, eng.to_real(o["ncdf0"]) == N("cdf")(z3.RealVal(0), z3.RealVal(1), x), kind="forwarding")
        okd = isinstance(o["pd"], DistObj) and o["pd"].family == "Poisson" and isinstance(o["nd"], DistObj) and o["nd"].family == "Normal"
        (T.ok if okd else T.fail)(f"{base}.poisson_dist#post.library-distribution-objects{sfx}", *([] if okd else ["not the library distributions"]), kind="forwarding")
        if okd:
            T.ob_path(eng, f"{base}.poisson_dist#fwd.rate{sfx}", r, _zb(eng.veq(o["pd"].params[0], lam)), kind="forwarding")
            T.ob_path(eng, f"{base}.normal_dist#fwd.loc-scale{sfx}", r, z3.And(_zb(eng.veq(o["nd"].params[0], mu)), _zb(eng.veq(o["nd"].params[1], s))), kind="forwarding")


# ---------------------------------------------------------------- probability.py distribution wrappers
def t_probability(T):
    from . import hf_skeleton as K
    base = "probability.py"
    eng = T.engine(K.pipeline_policy())
    for m in ("Poisson.__init__", "Normal.__init__", "Independent.log_prob", "_SimpleDistributionMixin.log_prob"):
        T.under_contract(eng, f"{base}::{m}")
    box = {}

    def run():
        Pm = eng.module(base)
        lam = [z3.Real(f"lam{i}") for i in range(3)]
        nv = [z3.Real(f"n{i}") for i in range(3)]
        mu = [z3.Real(f"mu{i}") for i in range(2)]
        sg = [z3.Real(f"s{i}") for i in range(2)]
        xv = [z3.Real(f"x{i}") for i in range(2)]
        for v in lam + sg:
            eng.assume(v > 0)
        tl = eng.get_tensorlib()
        A = lambda v: eng.call(eng.getattr(tl, "astensor"), [v], {})
        pois = eng.instantiate(Pm.get("Poisson"), [A(lam)], {})
        norm = eng.instantiate(Pm.get("Normal"), [A(mu), A(sg)], {})
        ip, in_ = eng.instantiate(Pm.get("Independent"), [pois], {}), eng.instantiate(Pm.get("Independent"), [norm], {})
        box.update(lam=lam, nv=nv, mu=mu, sg=sg, xv=xv)
        return dict(pl=eng.call(eng.getattr(pois, "log_prob"), [A(nv)], {}), nl=eng.call(eng.getattr(norm, "log_prob"), [A(xv)], {}),
                    ipl=eng.call(eng.getattr(ip, "log_prob"), [A(nv)], {}), inl=eng.call(eng.getattr(in_, "log_prob"), [A(xv)], {}),
                    pe=eng.call(eng.getattr(pois, "expected_data"), [], {}), ne=eng.call(eng.getattr(norm, "expected_data"), [], {}))
    results = eng.explore(run)
    T.absorb(eng, results)
    from . import hf_oracle as O
    for k, r in enumerate(results):
        sfx = f"@path{k}"
        if r.kind != "return":
            T.fail(f"{base}#no-raise{sfx}", f"{r.exc_name} {getattr(r.value, 'eargs', '')}", kind="raises")
            continue
        o = r.value
        lam, nv, mu, sg, xv = (box[v] for v in ("lam", "nv", "mu", "sg", "xv"))
        pterms = [O.ZOps.log_poisson(a, b) for a, b in zip(nv, lam)]
        nterms = [O.ZOps.log_normal(a, b, c) for a, b, c in zip(xv, mu, sg)]
        T.ob_path(eng, f"{base}::Poisson.log_prob#post.elementwise-log-mass-of-value-given-rate{sfx}", r, z3.And(*[a == b for a, b in zip(K.elements(o["pl"], 3), pterms)]))
        T.ob_path(eng, f"{base}::Normal.log_prob#post.elementwise-log-density-of-value-given-loc-scale{sfx}", r, z3.And(*[a == b for a, b in zip(K.elements(o["nl"], 2), nterms)]))
        sc = lambda t: t.fn(()) if isinstance(t, PT) and t.shape == () else eng.to_real(t)
        T.ob_path(eng, f"{base}::Independent.log_prob#post.sum-over-the-last-axis{sfx}", r, z3.And(sc(o["ipl"]) == sum(pterms[1:], pterms[0]), sc(o["inl"]) == sum(nterms[1:], nterms[0])))
        T.ob_path(eng, f"{base}::Poisson.expected_data#post.rate-and-loc{sfx}", r,
                  z3.And(*[a == b for a, b in zip(K.elements(o["pe"], 3), lam)], *[a == b for a, b in zip(K.elements(o["ne"], 2), mu)]))


# ---------------------------------------------------------------- (D) precision path of astensor
BITS = {"float64": 64, "float32": 32, "int64": 64, "int32": 32, "bool": 1}


class LibTensor(HostObj):
    """an array / tensor of a library: current dtype and the dtypes its value has passed through"""

    def __init__(self, dtype, path, lib):
        self.dtype_name, self.path, self.lib = dtype, list(path), lib

    @property
    def dtype(self):
        return DType(self.dtype_name)

    @property
    def device(self):
        if self.lib != "tensorflow":
            raise AttributeError("device")
        return "CPU:0"


class DType(HostObj):
    def __init__(self, name):
        self.name = name

    def __eq__(self, o):
        return isinstance(o, DType) and o.name == self.name

    def __hash__(self):
        return hash(self.name)


def _dtype_name(d):
    if isinstance(d, DType):
        return d.name
    if isinstance(d, Ext):
        nm = d.path.rsplit(".", 1)[-1]
        return {"bool_": "bool"}.get(nm, nm)
    raise Unsupported(f"dtype {d!r}")


INPUTS = {"python-floats": ("float64", None), "python-ints": ("int64", None), "numpy-float64-array": ("float64", "numpy"), "numpy-float32-array": ("float32", "numpy"),
          "python-bools": ("bool", None)}


class PyValue(HostObj):
    """a Python list / scalar of numbers of the given kind (what a JSON workspace contains); has no tensor attributes"""

    def __init__(self, kind):
        self.kind = kind


def conversion_policy():
    def infer(x, lib):
        if isinstance(x, LibTensor):
            return x.dtype_name, list(x.path)
        if isinstance(x, PyValue):
            if lib == "tensorflow":            # tf.convert_to_tensor without dtype: Python floats -> float32, ints -> int32
                d = {"float64": "float32", "int64": "int32", "bool": "bool"}[x.kind]
            else:
                d = x.kind
            return d, [x.kind, d]
        raise Unsupported(f"conversion of {type(x).__name__}")

    def convert(lib):
        def h(e, c):
            x = c.args[0]
            dt = c.kwargs.get("dtype", c.args[1] if len(c.args) > 1 else None)
            if dt is None:
                d, path = infer(x, lib)
                return LibTensor(d, path, lib)
            src = x.path if isinstance(x, LibTensor) else [x.kind]
            return LibTensor(_dtype_name(dt), list(src) + [_dtype_name(dt)], lib)
        return h

    def cast(e, c):
        x, dt = c.args[0], c.kwargs.get("dtype", c.args[1] if len(c.args) > 1 else None)
        return LibTensor(_dtype_name(dt), x.path + [_dtype_name(dt)], x.lib)
    pol = {"ext:numpy.asarray": convert("numpy"), "ext:jax.numpy.asarray": convert("jax"), "ext:torch.as_tensor": convert("pytorch"),
           "ext:tensorflow.convert_to_tensor": convert("tensorflow"), "ext:tensorflow.cast": cast}
    return pol


def t_astensor(T):
    for fname, cname, lib in (("numpy_backend", "numpy_backend", "numpy"), ("jax_backend", "jax_backend", "jax"), ("pytorch_backend", "pytorch_backend", "pytorch"),
                              ("tensorflow_backend", "tensorflow_backend", "tensorflow")):
        key = f"{TENSOR}/{fname}.py::{cname}.astensor"
        for precision in ("64b", "32b"):
            for iname, (kind, arr) in INPUTS.items():
                for want in ("float", "int", "bool"):
                    if kind == "bool" and want != "bool":
                        continue
                    pol = conversion_policy()
                    pol["inline"] = [f"{TENSOR}/{fname}.py::"]
                    eng = T.engine(pol)
                    T.under_contract(eng, key)

                    def run():
                        tl = backend_instance(eng, fname, cname, precision)
                        x = PyValue(kind) if arr is None else LibTensor(kind, [kind], "numpy")
                        return eng.call(eng.getattr(tl, "astensor"), [x], {"dtype": want})
                    results = eng.explore(run)
                    T.absorb(eng, results)
                    bits = 64 if precision == "64b" else 32
                    target = {"float": f"float{bits}", "int": f"int{bits}", "bool": "bool"}[want]
                    for k, r in enumerate(results):
                        sfx = f"@class={iname}->{want}|{lib},{precision},path{k}"
                        meta = dict(backend=lib, precision=precision, input=iname, dtype=want)
                        if r.kind != "return" or not isinstance(r.value, LibTensor):
                            T.fail(f"{key}#post.returns-a-tensor{sfx}", f"{r.kind} {getattr(r, 'exc_name', '')}", kind="raises", **meta)
                            continue
                        t = r.value
                        ok = t.dtype_name == target
                        (T.ok if ok else T.fail)(f"{key}#post.dtype-of-the-backend-precision{sfx}", *([] if ok else [f"{t.dtype_name} instead of {target}"]), **meta)
                        if want == "float":
                            src_bits = BITS[kind]
                            need = min(src_bits, bits)
                            narrow = [d for d in t.path if d.startswith("float") and BITS[d] < need]
                            ok2 = not narrow
                            (T.ok if ok2 else T.fail)(f"{key}#post.no-narrower-float-type-on-the-way{sfx}",
                                                      *([] if ok2 else [f"value passes through {' -> '.join(t.path)}: rounded to {narrow[0]} before reaching {target}"]), **meta)


def tasks(tier):
    return [("numpy-jax-formulas", t_formulas), ("pytorch-forwarding", t_torch), ("tensorflow-forwarding", t_tensorflow), ("probability-wrappers", t_probability), ("astensor-precision-path", t_astensor),
            # "x {64b, 32b}": what a backend computes must not depend on which other backend objects have been constructed
            ("backend-lifecycle", _lifecycle)]


def _lifecycle(T):
    from .BK_backend_ops import t_lifecycle, t_object_state
    t_lifecycle(T)
    t_object_state(T)


# ---------------------------------------------------------------- native replay
def replay(r):
    import numpy as np
    import pyhf
    name, meta = r["name"], r.get("meta") or {}
    bad = {}
    if meta.get("lifecycle"):
        from .BK_backend_ops import replay_lifecycle
        return replay_lifecycle(r)
    try:
        if "astensor" in name and meta.get("backend"):
            pyhf.set_backend(meta["backend"], precision=meta["precision"])
            tl, _ = pyhf.get_backend()
            vals = {"python-floats": [1.3, 2.7, 1e-9 + 1.0], "python-ints": [3, 7, 16777217], "numpy-float64-array": np.asarray([1.3, 2.7, 1.0 + 1e-9]),
                    "numpy-float32-array": np.asarray([1.3, 2.7], dtype=np.float32), "python-bools": [True, False]}[meta["input"]]
            t = tl.astensor(vals, dtype=meta["dtype"])
            got = np.asarray(tl.tolist(t), dtype=np.float64)
            npd = {"float": np.float64 if meta["precision"] == "64b" else np.float32, "int": np.int64 if meta["precision"] == "64b" else np.int32, "bool": np.bool_}[meta["dtype"]]
            want = np.asarray(np.asarray(vals).astype(npd), dtype=np.float64)
            if got.shape != want.shape or not np.array_equal(got, want):
                bad["values"] = {"input": [float(v) for v in np.asarray(vals).ravel()], "astensor": got.tolist(), "correctly rounded once": want.tolist()}
            return {"reproduced": bool(bad), "disagreements": bad}
        from scipy.special import gammaln, xlogy
        from scipy.stats import norm
        for backend in ("numpy", "jax", "pytorch", "tensorflow"):
            if backend.replace("pytorch", "pytorch_backend").replace("tensorflow", "tensorflow_backend") not in name and not (backend in ("numpy", "jax") and f"{backend}_backend" in name) \
                    and "probability.py" not in name:
                continue
            try:
                pyhf.set_backend(backend, precision="64b")
            except Exception:
                continue
            tl, _ = pyhf.get_backend()
            A = lambda v: tl.astensor(np.asarray(v, dtype=float))
            def differs(got, want, rel=1e-9):
                if np.isinf(want) or np.isnan(want):
                    return not (got == want)
                return not (abs(got - want) <= rel * max(1.0, abs(want)))
            for n, lam in ((3.0, 2.5), (0.0, 0.0), (7.25, 11.5), (0.0, 3.0), (200.0, 180.0), (1000.0, 1000.5), (3.0, 0.0)):
                want = float(xlogy(n, lam) - lam - gammaln(n + 1.0))
                got = float(np.asarray(tl.tolist(tl.poisson_logpdf(A([n]), A([lam]))))[0])
                if differs(got, want):
                    bad[f"{backend}:poisson_logpdf({n},{lam})"] = {"got": got, "exact": want}
                gp = float(np.asarray(tl.tolist(tl.poisson(A([n]), A([lam]))))[0])
                if differs(gp, float(np.exp(want)), 1e-9):
                    bad[f"{backend}:poisson({n},{lam})"] = {"got": gp, "exact": float(np.exp(want))}
                gd = float(np.asarray(tl.tolist(tl.poisson_dist(A([lam])).log_prob(A([n]))))[0])
                if differs(gd, want):
                    bad[f"{backend}:poisson_dist({lam}).log_prob({n})"] = {"got": gd, "exact": want}
            for x, mu, s in ((0.3, 1.2, 0.7), (-2.0, 0.5, 3.0), (5.0, 5.0, 0.01)):
                want = float(norm.logpdf(x, mu, s))
                got = float(np.asarray(tl.tolist(tl.normal_logpdf(A([x]), A([mu]), A([s]))))[0])
                if abs(got - want) > 1e-9 * max(1.0, abs(want)):
                    bad[f"{backend}:normal_logpdf({x},{mu},{s})"] = {"got": got, "exact": want}
                g2 = float(np.asarray(tl.tolist(tl.normal(A([x]), A([mu]), A([s]))))[0])
                if abs(g2 - float(norm.pdf(x, mu, s))) > 1e-9 * max(1.0, abs(float(norm.pdf(x, mu, s)))):
                    bad[f"{backend}:normal({x},{mu},{s})"] = {"got": g2, "exact": float(norm.pdf(x, mu, s))}
                g3 = float(np.asarray(tl.tolist(tl.normal_cdf(A([x]), A([mu]), A([s]))))[0])
                if abs(g3 - float(norm.cdf(x, mu, s))) > 1e-9:
                    bad[f"{backend}:normal_cdf({x},{mu},{s})"] = {"got": g3, "exact": float(norm.cdf(x, mu, s))}
                g4 = float(np.asarray(tl.tolist(tl.normal_dist(A([mu]), A([s])).log_prob(A([x]))))[0])
                if abs(g4 - want) > 1e-9 * max(1.0, abs(want)):
                    bad[f"{backend}:normal_dist.log_prob"] = {"got": g4, "exact": want}
            g5 = float(np.asarray(tl.tolist(tl.normal_cdf(A([0.7]))))[0])
            if abs(g5 - float(norm.cdf(0.7))) > 1e-9:
                bad[f"{backend}:normal_cdf default"] = {"got": g5, "exact": float(norm.cdf(0.7))}
            if "probability.py" in name:
                from pyhf.probability import Independent, Normal, Poisson
                ip = Independent(Poisson(A([2.5, 3.5])))
                got = float(np.asarray(tl.tolist(ip.log_prob(A([3.0, 1.0])))).ravel()[0])
                want = float(sum(xlogy(n, lam) - lam - gammaln(n + 1.0) for n, lam in ((3.0, 2.5), (1.0, 3.5))))
                if abs(got - want) > 1e-9:
                    bad[f"{backend}:Independent(Poisson)"] = {"got": got, "exact": want}
                inn = Independent(Normal(A([0.5, 1.0]), A([2.0, 0.5])))
                got = float(np.asarray(tl.tolist(inn.log_prob(A([1.0, 1.5])))).ravel()[0])
                want = float(norm.logpdf(1.0, 0.5, 2.0) + norm.logpdf(1.5, 1.0, 0.5))
                if abs(got - want) > 1e-9:
                    bad[f"{backend}:Independent(Normal)"] = {"got": got, "exact": want}
    except Exception as e:
        bad["exception"] = f"{type(e).__name__}: {e}"
    finally:
        pyhf.set_backend("numpy")
    return {"reproduced": bool(bad), "disagreements": bad}
