"""C10 - batched evaluation equals row-by-row evaluation.

(B2) For every skeleton the REAL pipeline is executed symbolically with batch_size = A (2 in the quick tier,
1 and 3 added in the thorough tier) on A DISTINCT symbolic parameter rows and A distinct symbolic data rows:
row a of expected_data / expected_actualdata / logpdf is proved equal to the oracle evaluated on row a alone
(the oracle is row-local by construction, and equals the unbatched model by C01 / C02), the batch axis is the
leading one.  The sampled-data shape is checked natively (bounded) because samplers are external."""
import z3

from pyvc.tensor import PT
from . import hf_oracle as O
from . import hf_skeleton as K

PROPERTY = "C10"
LEVEL = "proof"
EXPLANATION = ("batched models are executed symbolically on structure skeletons with distinct symbolic rows; every row is proved equal to the "
               "row-local oracle for all numbers; rows cannot influence each other because each output row is a function of its own row only")
TRUSTED = ["interpolator contract (C03), density formulas (C04), tensor op contracts; concrete index computations run natively",
           "sample shapes: backend samplers are external, shape checked natively on the skeletons (bounded)"]
ASSUMPTIONS = ["batch sizes 2 (quick) and 1, 2, 3 (thorough); structure bounded by the skeleton list; numbers unbounded"]


def run_one(T, name, skel, A):
    key = "pdf.py::Model"
    eng = T.engine(K.pipeline_policy())
    box = {}

    def thunk():
        spec, sym = K.build_spec(skel)
        for c in sym.positivity():
            eng.assume(c)
        m = K.make_model(eng, spec, skel.get("poi"), batch_size=A)
        lay = K.layout_of(eng, m)
        rows = [[z3.Real(f"th{a}_{i}") for i in range(lay.npars)] for a in range(A)]
        for row in rows:
            for t in row:
                eng.assume(t > 0)
        cfg = eng.getattr(m, "config")
        n = eng.getattr(cfg, "nmaindata") + eng.getattr(cfg, "nauxdata")
        data = [[z3.Real(f"d{a}_{i}") for i in range(n)] for a in range(A)]
        out = {"full": eng.call(eng.getattr(m, "expected_data"), [rows], {}),
               "actual": eng.call(eng.getattr(m, "expected_actualdata"), [rows], {}),
               "logpdf": eng.call(eng.getattr(m, "logpdf"), [rows, data], {}), "n": n, "nmain": eng.getattr(cfg, "nmaindata")}
        box.update(spec=spec, lay=lay, rows=rows, data=data)
        return out
    results = eng.explore(thunk)
    T.absorb(eng, results)
    for k, r in enumerate(results):
        sfx = f"{name},A={A},path{k}"
        if r.kind != "return":
            T.fail(f"{key}#no-raise@class=well-formed|{sfx}", f"raises {r.exc_name} {getattr(r.value, 'eargs', '')}", kind="raises", skeleton=skel, batch=A)
            continue
        spec, lay, rows, data = box["spec"], box["lay"], box["rows"], box["data"]
        o = r.value
        hy = r.path.hyps()
        nmain, n = o["nmain"], o["n"]
        for nm, t, width in (("expected_actualdata", o["actual"], nmain), ("expected_data", o["full"], n)):
            ok = isinstance(t, PT) and t.shape == (A, width)
            (T.ok if ok else T.fail)(f"{key}.{nm}#post.batch-axis-leading@class=well-formed|{sfx}", *([] if ok else [f"shape {getattr(t, 'shape', None)}"]), skeleton=skel, batch=A)
            if not ok:
                continue
            for a in range(A):
                want = O.expected_main(O.ZOps, spec, lay, rows[a])
                if nm == "expected_data":
                    want = want + O.expected_aux(O.ZOps, spec, lay, rows[a])
                got = [t.fn((z3.IntVal(a), z3.IntVal(g))) for g in range(width)]
                T.ob(eng, f"{key}.{nm}#post.row-equals-unbatched-row@class=well-formed|{sfx},row{a}", hy,
                     z3.And(*[x == y for x, y in zip(got, want)]), skeleton=skel, batch=A)
        lp = o["logpdf"]
        ok = isinstance(lp, PT) and lp.shape == (A,)
        (T.ok if ok else T.fail)(f"{key}.logpdf#post.batch-axis-leading@class=well-formed|{sfx}", *([] if ok else [f"shape {getattr(lp, 'shape', None)}"]), skeleton=skel, batch=A)
        if ok:
            for a in range(A):
                main, con = O.logpdf(O.ZOps, spec, lay, rows[a], data[a])
                T.ob(eng, f"{key}.logpdf#post.row-equals-unbatched-row@class=well-formed|{sfx},row{a}", hy, lp.fn((z3.IntVal(a),)) == main + con,
                     skeleton=skel, batch=A, what="logpdf")


def sample_shapes_native(T, chunk, sizes):
    """bounded: shape of sampled data (sample_shape + (batch,) + (ndata,)) on the concrete skeletons"""
    import random
    import numpy as np
    import pyhf
    from .hf_native import concretise
    pyhf.set_backend("numpy")
    cases = fails = 0
    for name, skel in chunk:
        spec = concretise(skel, random.Random(5))
        for A in sizes:
            m = pyhf.Model(spec, poi_name=skel.get("poi"), batch_size=A)
            pars = np.asarray([m.config.suggested_init()] * A)
            n = m.config.nmaindata + m.config.nauxdata
            for shp in ((), (3,), (2, 2)):
                cases += 1
                s = np.asarray(m.make_pdf(pars).sample(shp))
                if s.shape != tuple(shp) + (A, n):
                    fails += 1
            m1 = pyhf.Model(spec, poi_name=skel.get("poi"))
            s1 = np.asarray(m1.make_pdf(np.asarray(m1.config.suggested_init())).sample((3,)))
            cases += 1
            if s1.shape != (3, n):
                fails += 1
    T.bounded_block("sampled-data shape == sample_shape + (batch,) + (ndata,)", f"skeletons {[n for n, _ in chunk]}, batch sizes {list(sizes)}, sample shapes (), (3,), (2,2)", cases, fails)
    (T.ok if fails == 0 else T.fail)("pdf.py::Model.make_pdf#bounded.sample-shape|" + ",".join(n for n, _ in chunk), *([] if fails == 0 else [f"{fails} of {cases} shapes wrong"]), kind="bounded")


def make_task(chunk, sizes):
    def task(T):
        for name, skel in chunk:
            for A in sizes:
                run_one(T, name, skel, A)
        sample_shapes_native(T, chunk, sizes)
        T.bounded_block("skeleton-bounded symbolic execution of batched models", "structure: skeletons " + ", ".join(n for n, _ in chunk) + f"; batch sizes {list(sizes)}; numbers unbounded", len(chunk) * len(sizes), 0)
    return task


from .BK_backend_ops import TRUSTED as BK_TRUSTED
TRUSTED = TRUSTED + BK_TRUSTED


def tasks(tier):
    import os
    seed = int(os.environ.get("VERIF_SEED", "0") or 0)
    sk = K.skeletons(tier, seed)
    sizes = (2,) if tier == "quick" else (1, 2, 3)
    out = [(f"batched[{name}]", make_task([(name, skel)], sizes)) for name, skel in sk]
    # unbounded in shapes and in the batch size A: the appliers / ParamViewer.get / _MainModel.expected_data under their class
    # invariants (C01 tier P); row a of every result is a function of row a of the parameters only
    from .C01_appliers import applier_tasks
    out += [(n, f) for n, f in applier_tasks(tier) if ",batched" in n]
    # "every backend": each backend's wrapper methods are proved to be the tensor operations the contracts above assume
    from .BK_backend_ops import backend_op_tasks
    out += backend_op_tasks(tier)
    return out


def replay(r):
    meta = r.get("meta") or {}
    if (meta.get("op") or meta.get("lifecycle")) and meta.get("backend"):
        from .BK_backend_ops import replay_backend_op
        return replay_backend_op(r)
    skel = meta.get("skeleton")
    if skel is None:
        # tier P obligations (appliers, ParamViewer.get, expected_data for any shapes) are shared with C01 and replayed there:
        # curated skeletons, unbatched and with batch rows, with and without clipping
        from .C01_rates import replay as replay_c01
        return replay_c01(r)
    from .hf_native import native_compare
    return native_compare(skel, what=meta.get("what", "expected"), batch=meta.get("batch", 2))
