"""C14 - toy p-values are exact tail fractions of correctly sampled pseudo-data.

Decided (for any number of toys, sample vectors symbolic):
  EmpiricalDistribution.pvalue(v) == #{i : s_i >= v} / n  (ties counted), lies in [0,1], never increases with v;
  expected_value forwards Phi(nsigma)*100 to the linear percentile;
  ToyCalculator.distributions: signal toys are drawn from make_pdf(fixed_poi_fit(poi_test, ...)), background toys from
  make_pdf(fixed_poi_fit(0, or 1 for q0, ...)), each with sample shape (ntoys,); the i-th statistic of either
  distribution is teststat(poi_test, sample_i, pdf, init, bounds, fixed) (loop invariants), the two empirical
  distributions are built from exactly those lists; teststatistic / pvalues (CLs = CLsb/CLb) / expected_pvalues wiring.
NOT decided: the sampling distributions themselves and the agreement of toy estimates with exact tails
(statistical statements about external samplers)."""
import z3

from pyvc.interp import LoopSpec
from pyvc.solver import SumF
from pyvc.tensor import PT, Phi
from pyvc.values import I, R, Obj, Rec, SeqV, SymList, Unsupported, isnone_of, item_of, len_of, real_of, truthy_of, ufunc, box_real
from .common import MLE, TS, calls_to, fit_contract, std_args

PROPERTY = "C14"
LEVEL = "proof"
CALC = "infer/calculators.py"
EXPLANATION = ("EmpiricalDistribution and ToyCalculator are executed symbolically on the current source for an arbitrary number of toys; the tail "
               "fraction is a symbolic sum handled by the congruence / monotonicity / bound rules R1-R3, the toy loops by loop invariants")
TRUSTED = ["reduction rules R1 (congruence), R3 (bounds, monotonicity) for sums over a symbolic extent",
           "fixed_poi_fit contract (C05), test statistic contract (C06), make_pdf / sample uninterpreted (external samplers)",
           "tensorlib.percentile uninterpreted (numpy percentile)"]
ASSUMPTIONS = ["pseudo-data distribution (integer counts, mean and variance equal to the rate, auxiliary values following the constraint terms) and the "
               "agreement of toy CLs+b / CLb with exact tails within binomial error are statistical statements about external samplers - NOT decided"]

SampleF = z3.Function("toy_stat", I, R)
TSF = z3.Function("teststat_of", Obj, Obj, R)            # teststat(poi, sample) with the other arguments fixed


def t_empirical(T):
    base = f"{CALC}::EmpiricalDistribution"
    eng = T.engine({"inline": [base + "."]})
    for m in ("__init__", "pvalue", "expected_value"):
        T.under_contract(eng, f"{base}.{m}")
    cls = eng.module(CALC).get("EmpiricalDistribution")

    def run():
        n = z3.Int("ntoys")
        eng.assume(n >= 1)
        samples = PT((n,), lambda i: SampleF(i[0]), "real")
        d = eng.instantiate(cls, [samples], {})
        v1, v2, ns = eng.real("v1"), eng.real("v2"), eng.real("nsigma")
        return {"n": n, "v1": v1, "v2": v2, "ns": ns, "d": d,
                "p1": eng.call(eng.getattr(d, "pvalue"), [v1], {}), "p2": eng.call(eng.getattr(d, "pvalue"), [v2], {}),
                "ev": eng.call(eng.getattr(d, "expected_value"), [ns], {})}
    results = eng.explore(run)
    T.absorb(eng, results)
    for k, r in enumerate(results):
        sfx = f"@path{k}"
        if r.kind != "return":
            T.fail(f"{base}#no-raise{sfx}", str(r.exc_name), kind="raises")
            continue
        o = r.value
        n, v1, v2 = o["n"], o["v1"], o["v2"]
        hy = r.path.hyps()
        j = z3.Int("cnt_j")

        def count(v):
            return SumF(n, z3.Lambda([j], z3.If(SampleF(j) >= v, z3.RealVal(1), z3.RealVal(0))))
        p1, p2 = eng.to_real(o["p1"]), eng.to_real(o["p2"])
        T.ob(eng, f"{base}.pvalue#post.exact-tail-fraction-ties-counted{sfx}", hy, p1 == count(v1) / z3.ToReal(n))
        T.ob(eng, f"{base}.pvalue#post.in-unit-interval{sfx}", hy, z3.And(p1 >= 0, p1 <= 1))
        T.ob(eng, f"{base}.pvalue#post.never-increases-with-the-observed-value{sfx}", hy + [v1 <= v2], p2 <= p1)
        st = o["d"].attrs.get("samples")
        ok = isinstance(st, PT) and len(st.shape) == 1
        (T.ok if ok else T.fail)(f"{base}.__init__#post.samples-flattened{sfx}", *([] if ok else ["samples not a flat tensor"]))
        if ok:
            i0 = z3.Int("si")
            T.ob(eng, f"{base}.__init__#post.samples-are-the-given-ones{sfx}", hy + [i0 >= 0, i0 < n], z3.And(st.shape[0] == n, st.fn((i0,)) == SampleF(i0)))
        pc = ufunc("percentile{linear}", Obj, Obj, Obj, Obj)
        want = pc(eng.box(st), eng.box(Phi(o["ns"]) * 100), eng.box(None))
        T.ob(eng, f"{base}.expected_value#fwd.linear-percentile-at-Phi(nsigma)x100{sfx}", hy, eng.veq(o["ev"], want), kind="forwarding")
        T.canary(eng, f"{base}#canary{sfx}", hy, p1 == (count(v1) - 1) / z3.ToReal(n))
    # ties: a strict comparison would differ exactly on samples equal to the observed value (spec lemma, no code)
    eng2 = T.engine({})
    eng2.path = __import__("pyvc.interp", fromlist=["Path"]).Path([])
    s, v = z3.Reals("s v")
    T.ob(eng2, "lemma#ties-are-counted", [s == v], z3.If(s >= v, 1, 0) == 1, kind="lemma")


def teststat_contract(eng, call):
    poi, sample = call.arg(0, None), call.arg(1, None)
    call.is_toy = True
    if call.kwargs.get("return_fitted_pars"):
        raise Unsupported("toy statistics are called without fitted parameters")
    return TSF(eng.box(poi), eng.box(sample))


def _toy_policy(key, state):
    def make_list(tag):
        def h(eng, v):
            if v != []:
                raise Unsupported(f"{tag} is not initialised with []")
            state[tag] = SeqV(z3.K(I, z3.Const("nostat", Obj)), z3.IntVal(0))
            return state[tag]
        return h

    def inv(tag, sample_key):
        def f(eng, env, i):
            L = state[tag]
            j = z3.Int("tj_" + tag)
            smp = state[sample_key]
            poi = state["poi"]
            return [(f"{tag}-entry-j-is-the-statistic-of-toy-j",
                     z3.And(L.n == i, z3.ForAll([j], z3.Implies(z3.And(0 <= j, j < i),
                                                                real_of(z3.Select(L.arr, j)) == TSF(poi, item_of(smp, box_real(z3.ToReal(j))))))))]
        return f

    def havoc(tag):
        def f(eng, env):
            L = state[tag]
            L.arr, L.n = z3.Const(f"{tag}!arr", z3.ArraySort(I, Obj)), z3.Int(f"{tag}!n")
        return f
    pol = {f"{MLE}::fixed_poi_fit": fit_contract("fixed_poi_fit"), "infer/utils.py::get_test_stat": "inline",
           # the two toy loops ("L = []; for sample in toys: L.append(stat(sample))") are append-loops over a sequence of symbolic length:
           # the interpreter reads them as the comprehension they are, whatever the local names and whether they are written as loops
           # or comprehensions; no name-keyed ghost state or loop ordinal is needed
           "inline": [f"{CALC}::ToyCalculator.", f"{CALC}::EmpiricalDistribution."]}
    for fn in ("qmu", "qmu_tilde", "q0"):
        pol[f"{TS}::{fn}"] = teststat_contract
    return pol


def make_toycalc(eng, test_stat):
    cls = eng.module(CALC).get("ToyCalculator")
    a = std_args(eng, with_mu=False)
    for n in ("data", "pdf", "init_pars", "par_bounds", "fixed_params"):
        eng.assume(z3.Not(isnone_of(a[n])))
        eng.assume(truthy_of(a[n]))
    ntoys = z3.Int("ntoys")
    eng.assume(ntoys >= 1)
    calc = eng.instantiate(cls, [a[n] for n in ("data", "pdf", "init_pars", "par_bounds", "fixed_params")], {"test_stat": test_stat, "ntoys": ntoys, "track_progress": False})
    return calc, a, ntoys


def t_distributions(T):
    key = f"{CALC}::ToyCalculator.distributions"
    for ts in ("q", "qtilde", "q0"):
        state = {}
        eng = T.engine(_toy_policy(key, state))
        T.under_contract(eng, key)
        T.under_contract(eng, f"{CALC}::ToyCalculator.__init__")

        def run():
            calc, a, ntoys = make_toycalc(eng, ts)
            poi = eng.obj("poi_test")
            state["poi"] = poi
            # the sampled data sets are opaque sequences of ntoys rows; remember which is which through the call log
            state["signal_sample"] = z3.Const("pending_signal_sample", Obj)
            state["bkg_sample"] = z3.Const("pending_bkg_sample", Obj)
            pdf = a["pdf"]
            s1 = eng._opaque_apply(eng.opaque_attr(eng._opaque_apply(eng.opaque_attr(pdf, "make_pdf"), [z3.Const("fixed_poi_fit_pars", Obj)], {}), "sample"), [(ntoys,)], {})
            s2 = eng._opaque_apply(eng.opaque_attr(eng._opaque_apply(eng.opaque_attr(pdf, "make_pdf"), [z3.Const("fixed_poi_fit_pars2", Obj)], {}), "sample"), [(ntoys,)], {})
            state["signal_sample"], state["bkg_sample"] = s1, s2
            eng.assume(len_of(s1) == ntoys)
            eng.assume(len_of(s2) == ntoys)
            out = eng.call(eng.getattr(calc, "distributions"), [poi], {})
            return {"calc": calc, "a": a, "poi": poi, "ntoys": ntoys, "out": out, "s1": s1, "s2": s2}
        results = eng.explore(run)
        T.absorb(eng, results)
        kinds = set()
        for k, r in enumerate(results):
            sfx = f"@{ts},path{k}"
            kinds.add(r.kind)
            T.discharge_required(eng, r, sfx)
            fits = calls_to(r.path, f"{MLE}::fixed_poi_fit")
            if r.kind == "raise":
                ok = r.exc_name == "UnspecifiedPOI"
                (T.ok if ok else T.fail)(f"{key}#raises.only-UnspecifiedPOI{sfx}", *([] if ok else [str(r.exc_name)]), kind="raises")
                continue
            # every statistic call made on this path: (poi_test, sample_i, pdf, init, bounds, fixed)
            for c in [c for c in r.path.calls if isinstance(c.target, str) and c.target.startswith(TS + "::")]:
                want_fn = {"q": "qmu", "qtilde": "qmu_tilde", "q0": "q0"}[ts]
                okf = c.target == f"{TS}::{want_fn}"
                (T.ok if okf else T.fail)(f"{key}#fwd.statistic-function{sfx},call{c.seq}", *([] if okf else [c.target]), kind="forwarding")
                if r.kind == "return":
                    continue
            if r.kind != "return":
                continue
            o = r.value
            a, poi, ntoys = o["a"], o["poi"], o["ntoys"]
            base = [a[n] for n in ("data", "pdf", "init_pars", "par_bounds", "fixed_params")]
            if len(fits) != 2:
                T.fail(f"{key}#fwd.two-conditional-fits{sfx}", f"{len(fits)} fixed_poi_fit calls", kind="forwarding")
                continue
            T.ob_path(eng, f"{key}#fwd.signal-fit-at-the-tested-value{sfx}", r, eng.veq([fits[0].arg(i, None, None) for i in range(6)], [poi] + base), kind="forwarding")
            T.ob_path(eng, f"{key}#fwd.background-fit-at-0-or-1-for-discovery{sfx}", r,
                      eng.veq([fits[1].arg(i, None, None) for i in range(6)], [1.0 if ts == "q0" else 0.0] + base), kind="forwarding")
            sb, b = o["out"]
            for nm, d, smp, fit in (("signal", sb, o["s1"], fits[0]), ("background", b, o["s2"], fits[1])):
                if not isinstance(d, Rec):
                    T.fail(f"{key}#post.{nm}-distribution{sfx}", "not an EmpiricalDistribution")
                    continue
                st = d.attrs.get("samples")
                # the sample really is drawn from make_pdf(<that fit's parameters>) with shape (ntoys,)
                mk = eng._opaque_apply(eng.opaque_attr(a["pdf"], "make_pdf"), [fit.pars], {})
                drawn = eng._opaque_apply(eng.opaque_attr(mk, "sample"), [(ntoys,)], {})
                T.ob_path(eng, f"{key}#fwd.{nm}-toys-drawn-at-that-hypothesis'-conditional-fit{sfx}", r,
                          z3.BoolVal(any(c.result is not None and z3.is_expr(c.result) and c.result.eq(drawn) for c in r.path.calls)), kind="forwarding")
                jj = z3.Int("dj")
                if isinstance(st, PT) and len(st.shape) == 1:
                    T.ob(eng, f"{key}#post.{nm}-distribution-holds-the-statistic-of-every-toy{sfx}", r.path.hyps() + [jj >= 0, jj < ntoys],
                         z3.And(st.shape[0] == ntoys, st.fn((jj,)) == TSF(poi, item_of(drawn, box_real(z3.ToReal(jj))))))
                else:
                    T.fail(f"{key}#post.{nm}-distribution-holds-the-statistic-of-every-toy{sfx}", f"samples is {type(st).__name__}")
        for want in ("return",):
            (T.ok if want in kinds else T.fail)(f"{key}#paths.{want}-exists@{ts}", *([] if want in kinds else ["missing"]), kind="raises")


def t_pvalues(T):
    key = f"{CALC}::ToyCalculator"
    eng = T.engine({"inline": [key + "."], "infer/utils.py::get_test_stat": "inline",
                    f"{TS}::qmu_tilde": teststat_contract})
    for m in ("pvalues", "teststatistic"):
        T.under_contract(eng, f"{key}.{m}")

    def run():
        calc, a, ntoys = make_toycalc(eng, "qtilde")
        t = eng.real("teststat")
        sb = Rec(eng.module(CALC).get("EmpiricalDistribution"))
        b = Rec(eng.module(CALC).get("EmpiricalDistribution"))
        n = z3.Int("n")
        eng.assume(n >= 1)
        sb.attrs["samples"] = PT((n,), lambda i: z3.Function("sb_s", I, R)(i[0]))
        b.attrs["samples"] = PT((n,), lambda i: z3.Function("b_s", I, R)(i[0]))
        eng.policy["inline"] = list(eng.policy["inline"]) + [f"{CALC}::EmpiricalDistribution."]
        poi = eng.obj("poi_test")
        return {"pv": eng.call(eng.getattr(calc, "pvalues"), [t, sb, b], {}), "ts": eng.call(eng.getattr(calc, "teststatistic"), [poi], {}),
                "a": a, "poi": poi, "t": t, "n": n}
    results = eng.explore(run)
    T.absorb(eng, results)
    for k, r in enumerate(results):
        sfx = f"@path{k}"
        if r.kind != "return":
            T.fail(f"{key}#no-raise{sfx}", str(r.exc_name), kind="raises")
            continue
        o = r.value
        CLsb, CLb, CLs = (eng.to_real(x) for x in o["pv"])
        j = z3.Int("pj")
        n, t = o["n"], o["t"]
        cnt = lambda F: SumF(n, z3.Lambda([j], z3.If(z3.Function(F, I, R)(j) >= t, z3.RealVal(1), z3.RealVal(0)))) / z3.ToReal(n)
        hy = r.path.hyps()
        T.ob(eng, f"{key}.pvalues#post.CLsb-and-CLb-are-the-tail-fractions{sfx}", hy, z3.And(CLsb == cnt("sb_s"), CLb == cnt("b_s")))
        T.ob(eng, f"{key}.pvalues#post.CLs-is-the-ratio{sfx}", hy, CLs == CLsb / CLb)
        a = o["a"]
        T.ob(eng, f"{key}.teststatistic#post.statistic-of-the-observed-data{sfx}", hy,
             eng.to_real(o["ts"]) == TSF(eng.box(o["poi"]), eng.box(a["data"])), kind="forwarding")


def t_simultaneous_sample(T):
    """probability.Simultaneous.sample: the pseudo-data of constituent k land at the data positions the tensor viewer assigns to k -
    the positions Simultaneous.log_prob reads them from (split(sample()) gives the constituent samples back)"""
    from . import hf_skeleton as K
    from .common import typed_opaque
    key = "probability.py::Simultaneous.sample"
    layouts = {"in-order": [[0, 1, 2], [3, 4]], "first-constituent-last": [[3, 4], [0, 1, 2]], "interleaved": [[0, 2], [1, 3, 4]],
               "three-constituents": [[4], [0, 1], [2, 3]], "single": [[0, 1]]}
    for lname, idx in layouts.items():
        for shape in ((), (2,)):
            eng = T.engine(K.pipeline_policy())
            T.under_contract(eng, key)
            T.under_contract(eng, "tensor/common.py::_TensorViewer.stitch")
            T.under_contract(eng, "tensor/common.py::_TensorViewer.split")
            box = {}

            def run():
                TV = eng.module("tensor/common.py").get("_TensorViewer")
                SIM = eng.module("probability.py").get("Simultaneous")
                tv = eng.instantiate(TV, [[list(i) for i in idx]], {})
                draws = []

                def mk(k, n):
                    def sample(e, rec):
                        shp = tuple(rec.args[0]) if rec.args else tuple(rec.kwargs.get("sample_shape", ()))
                        box.setdefault("shapes", []).append(shp)
                        f = z3.Function(f"draw{k}", *([I] * (len(shp) + 1)), R)
                        t = PT(shp + (n,), lambda ix, f=f: f(*ix), "real")
                        draws.append((k, f, shp))
                        return t
                    return sample
                pdfs = [typed_opaque(eng, f"pdf{k}", {"sample": mk(k, len(ix))}) for k, ix in enumerate(idx)]
                sim = eng.instantiate(SIM, [pdfs, tv], {})
                out = eng.call(eng.getattr(sim, "sample"), [shape], {})
                parts = eng.call(eng.getattr(tv, "split"), [out], {})
                box.update(draws=draws)
                return out, parts
            results = eng.explore(run)
            T.absorb(eng, results)
            for k, r in enumerate(results):
                sfx = f"@{lname},shape={shape},path{k}"
                if r.kind != "return":
                    T.fail(f"{key}#no-raise{sfx}", f"{r.exc_name}", kind="raises")
                    continue
                out, parts = r.value
                n = sum(len(ix) for ix in idx)
                okshape = isinstance(out, PT) and tuple(out.shape) == tuple(shape) + (n,) and all(sh == tuple(shape) for sh in box.get("shapes", []))
                (T.ok if okshape else T.fail)(f"{key}#post.shape-and-sample-shape-forwarded{sfx}", *([] if okshape else [f"shape {getattr(out, 'shape', None)}, requested {box.get('shapes')}"]), kind="forwarding")
                if not okshape:
                    continue
                goals = []
                lead = [()] if not shape else [(z3.IntVal(a),) for a in range(shape[0])]
                for kk, f, shp in box["draws"]:
                    for j, pos in enumerate(idx[kk]):
                        for ld in lead:
                            goals.append(out.fn(ld + (z3.IntVal(pos),)) == f(*ld, z3.IntVal(j)))
                T.ob_path(eng, f"{key}#post.constituent-draws-land-at-their-data-positions{sfx}", r, z3.And(*goals))
                g2 = []
                for kk, f, shp in box["draws"]:
                    pk = parts[kk]
                    for j in range(len(idx[kk])):
                        for ld in lead:
                            g2.append(pk.fn(ld + (z3.IntVal(j),)) == f(*ld, z3.IntVal(j)))
                T.ob_path(eng, f"{key}#post.split-of-the-sample-gives-the-constituent-draws-back{sfx}", r, z3.And(*g2))


# ---------------------------------------------------------------- pyhf's own distribution objects (numpy / jax): what is drawn
def t_backend_samplers(T):
    """numpy and jax have no library distribution objects: pyhf's _BasicPoisson / _BasicNormal draw through scipy.stats.  Their
    sample(shape) is one draw of the library distribution WITH THE OBJECT'S OWN PARAMETERS (rate / loc, scale) and size
    shape + parameter shape.  (pytorch / tensorflow hand out the library's distribution objects: C04 proves their parameters.)"""
    from pyvc.values import HostObj, NativeFn
    DRAW = lambda fam, n: z3.Function(f"draw_{fam}", *([Obj] * n), Obj)

    class Frozen(HostObj):
        def __init__(self, eng, family, params):
            self.eng, self.family, self.params = eng, family, params

        def rvs(self, size=None, random_state=None):
            e = self.eng
            return DRAW(self.family, len(self.params) + 1)(*[e.box(p) for p in self.params], e.box(size))

    def frozen(family, names, defaults):
        def h(eng, call):
            import inspect
            sig = inspect.Signature([inspect.Parameter(n, inspect.Parameter.POSITIONAL_OR_KEYWORD, default=d) for n, d in zip(names, defaults)])
            b = sig.bind(*call.args, **call.kwargs)
            b.apply_defaults()
            return Frozen(eng, family, [b.arguments[n] for n in names])
        return h
    for fname in ("numpy_backend", "jax_backend"):
        base = f"tensor/{fname}.py"
        pol = {"inline": [f"{base}::"], "numbers_are_arrays": True,
               "ext:scipy.stats.poisson": frozen("poisson", ["mu"], [None]), "ext:scipy.stats.norm": frozen("normal", ["loc", "scale"], [0, 1]),
               "ext:jax.numpy.asarray": lambda e, c: c.args[0], "ext:numpy.asarray": lambda e, c: c.args[0]}
        eng = T.engine(pol)
        for m in ("_BasicPoisson.sample", "_BasicNormal.sample"):
            T.under_contract(eng, f"{base}::{m}")
        box = {}

        def run():
            mod = eng.module(base)
            rate, loc, scale = eng.real("rate"), eng.real("loc"), eng.real("scale")
            n = eng.int("ntoys")
            eng.assume(z3.And(rate > 0, scale > 0, n >= 0))
            box.update(rate=rate, loc=loc, scale=scale, n=n)
            p = eng.instantiate(mod.get("_BasicPoisson"), [rate], {})
            g = eng.instantiate(mod.get("_BasicNormal"), [loc, scale], {})
            return {"p": eng.call(eng.getattr(p, "sample"), [(n,)], {}), "g": eng.call(eng.getattr(g, "sample"), [(n,)], {})}
        try:
            results = eng.explore(run)
        except Unsupported as e:
            T.undecided(f"{base}::_BasicNormal.sample#engine", str(e)) if hasattr(T, "undecided") else T.fail(f"{base}::_BasicNormal.sample#engine", str(e), kind="engine")
            continue
        T.absorb(eng, results)
        for k, r in enumerate(results):
            sfx = f"@path{k}" if len(results) > 1 else ""
            if r.kind != "return":
                T.fail(f"{base}::_BasicNormal.sample#no-raise{sfx}", str(r.exc_name), kind="raises", sampler=fname)
                continue
            rate, loc, scale, n = (box[v] for v in ("rate", "loc", "scale", "n"))
            size = eng.box((n,))
            T.ob_path(eng, f"{base}::_BasicPoisson.sample#post.one-poisson-draw-with-the-objects-rate-and-shape{sfx}", r,
                      _zb(eng.veq(r.value["p"], DRAW("poisson", 2)(eng.box(rate), size))), kind="forwarding", sampler=fname)
            T.ob_path(eng, f"{base}::_BasicNormal.sample#post.one-normal-draw-with-the-objects-loc-scale-and-shape{sfx}", r,
                      _zb(eng.veq(r.value["g"], DRAW("normal", 3)(eng.box(loc), eng.box(scale), size))), kind="forwarding", sampler=fname)


def _zb(x):
    return z3.BoolVal(x) if isinstance(x, bool) else x


def tasks(tier):
    return [("EmpiricalDistribution", t_empirical), ("ToyCalculator.distributions", t_distributions), ("ToyCalculator.pvalues", t_pvalues),
            ("Simultaneous.sample", t_simultaneous_sample), ("backend-samplers", t_backend_samplers)]


def replay(r):
    """native replay: the real EmpiricalDistribution against an exact count, incl. ties and values outside the sample range"""
    name = r["name"]
    import numpy as np
    import pyhf
    from pyhf.infer.calculators import EmpiricalDistribution, ToyCalculator
    pyhf.set_backend("numpy")
    bad = {}
    if "_Basic" in name and ".sample#" in name:
        # moments of a large seeded draw from the real distribution objects of the backend the obligation is about
        backend = "jax" if "jax_backend" in name else "numpy"
        try:
            pyhf.set_backend(backend)
            tl, _ = pyhf.get_backend()
            np.random.seed(12345)
            n = 40000
            rate, loc, scale = tl.astensor([4.0, 25.0]), tl.astensor([1.0, -3.0]), tl.astensor([0.05, 2.5])
            ps = np.asarray(tl.tolist(tl.poisson_dist(rate).sample((n,))), dtype=float)
            gs = np.asarray(tl.tolist(tl.normal_dist(loc, scale).sample((n,))), dtype=float)
            if ps.shape != (n, 2) or gs.shape != (n, 2):
                bad["shape"] = {"poisson": list(ps.shape), "normal": list(gs.shape), "expected": [n, 2]}
            else:
                for j, lam in enumerate((4.0, 25.0)):
                    if abs(ps[:, j].mean() - lam) > 6 * (lam / n) ** 0.5 or abs(ps[:, j].var() - lam) > 0.1 * lam or not np.all(ps[:, j] == np.round(ps[:, j])):
                        bad[f"poisson(rate={lam})"] = {"sample mean": float(ps[:, j].mean()), "sample variance": float(ps[:, j].var()), "expected": lam}
                for j, (m, s_) in enumerate(((1.0, 0.05), (-3.0, 2.5))):
                    if abs(gs[:, j].mean() - m) > 6 * s_ / n ** 0.5 or abs(gs[:, j].std() - s_) > 0.05 * s_:
                        bad[f"normal(loc={m}, scale={s_})"] = {"sample mean": float(gs[:, j].mean()), "sample std": float(gs[:, j].std())}
        except Exception as e:
            bad["exception"] = f"{type(e).__name__}: {e}"
        finally:
            pyhf.set_backend("numpy")
        return {"reproduced": bool(bad), "disagreements": bad}
    if "Simultaneous.sample" in name:
        from pyhf.probability import Simultaneous
        from pyhf.tensor.common import _TensorViewer

        class Fake:
            def __init__(self, k, n): self.k, self.n = k, n
            def sample(self, sample_shape=()):
                shp = tuple(sample_shape) + (self.n,)
                return (1000.0 * (self.k + 1) + np.arange(int(np.prod(shp)), dtype=float)).reshape(shp)
        for lname, idx in {"in-order": [[0, 1, 2], [3, 4]], "first-constituent-last": [[3, 4], [0, 1, 2]], "interleaved": [[0, 2], [1, 3, 4]]}.items():
            for shape in ((), (2,)):
                tv = _TensorViewer([np.asarray(i) for i in idx])
                pdfs = [Fake(k, len(ix)) for k, ix in enumerate(idx)]
                out = np.asarray(Simultaneous(pdfs, tv).sample(shape))
                for k, ix in enumerate(idx):
                    want = pdfs[k].sample(shape)
                    got = out[..., ix]
                    if got.shape != want.shape or not np.array_equal(got, want):
                        bad[f"{lname},shape={shape},constituent{k}"] = {"positions": ix, "got": got.tolist(), "drawn": want.tolist()}
        return {"reproduced": bool(bad), "disagreements": bad}
    if "EmpiricalDistribution" in name or "pvalues" in name:
        s = np.asarray([0.0, 1.0, 1.0, 2.5, 2.5, 2.5, 7.0])
        d = EmpiricalDistribution(s)
        prev = None
        for v in (-1.0, 0.0, 0.5, 1.0, 2.5, 2.6, 7.0, 8.0):
            want = float(np.sum(s >= v)) / len(s)
            got = float(d.pvalue(v))
            if abs(got - want) > 1e-12 or not (0 <= got <= 1) or (prev is not None and got > prev + 1e-15):
                bad[f"pvalue({v})"] = {"got": got, "oracle": want}
            prev = got
        d2 = EmpiricalDistribution(np.asarray([[3.0, 1.0], [2.0, 1.0]]))
        if abs(float(d2.pvalue(1.0)) - 1.0) > 1e-12 or abs(float(d2.pvalue(2.0)) - 0.5) > 1e-12:
            bad["2-d samples"] = "not flattened / wrong fraction"
        if "pvalues" in name:
            class P:
                config = None
            calc = ToyCalculator.__new__(ToyCalculator)
            sb, b = EmpiricalDistribution(np.asarray([0.0, 1.0, 2.0, 3.0])), EmpiricalDistribution(np.asarray([1.0, 2.0, 3.0, 4.0]))
            CLsb, CLb, CLs = (float(x) for x in calc.pvalues(2.0, sb, b))
            if (CLsb, CLb) != (0.5, 0.75) or abs(CLs - 0.5 / 0.75) > 1e-12:
                bad["pvalues"] = (CLsb, CLb, CLs)
        return {"reproduced": bool(bad), "disagreements": bad}
    if "ToyCalculator.distributions" in name:
        import pyhf.infer.calculators as C
        calls = {"fits": [], "stats": []}

        class FakePdf:
            def __init__(self, pars): self.pars = pars
            def sample(self, shape): return [("toy", self.pars, i) for i in range(shape[0])]

        class Model:
            class config:
                poi_index = 0
                @staticmethod
                def suggested_init(): return [1.0]
                @staticmethod
                def suggested_bounds(): return [(0, 10)]
                @staticmethod
                def suggested_fixed(): return [False]
            def make_pdf(self, pars): return FakePdf(pars)
        saved = (C.fixed_poi_fit, C.utils.get_test_stat)
        fit_args = []

        def fake_fixed_poi_fit(mu, data, pdf, init_pars=None, par_bounds=None, fixed_params=None, **k):
            calls["fits"].append(mu)
            fit_args.append((init_pars, par_bounds, fixed_params))
            return ("pars@", mu)
        C.fixed_poi_fit = fake_fixed_poi_fit
        C.utils.get_test_stat = lambda nm: (lambda poi, sample, *a, **k: (calls["stats"].append((poi, sample)) or float(len(calls["stats"]))))
        try:
            for ts, bkgmu in (("qtilde", 0.0), ("q", 0.0), ("q0", 1.0)):
                calls["fits"].clear(); calls["stats"].clear()
                del fit_args[:]
                # the caller's own settings (not the model's suggestions; POI lower bound below 0) must reach both conditional fits
                mine = ([3.3], [(-5.0, 10.0)], [False])
                calc = C.ToyCalculator([1.0], Model(), init_pars=mine[0], par_bounds=mine[1], fixed_params=mine[2], test_stat=ts, ntoys=3, track_progress=False)
                sb, b = calc.distributions(2.5)
                if any((list(a[0] or []), list(a[1] or []), list(a[2] or [])) != (mine[0], mine[1], mine[2]) for a in fit_args) or len(fit_args) != 2:
                    bad[f"fit-settings@{ts}"] = {"passed to ToyCalculator": mine, "received by the fits": fit_args}
                if calls["fits"] != [2.5, bkgmu]:
                    bad[f"fits@{ts}"] = list(calls["fits"])
                want = [(2.5, ("toy", ("pars@", 2.5), i)) for i in range(3)] + [(2.5, ("toy", ("pars@", bkgmu), i)) for i in range(3)]
                if calls["stats"] != want:
                    bad[f"statistics@{ts}"] = {"got": calls["stats"][:6], "oracle": want}
                if list(np.asarray(sb.samples)) != [1.0, 2.0, 3.0] or list(np.asarray(b.samples)) != [4.0, 5.0, 6.0]:
                    bad[f"distributions@{ts}"] = (list(np.asarray(sb.samples)), list(np.asarray(b.samples)))
        finally:
            C.fixed_poi_fit, C.utils.get_test_stat = saved
        return {"reproduced": bool(bad), "disagreements": bad}
    return None
