"""Skeleton-bounded symbolic execution of the whole model pipeline (DESIGN.md 2.8 B2).

A *skeleton* fixes the structure of a specification (channels, samples, bins, modifier names and
types, listing order); every number in it (yields, variations, uncertainties, settings) is a z3
Real.  The real Model.__init__ -> expected_data / logpdf code is executed by the symbolic
interpreter on it (index arrays and masks are concrete and are evaluated by CPython / numpy, yields
and parameters are symbolic), and the resulting closed forms are compared with the independent
oracle for ALL parameter values, yields and data.  The skeleton space is bounded and stated in the
evidence; within a skeleton the statement is proved, not sampled."""
import itertools
import random

import z3

from pyvc.tensor import PT
from pyvc.values import NativeFn, Rec, Unsupported
from . import hf_oracle as O

INTERP = "interpolators"


# ---------------------------------------------------------------- policy
def interpolator_contract(code):
    """C03 contract of code*(histogramssets): __call__(alphasets)[m,s,a,g] = I_code(alpha[m,a]; triple[m][s][:, g])"""
    def ctor(eng, call):
        from pyvc.tensor import lift
        hist = lift(eng, call.args[0])            # (M, S, 3, G), concrete shape

        def apply(alphasets):
            al = lift(eng, alphasets)
            M, S, _, G = hist.shape
            A = al.shape[1]

            def fn(idx):
                m, s, a, g = idx
                d, n, u = (hist.fn((m, s, z3.IntVal(k), g)) for k in range(3))
                return O.interp(O.ZOps, code, al.fn((m, a)), d, n, u)
            return PT((M, S, A, G), fn, "real")
        return NativeFn(f"{code}-contract", apply)
    return ctor


def pipeline_policy(extra=None):
    pol = {"default": "inline",
           "schema/validator.py::validate": lambda eng, c: None,
           "events.py::subscribe": lambda eng, c: NativeFn("subscribe-decorator", lambda f: f)}
    for code in ("code0", "code1", "code2", "code4", "code4p"):
        pol[f"{INTERP}/{code}.py::{code}"] = interpolator_contract(code)
    import pyhf.schema as _schema          # the schema module keeps its settings on a module subclass: read natively
    pol[("module_attr", "pyhf.schema", "version")] = str(_schema.version)
    pol.update(extra or {})
    return pol


# ---------------------------------------------------------------- skeletons
class Sym:
    """factory of symbolic leaves; remembers them (all assumed > 0 unless stated)"""

    def __init__(self, prefix=""):
        self.prefix, self.leaves = prefix, {}

    def __call__(self, name):
        v = z3.Real(self.prefix + name)
        self.leaves[self.prefix + name] = v
        return v

    def positivity(self):
        return [v > 0 for v in self.leaves.values()]


def mod(sym, mtype, name, path, nbins):
    if mtype in ("normfactor", "shapefactor", "lumi"):
        data = None
    elif mtype == "normsys":
        data = {"hi": sym(f"{path}.hi"), "lo": sym(f"{path}.lo")}
    elif mtype == "histosys":
        data = {"hi_data": [sym(f"{path}.hi{b}") for b in range(nbins)], "lo_data": [sym(f"{path}.lo{b}") for b in range(nbins)]}
    elif mtype in ("shapesys", "staterror"):
        data = [sym(f"{path}.u{b}") for b in range(nbins)]
    else:
        raise ValueError(mtype)
    return {"name": name, "type": mtype, "data": data}


def build_spec(skel, sym=None):
    """skel: {'channels': [(cname, nbins, [(sname, [(mtype, mname), ...]), ...]), ...], 'parameters': [...], 'poi': name}"""
    sym = sym or Sym()
    channels = []
    for cname, nbins, samples in skel["channels"]:
        ss = []
        for sname, mods in samples:
            p = f"{cname}.{sname}"
            ss.append({"name": sname, "data": [sym(f"{p}.n{b}") for b in range(nbins)],
                       "modifiers": [mod(sym, t, n, f"{p}.{t}.{n}", nbins) for t, n in mods]})
        channels.append({"name": cname, "samples": ss})
    spec = {"channels": channels}
    # optional exact zeros (a yield or an uncertainty that vanishes): the named leaves become the concrete number 0.0
    for leaf in skel.get("zeros", []):
        _set_leaf(spec, sym, leaf)
    pars = []
    if any(t == "lumi" for _, _, ss in skel["channels"] for _, ms in ss for t, _ in ms):
        pars.append({"name": "lumi", "auxdata": [sym("lumi.aux")], "sigmas": [sym("lumi.sigma")], "bounds": [[0.0, 10.0]], "inits": [1.0]})
    pars += skel.get("parameters", [])
    if pars:
        spec["parameters"] = pars
    return spec, sym


def _set_leaf(spec, sym, leaf):
    target = sym.leaves.pop(getattr(sym, "prefix", "") + leaf, None) if hasattr(sym, "leaves") else None
    if target is not None and not z3.is_expr(target):
        target = None

    def walk(x):
        if isinstance(x, list):
            for k, v in enumerate(x):
                if (target is not None and z3.is_expr(v) and v.eq(target)) or (target is None and False):
                    x[k] = 0.0
                else:
                    walk(v)
        elif isinstance(x, dict):
            for k, v in x.items():
                if target is not None and z3.is_expr(v) and v.eq(target):
                    x[k] = 0.0
                else:
                    walk(v)
    if target is not None:
        walk(spec)
    else:
        # numeric factory (native replay): address the leaf by its path c.s.nB / c.s.type.name.uB
        parts = leaf.split(".")
        for c in spec["channels"]:
            if c["name"] != parts[0]:
                continue
            for s_ in c["samples"]:
                if s_["name"] != parts[1]:
                    continue
                if len(parts) == 3 and parts[2].startswith("n"):
                    s_["data"][int(parts[2][1:])] = 0.0
                elif len(parts) == 5:
                    for m in s_["modifiers"]:
                        if m["type"] == parts[2] and m["name"] == parts[3] and isinstance(m["data"], list):
                            m["data"][int(parts[4][1:])] = 0.0


CURATED = [
    ("1c1s-normfactor", {"channels": [("c1", 2, [("sig", [("normfactor", "mu")])])], "poi": "mu"}),
    ("1c2s-normfactor-shapesys", {"channels": [("c1", 2, [("sig", [("normfactor", "mu")]), ("bkg", [("shapesys", "unc")])])], "poi": "mu"}),
    ("1c2s-normsys-histosys-shared-name", {"channels": [("c1", 2, [("sig", [("normfactor", "mu"), ("normsys", "syst")]), ("bkg", [("histosys", "syst"), ("normsys", "syst")])])], "poi": "mu"}),
    ("2c-different-nbins-staterror", {"channels": [("a", 1, [("sig", [("normfactor", "mu")]), ("bkg", [("staterror", "st_a")])]),
                                                    ("b", 2, [("bkg", [("staterror", "st_b")]), ("sig", [("normfactor", "mu"), ("staterror", "st_b")])])], "poi": "mu"}),
    ("2c-shared-normsys-across-channels", {"channels": [("z", 2, [("bkg", [("normsys", "n1"), ("histosys", "h1")])]),
                                                         ("y", 1, [("sig", [("normfactor", "mu"), ("normsys", "n1")]), ("bkg", [("normsys", "n2")])])], "poi": "mu"}),
    ("lumi-and-shapefactor", {"channels": [("c1", 2, [("sig", [("normfactor", "mu"), ("lumi", "lumi")]), ("bkg", [("shapefactor", "sf"), ("lumi", "lumi")])])], "poi": "mu"}),
    ("shapefactor-shared-equal-bins", {"channels": [("c1", 2, [("bkg", [("shapefactor", "sf")]), ("sig", [("normfactor", "mu")])]),
                                                     ("c2", 2, [("bkg", [("shapefactor", "sf"), ("normsys", "n1")])])], "poi": "mu"}),
    ("sample-absent-from-second-channel", {"channels": [("c1", 1, [("sig", [("normfactor", "mu")]), ("bkg", [("normsys", "n1")])]),
                                                         ("c2", 2, [("bkg", [("normsys", "n1"), ("shapesys", "s2")])])], "poi": "mu"}),
    ("all-seven-types", {"channels": [("c1", 2, [("sig", [("normfactor", "mu"), ("lumi", "lumi"), ("normsys", "n1"), ("histosys", "h1")]),
                                                  ("bkg", [("shapesys", "ss"), ("staterror", "st"), ("shapefactor", "sf"), ("histosys", "h1")])])], "poi": "mu"}),
    ("staterror-sample-with-zero-nominal-bin", {"channels": [("c1", 2, [("sig", [("normfactor", "mu"), ("staterror", "st")]), ("bkg", [("staterror", "st"), ("normsys", "n1")])])],
                                                "poi": "mu", "zeros": ["c1.sig.n0"]}),
    # a staterror shared by two samples of which one (a data-driven background) declares no MC uncertainty at all: it is still
    # scaled by gamma and its yield still counts in the denominator of the relative uncertainty
    ("staterror-shared-with-sample-without-mc-uncertainty", {"channels": [("c1", 2, [("sig", [("normfactor", "mu"), ("staterror", "st")]), ("bkg", [("staterror", "st")])])],
                                                             "poi": "mu", "zeros": ["c1.bkg.staterror.st.u0", "c1.bkg.staterror.st.u1"]}),
    ("mixed-constraint-widths", {"channels": [("c1", 2, [("sig", [("normfactor", "mu"), ("normsys", "n1")]), ("bkg", [("shapesys", "ss"), ("histosys", "a_h")])]),
                                               ("c2", 3, [("bkg", [("staterror", "st"), ("histosys", "z_h")])])], "poi": "mu"}),
    ("constraint-names-against-channel-order", {"channels": [("c1", 3, [("bkg", [("shapesys", "z_ss"), ("staterror", "z_st")])]),
                                                              ("c2", 2, [("bkg", [("shapesys", "a_ss"), ("staterror", "a_st")]), ("sig", [("normfactor", "mu")])])], "poi": "mu"}),
    ("listing-order-unsorted", {"channels": [("zz", 1, [("y", [("normsys", "b"), ("normfactor", "mu"), ("histosys", "a")]), ("x", [("staterror", "st"), ("normsys", "a")])]),
                                              ("aa", 2, [("x", [("staterror", "st2"), ("histosys", "a")])])], "poi": "mu"}),
]

TYPES = ["normfactor", "normsys", "histosys", "shapesys", "staterror", "shapefactor", "lumi"]


def random_skeleton(rng, k):
    nch = rng.choice([1, 2, 2, 3])
    cnames = rng.sample(["c1", "c2", "a0", "zz"], nch)
    snames_pool = ["sig", "bkg", "qcd"]
    used_shapesys = set()
    channels = []
    for ci, cname in enumerate(cnames):
        nbins = rng.choice([1, 2, 2, 3])
        ns = rng.choice([1, 2, 2])
        samples = []
        for sname in rng.sample(snames_pool, ns):
            mods = []
            for t in rng.sample(TYPES, rng.choice([0, 1, 2, 3])):
                if t == "lumi":
                    name = "lumi"
                elif t == "shapesys":
                    name = f"ss_{cname}_{sname}"          # shapesys may not be shared
                elif t == "staterror":
                    name = f"st_{cname}"                   # shared by the samples of one channel
                elif t == "shapefactor":
                    name = f"sf_{cname}"
                else:
                    name = rng.choice(["p1", "p2", "mu"])  # scalar parameters shared by name across samples, channels and types
                if t == "normfactor" and name != "mu":
                    name = "mu" if rng.random() < 0.5 else name
                if (t, name) not in mods:
                    mods.append((t, name))
            # one scalar name must not be both constrained and unconstrained
            scalars = {}
            clean = []
            for t, n in mods:
                fam = "free" if t == "normfactor" else ("normal" if t in ("normsys", "histosys") else t)
                if t in ("normfactor", "normsys", "histosys"):
                    if scalars.setdefault(n, fam) != fam:
                        continue
                clean.append((t, n))
            samples.append((sname, clean))
        channels.append((cname, nbins, samples))
    # global consistency of scalar names across the whole skeleton
    fam_of = {}
    out = []
    for cname, nbins, samples in channels:
        ss = []
        for sname, mods in samples:
            ms = []
            for t, n in mods:
                if t in ("normfactor", "normsys", "histosys"):
                    fam = "free" if t == "normfactor" else "normal"
                    if fam_of.setdefault(n, fam) != fam:
                        continue
                ms.append((t, n))
            ss.append((sname, ms))
        out.append((cname, nbins, ss))
    if not any(ms for _, _, ss in out for _, ms in ss):
        out[0][2][0][1].append(("normfactor", "mu"))
    has_mu = any(t == "normfactor" and n == "mu" for _, _, ss in out for _, ms in ss for t, n in ms)
    return (f"random{k}", {"channels": out, "poi": "mu" if has_mu else None})


def skeletons(tier, seed):
    n_random = 6 if tier == "quick" else 40
    rng = random.Random(1000 + int(seed))
    return CURATED + [random_skeleton(rng, k) for k in range(n_random)]


# ---------------------------------------------------------------- running the real pipeline
def make_model(eng, spec, poi, **kwargs):
    M = eng.module("pdf.py").get("Model")
    kw = dict(kwargs)
    if poi is not None:
        kw["poi_name"] = poi
    return eng.instantiate(M, [spec], kw)


def layout_of(eng, model):
    """the layout the real configuration reports, read off the interpreted object"""
    cfg = eng.getattr(model, "config")
    channels = list(eng.getattr(cfg, "channels"))
    nb = dict(eng.getattr(cfg, "channel_nbins"))
    par_map = cfg.attrs["par_map"]
    slices = {k: (v["slice"].start, v["slice"].stop) for k, v in par_map.items()}
    ms = cfg.attrs.get("modifier_settings", {})
    codes = {k: v["interpcode"] for k, v in ms.items() if isinstance(v, dict) and "interpcode" in v}
    return O.Layout(channels, nb, slices, list(cfg.attrs["auxdata_order"]), cfg.attrs["npars"], codes)


def theta_vec(n, prefix="th"):
    return [z3.Real(f"{prefix}{i}") for i in range(n)]


def elements(t, n):
    """the n elements of a rank-1 tensor / list as z3 terms"""
    if isinstance(t, PT):
        return [t.fn((z3.IntVal(i),)) for i in range(n)]
    return list(t)
