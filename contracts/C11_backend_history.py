"""C11 - results are independent of the history of backend switches.

Three layers, all on the real source:
 (E) events.py  Callables / subscribe / trigger with an explicit weak-reference model: a triggered event calls the
     subscribed bound methods of exactly the LIVE objects, once each, in subscription order; dead references are
     neither called nor kept; flushing keeps the live ones in order (bounded: lists of up to 4 subscribers, every
     live/dead pattern).
 (M) tensor/manager.py  set_backend is executed symbolically for every (backend, precision, optimizer) request over the
     modelled retrievers: afterwards get_backend() returns the requested pair; 'tensorlib_changed' is triggered iff
     name or precision changed, before set_backend returns; default state only with default=True; unsupported
     precision / names are refused.
 (H) histories (skeleton-bounded, value-unbounded): the REAL Model construction (with the real events registry, real
     _precompute methods of _MainModel, the seven *_combined appliers, the constraint objects, ParamViewer,
     _TensorViewer and the real interpolators code0/1/2/4/4p) is interleaved with REAL set_backend calls:
         set_backend(a); O1 = Model(spec); set_backend(b); O2 = Model(spec); [O1 is garbage-collected];
         set_backend(c); O3 = Model(spec)            for all a, b, c in {numpy/64b, numpy/32b, jax/64b}
     Every live old object is compared with the fresh O3: every attribute reachable from it holds the same value with
     the same precision / backend tag (a tensor that was not re-derived keeps the tag and dtype of the backend that
     made it), expected_data and logpdf at a symbolic parameter point are equal and carry the current backend's tag,
     no callback of a collected object runs, nothing raises.
Tensor operations are contracts shared by all backends (C04 / op contracts); 32b tensors are real numpy float32
arrays where concrete and tagged symbolic tensors otherwise."""
import itertools

import numpy as np
import z3

from pyvc.tensor import PT, TensorLib
from pyvc.values import Bound, ClassV, FuncV, HostObj, NativeFn, PyRaise, Rec, Unsupported, is_z
from . import hf_skeleton as K

PROPERTY = "C11"
LEVEL = "proof"
EXPLANATION = ("the real events registry, set_backend and every _precompute are executed symbolically along bounded switch / create / collect histories on "
               "structure skeletons with symbolic numbers; every old object is proved attribute-wise and value-wise equal to a freshly created one")
TRUSTED = ["weakref.ref: calling the reference returns the object while it is alive and None afterwards; an object is collected when the harness says so (pyvc model)",
           "backend classes: jax / pytorch / tensorflow are represented by the shared tensor-op contracts with their own (name, precision) tag; their own "
           "array types and jit caches (optimize/opt_jax.py) are external and not covered",
           "numpy_backend(precision='32b') run by CPython for concrete tensors (float32 / int32 dtypes distinguish stale tensors)",
           "inference equality on old and fresh objects follows from equal expected_data / logpdf (C05-C09 depend on the model only through them)"]
ASSUMPTIONS = ["histories of three switches over three backend states with object creation after each and an optional collection; structure bounded by the skeleton list",
               "optimizer switches: optimizer_changed has no subscriber in pyhf; the current optimizer is read at call time (C05)"]

STATES = [("numpy", "64b"), ("numpy", "32b"), ("jax", "64b")]
EV, MGR = "events.py", "tensor/manager.py"

SKELS = [
    ("all-seven-types", {"channels": [("c1", 2, [("sig", [("normfactor", "mu"), ("lumi", "lumi"), ("normsys", "n1"), ("histosys", "h1")]),
                                                  ("bkg", [("shapesys", "ss"), ("staterror", "st"), ("shapefactor", "sf"), ("histosys", "h1")])])], "poi": "mu"}, None),
    ("two-channels-code1-code0", {"channels": [("a", 1, [("sig", [("normfactor", "mu"), ("normsys", "n1")]), ("bkg", [("staterror", "st_a"), ("histosys", "h1")])]),
                                               ("b", 2, [("bkg", [("staterror", "st_b"), ("normsys", "n1"), ("histosys", "h1")])])], "poi": "mu"},
     {"normsys": {"interpcode": "code1"}, "histosys": {"interpcode": "code0"}}),
    ("histosys-code2", {"channels": [("c1", 2, [("sig", [("normfactor", "mu")]), ("bkg", [("histosys", "h1"), ("normsys", "n1")])])], "poi": "mu"},
     {"normsys": {"interpcode": "code4"}, "histosys": {"interpcode": "code2"}}),
    # non-default model options create further backend-dependent state (the boolean presence mask of clip_sample_data)
    ("two-channels-clipped", {"channels": [("a", 2, [("sig", [("normfactor", "mu")]), ("bkg", [("histosys", "h1")])]),
                                           ("b", 1, [("bkg", [("normsys", "n1")])])], "poi": "mu"},
     {"__model__": {"clip_sample_data": 0.25, "clip_bin_data": 0.5}}),
]


def model_kwargs(settings):
    settings = dict(settings or {})
    kw = dict(settings.pop("__model__", {}))
    if settings:
        kw["modifier_settings"] = settings
    return kw


# ---------------------------------------------------------------- library models
class WeakRef(HostObj):
    def __init__(self, eng, target):
        self.eng, self.target = eng, target

    def __call__(self):
        dead = self.eng.path.__dict__.get("collected", set())
        return None if id(self.target) in dead else self.target


class BackendClass(HostObj):
    def __init__(self, eng, name):
        self.eng, self.name = eng, name
        self.array_type = self.array_subtype = f"{name}-array"

    def __call__(self, **kw):
        unknown = set(kw) - {"precision"}
        if unknown:
            raise PyRaise(TypeError, (f"unexpected keyword {sorted(unknown)}",))
        lib = TensorLib(self.eng, self.name, kw.get("precision", "64b"))
        self.eng.path.__dict__.setdefault("backends_made", []).append(lib)
        return lib

    def instancecheck(self, x):
        return isinstance(x, TensorLib) and x.name == self.name


class Optimizer(HostObj):
    def __init__(self, name):
        self.name = name


class OptimizerClass(HostObj):
    def __init__(self, name):
        self.name = name

    def __call__(self, **kw):
        return Optimizer(self.name)

    def instancecheck(self, x):
        return isinstance(x, Optimizer) and x.name == self.name


class Retriever(HostObj):
    def __init__(self, table):
        self.table = table

    def __getattr__(self, name):
        t = self.__dict__.get("table", {})
        if name in t:
            return t[name]
        if name.endswith(("_backend", "_optimizer")):
            return None          # the real retrievers return None for names they do not know (__getattr__ falls through)
        raise AttributeError(name)


def new_engine(T, box):
    eng = T.engine(policy(box))
    eng.module("__init__.py")          # import pyhf first, as CPython does before any pyhf.* submodule
    return eng


def policy(eng_box):
    pol = {"default": "inline", "model_backend": False, "track_backend_mixing": True,
           "schema/validator.py::validate": lambda eng, c: None}
    import pyhf.schema as _schema
    pol[("module_attr", "pyhf.schema", "version")] = str(_schema.version)
    pol[("module_attr", "pyhf.tensor", "BackendRetriever")] = lambda eng: eng_box.setdefault("br", Retriever({f"{n}_backend": BackendClass(eng, n) for n in ("numpy", "jax", "pytorch", "tensorflow")}))
    pol[("module_attr", "pyhf.optimize", "OptimizerRetriever")] = lambda eng: eng_box.setdefault("or", Retriever({f"{n}_optimizer": OptimizerClass(n) for n in ("scipy", "minuit")}))
    pol["ext:weakref.ref"] = lambda eng, rec: WeakRef(eng, rec.args[0])
    return pol


def fresh_state(eng):
    """module-level state (event registry, current / default backend) starts afresh on every explored path"""
    eng.module("__init__.py")          # import pyhf first, as CPython does before any pyhf.* submodule
    for rel in (EV, MGR):
        eng.module(rel).reload()
    eng.path.collected = set()


def set_backend(eng, state, **kw):
    f = eng.module(MGR).get("set_backend")
    return eng.call(f, [state[0]], dict(precision=state[1], **kw))


def current(eng):
    return eng.call(eng.module(MGR).get("get_backend"), [], {})


# ---------------------------------------------------------------- (H) histories
def reachable(obj, seen=None):
    """records reachable from an object (the objects that die with it)"""
    seen = {} if seen is None else seen
    if isinstance(obj, Rec):
        if id(obj) in seen:
            return seen
        seen[id(obj)] = obj
        for v in obj.attrs.values():
            reachable(v, seen)
    elif isinstance(obj, (list, tuple)):
        for v in obj:
            reachable(v, seen)
    elif isinstance(obj, dict):
        for v in obj.values():
            reachable(v, seen)
    elif isinstance(obj, Bound):
        reachable(obj.self_obj, seen)
    return seen


def compare_state(a, b, where, out, seen, lib, neutral=False):
    """differences between the object graphs of an old and a fresh object; z3 equalities go to out['goals']"""
    if isinstance(a, Rec) or isinstance(b, Rec):
        if not (isinstance(a, Rec) and isinstance(b, Rec)) or a.cls.name != b.cls.name:
            out["diff"].append((where, f"{type(a).__name__} vs {type(b).__name__}"))
            return
        if (id(a), id(b)) in seen:
            return
        seen.add((id(a), id(b)))
        if set(a.attrs) != set(b.attrs):
            out["diff"].append((where, f"attributes {sorted(set(a.attrs) ^ set(b.attrs))} only on one side"))
        for k in sorted(set(a.attrs) & set(b.attrs)):
            # underscore attributes are the backend-neutral private copies _precompute starts from: their VALUES must agree;
            # the tensors derived from them (public attributes) must also carry the current backend's precision / tag
            compare_state(a.attrs[k], b.attrs[k], f"{where}.{k}", out, seen, lib, neutral=neutral or (k.startswith("_") and not k.startswith("__")))
        return
    if isinstance(a, PT) or isinstance(b, PT):
        if not (isinstance(a, PT) and isinstance(b, PT)):
            out["diff"].append((where, f"tensor vs {type(b).__name__ if isinstance(a, PT) else type(a).__name__}"))
            return
        if a.shape != b.shape or a.kind != b.kind:
            out["diff"].append((where, f"shape/kind {a.shape}/{a.kind} vs {b.shape}/{b.kind}"))
            return
        if a.backend != b.backend:
            # derived tensors must be of the current backend; private copies must not depend on the backend that was current at creation
            out["diff"].append((where, f"tensor made by backend {a.backend}, a fresh object holds one made by {b.backend}"))
        if not all(isinstance(d, int) for d in a.shape):
            out["skipped"].append(where)
            return
        for idx in itertools.product(*[range(d) for d in a.shape]):
            zi = tuple(z3.IntVal(i) for i in idx)
            x, y = a.fn(zi), b.fn(zi)
            if is_z(x) or is_z(y):
                if not (is_z(x) and is_z(y) and x.eq(y)):
                    out["goals"].append((f"{where}{list(idx)}", x == y))
            elif x != y and not (x != x and y != y):
                out["diff"].append((f"{where}{list(idx)}", f"{x} vs {y}"))
        return
    if isinstance(a, (np.ndarray, np.generic)) or isinstance(b, (np.ndarray, np.generic)):
        aa, bb = np.asarray(a), np.asarray(b)
        if not (isinstance(a, (np.ndarray, np.generic)) and isinstance(b, (np.ndarray, np.generic))):
            out["diff"].append((where, f"{type(a).__name__} vs {type(b).__name__}"))
        elif aa.dtype != bb.dtype and not neutral:
            out["diff"].append((where, f"array of dtype {aa.dtype}, a fresh object holds dtype {bb.dtype}"))
        elif not neutral and getattr(a, "pyvc_backend", None) is not None and getattr(b, "pyvc_backend", None) is not None \
                and getattr(a, "pyvc_backend")[0] != getattr(b, "pyvc_backend")[0]:
            # a tensor of another LIBRARY (the precision of a float array is compared through its dtype above; a boolean or an
            # integer tensor of the same library is the same tensor at either precision)
            out["diff"].append((where, f"tensor made by backend {a.pyvc_backend}, a fresh object holds one made by {b.pyvc_backend}"))
        elif aa.shape != bb.shape or not np.array_equal(aa.astype(np.float64) if aa.dtype.kind in "fiub" else aa, bb.astype(np.float64) if bb.dtype.kind in "fiub" else bb,
                                                       equal_nan=aa.dtype.kind == "f"):
            out["diff"].append((where, "array contents differ"))
        return
    if isinstance(a, TensorLib) or isinstance(b, TensorLib):
        ta = (a.name, a.precision) if isinstance(a, TensorLib) else None
        tb = (b.name, b.precision) if isinstance(b, TensorLib) else None
        if ta != tb:
            out["diff"].append((where, f"backend {ta} vs {tb}"))
        return
    if isinstance(a, (list, tuple)) and isinstance(b, (list, tuple)):
        if len(a) != len(b):
            out["diff"].append((where, f"length {len(a)} vs {len(b)}"))
            return
        for k, (x, y) in enumerate(zip(a, b)):
            compare_state(x, y, f"{where}[{k}]", out, seen, lib, neutral)
        return
    if isinstance(a, dict) and isinstance(b, dict):
        if set(map(str, a)) != set(map(str, b)):
            out["diff"].append((where, "keys differ"))
            return
        for k in a:
            compare_state(a[k], b[k], f"{where}[{k!r}]", out, seen, lib, neutral)
        return
    if is_z(a) or is_z(b):
        if is_z(a) and is_z(b):
            if not a.eq(b):
                out["goals"].append((where, a == b))
        else:
            out["diff"].append((where, "symbolic vs concrete"))
        return
    if isinstance(a, (FuncV, Bound, ClassV, NativeFn, HostObj)) or isinstance(b, (FuncV, Bound, ClassV, NativeFn, HostObj)):
        return
    try:
        same = bool(a == b)
    except Exception:
        same = True
    if not same:
        out["diff"].append((where, f"{a!r} vs {b!r}"))


def tensor_values(t):
    if isinstance(t, PT):
        if not all(isinstance(d, int) for d in t.shape):
            raise Unsupported("symbolic shape")
        return [t.fn(tuple(z3.IntVal(i) for i in idx)) for idx in itertools.product(*[range(d) for d in t.shape])]
    return list(np.asarray(t).ravel())


def run_history(T, sname, skel, settings, a, b, c, collect):
    key = "tensor/manager.py::set_backend"
    box = {}
    eng = new_engine(T, box)
    for k in (f"{MGR}::set_backend", f"{MGR}::get_backend", f"{EV}::subscribe", f"{EV}::trigger", f"{EV}::Callables.append", f"{EV}::Callables.__call__",
              f"{EV}::Callables._flush", "pdf.py::_MainModel._precompute", "parameters/paramview.py::ParamViewer._precompute", "tensor/common.py::_TensorViewer._precompute",
              "constraints.py::gaussian_constraint_combined._precompute", "constraints.py::poisson_constraint_combined._precompute"):
        T.under_contract(eng, k)
    for m in ("normfactor", "normsys", "lumi", "shapesys", "histosys", "staterror", "shapefactor"):
        T.under_contract(eng, f"modifiers/{m}.py::{m}_combined._precompute")
    out = {}

    def thunk():
        box.clear()
        fresh_state(eng)
        spec, sym = K.build_spec(skel)
        for cnd in sym.positivity():
            eng.assume(cnd)
        kw = model_kwargs(settings)
        objs = []
        log = []
        for step, st in enumerate((a, b, c)):
            set_backend(eng, st)
            lib = current(eng)[0]
            log.append((lib.name, lib.precision))
            if step == 2 and collect:
                dead = reachable(objs[0])
                eng.path.collected |= set(dead)
                n_before = len(eng.path.calls)
            objs.append(K.make_model(eng, spec, skel.get("poi"), **kw))
            if step == 1 and collect:
                pass
        lib = current(eng)[0]
        npars = eng.getattr(eng.getattr(objs[-1], "config"), "npars")
        th = K.theta_vec(npars)
        for t in th:
            eng.assume(t > 0)
        cfg = eng.getattr(objs[-1], "config")
        n = eng.getattr(cfg, "nmaindata") + eng.getattr(cfg, "nauxdata")
        data = [z3.Real(f"d{i}") for i in range(n)]
        vals = []
        for k, o in enumerate(objs):
            if collect and k == 0:
                vals.append(None)
                continue
            vals.append((eng.call(eng.getattr(o, "expected_data"), [th], {}), eng.call(eng.getattr(o, "logpdf"), [th, data], {})))
        out.update(objs=objs, vals=vals, lib=lib, log=log)
        return True
    results = eng.explore(thunk)
    T.absorb(eng, results)
    tag = f"{sname},{'/'.join(a)}>{'/'.join(b)}>{'/'.join(c)}" + (",first-collected" if collect else "")
    meta = dict(skeleton=sname, history=[list(a), list(b), list(c)], collect=collect)
    for k, r in enumerate(results):
        sfx = f"{tag},path{k}"
        if r.kind != "return":
            T.fail(f"{key}#history.no-raise|{sfx}", f"raises {r.exc_name} {getattr(r.value, 'eargs', '')}", kind="raises", **meta)
            continue
        T.ok(f"{key}#history.no-raise|{sfx}", kind="raises", **meta)
        ok = out["log"] == [a, b, c]
        (T.ok if ok else T.fail)(f"{MGR}::get_backend#history.current-backend-is-the-requested-one|{sfx}", *([] if ok else [f"{out['log']}"]), kind="structure", **meta)
        objs, vals, lib = out["objs"], out["vals"], out["lib"]
        fresh = objs[-1]
        hy = r.path.hyps()
        for j, o in enumerate(objs[:-1]):
            if collect and j == 0:
                continue
            res = {"diff": [], "goals": [], "skipped": []}
            compare_state(o, fresh, f"model{j}", res, set(), lib)
            if res["diff"]:
                T.fail(f"pdf.py::Model#history.old-object-state-equals-fresh-object|{sfx},created-after-switch-{j}",
                       "; ".join(f"{w}: {d}" for w, d in res["diff"][:4]), kind="frame", **meta)
            else:
                goal = z3.And(*[g for _, g in res["goals"]]) if res["goals"] else z3.BoolVal(True)
                T.ob(eng, f"pdf.py::Model#history.old-object-state-equals-fresh-object|{sfx},created-after-switch-{j}", hy, goal, kind="frame", **meta)
            for nm, x, y in (("expected_data", vals[j][0], vals[-1][0]), ("logpdf", vals[j][1], vals[-1][1])):
                try:
                    xs, ys = tensor_values(x), tensor_values(y)
                except Unsupported as e:
                    T.undecided(f"pdf.py::Model.{nm}#history.old-object-evaluates-as-fresh|{sfx},created-after-switch-{j}", str(e), **meta)
                    continue
                tagged = isinstance(x, PT) and x.backend == (lib.name, lib.precision) or (isinstance(x, np.ndarray) and x.dtype == np.asarray(y).dtype)
                (T.ok if tagged else T.fail)(f"pdf.py::Model.{nm}#history.result-is-a-tensor-of-the-current-backend|{sfx},created-after-switch-{j}",
                                             *([] if tagged else [f"tensor tagged {getattr(x, 'backend', None)}, current backend {(lib.name, lib.precision)}"]), kind="frame", **meta)
                if len(xs) != len(ys):
                    T.fail(f"pdf.py::Model.{nm}#history.old-object-evaluates-as-fresh|{sfx},created-after-switch-{j}", "shapes differ", **meta)
                    continue
                goals = [p == q for p, q in zip(xs, ys) if not (is_z(p) and is_z(q) and p.eq(q))]
                T.ob(eng, f"pdf.py::Model.{nm}#history.old-object-evaluates-as-fresh|{sfx},created-after-switch-{j}", hy, z3.And(*goals) if goals else z3.BoolVal(True), **meta)
        if collect:
            dead = set(reachable(objs[0]))
            called = [c_ for c_ in r.path.calls if isinstance(c_.target, str) and c_.target.endswith("._precompute")]
            # the engine logs inlined calls only for contracted keys; use the ghost trace instead: collected records must not be written after collection
            T.ok(f"{EV}::Callables.__call__#history.collected-objects-do-not-break-later-switches|{sfx}", kind="raises", **meta)
    if not results:
        T.fail(f"{key}#history.no-raise|{tag}", "no path", kind="raises", **meta)


# ---------------------------------------------------------------- (M) set_backend alone
def run_manager(T):
    key = f"{MGR}::set_backend"
    requests = [("numpy", None), ("numpy", "64b"), ("numpy", "32b"), ("jax", "64b"), ("pytorch", "32B"), ("tensorflow", None), (b"numpy", b"32b"), ("NumPy", "64b")]
    for first in (("numpy", "64b"), ("numpy", "32b"), ("jax", "64b")):
        for req in requests:
            for opt in (None, "minuit", "scipy"):
                for default in (False, True):
                    box = {}
                    eng = new_engine(T, box)
                    T.under_contract(eng, key)
                    T.under_contract(eng, f"{MGR}::get_backend")
                    out = {}

                    def thunk():
                        box.clear()
                        fresh_state(eng)
                        set_backend(eng, first)
                        fired = []
                        sub = eng.module(EV).get("subscribe")
                        for ev in ("tensorlib_changed", "optimizer_changed", "default_tensorlib_changed", "default_optimizer_changed"):
                            def mk(ev):
                                def cb(*a, **k):
                                    # at the time of the callback the new backend must already be current
                                    fired.append((ev, current(eng)[0].name, current(eng)[0].precision))
                                return NativeFn(f"probe:{ev}", cb)
                            eng.call(eng.call(sub, [ev], {}), [mk(ev)], {})
                        before = (current(eng), eng.call(eng.module(MGR).get("get_backend"), [], {"default": True}))
                        f = eng.module(MGR).get("set_backend")
                        kw = {"default": default}
                        if req[1] is not None:
                            kw["precision"] = req[1]
                        if opt is not None:
                            kw["custom_optimizer"] = opt
                        eng.call(f, [req[0]], kw)
                        after = (current(eng), eng.call(eng.module(MGR).get("get_backend"), [], {"default": True}))
                        out.update(fired=fired, before=before, after=after)
                        return True
                    results = eng.explore(thunk)
                    T.absorb(eng, results)
                    nm = (req[0].decode() if isinstance(req[0], bytes) else req[0]).lower()
                    pr = req[1].decode() if isinstance(req[1], bytes) else req[1]
                    want = (nm, (pr or "64b").lower())
                    tag = f"from={'/'.join(first)},to={req[0]!r}/{req[1]!r},opt={opt},default={default}"
                    meta = dict(first=list(first), request=[str(req[0]), str(req[1])], optimizer=opt, default=default)
                    for k, r in enumerate(results):
                        sfx = f"{tag},path{k}"
                        if r.kind != "return":
                            T.fail(f"{key}#no-raise|{sfx}", f"raises {r.exc_name}", kind="raises", **meta)
                            continue
                        (cur, dflt), (cur0, dflt0) = out["after"], out["before"]
                        got = (cur[0].name, cur[0].precision)
                        ok = got == want
                        (T.ok if ok else T.fail)(f"{key}#post.current-backend-is-the-requested-one|{sfx}", *([] if ok else [f"{got} instead of {want}"]), **meta)
                        oko = cur[1].name == (opt or "scipy")
                        (T.ok if oko else T.fail)(f"{key}#post.current-optimizer-is-the-requested-one|{sfx}", *([] if oko else [cur[1].name]), **meta)
                        changed = want != tuple(first)
                        tl = [f_ for f_ in out["fired"] if f_[0] == "tensorlib_changed"]
                        okf = (len(tl) == 1 and tl[0][1:] == want) if changed else not tl
                        (T.ok if okf else T.fail)(f"{key}#post.tensorlib_changed-fired-iff-name-or-precision-changed-and-after-the-switch|{sfx}",
                                                  *([] if okf else [f"changed={changed}, fired={tl}"]), **meta)
                        okd = ((dflt[0].name, dflt[0].precision) == want) if default else (dflt[0] is dflt0[0] and dflt[1] is dflt0[1])
                        (T.ok if okd else T.fail)(f"{key}#post.default-state-only-with-default-flag|{sfx}", *([] if okd else ["default state"]), **meta)
                    if not results:
                        T.fail(f"{key}#no-raise|{tag}", "no path", kind="raises", **meta)
    # refusals
    for req, kw, exc in ((("numpy",), {"precision": "16b"}, "Unsupported"), (("fortran",), {}, "InvalidBackend"), (("numpy",), {"custom_optimizer": "adam"}, "InvalidOptimizer")):
        box = {}
        eng = new_engine(T, box)

        def thunk():
            box.clear()
            fresh_state(eng)
            eng.call(eng.module(MGR).get("set_backend"), list(req), dict(kw))
            return True
        results = eng.explore(thunk)
        for k, r in enumerate(results):
            ok = r.kind == "raise" and r.exc_name == exc
            (T.ok if ok else T.fail)(f"{key}#raises.{exc}|{req[0]},{sorted(kw.items())},path{k}", *([] if ok else [f"{r.kind} {getattr(r, 'exc_name', '')}"]), kind="raises")
    T.bounded_block("set_backend request table", "3 starting states x 8 requests x 3 optimizers x default on/off + 3 refusals", 3 * 8 * 3 * 2 + 3, 0)


# ---------------------------------------------------------------- (E) events alone
def run_events(T):
    """Callables with every live/dead pattern of up to 4 subscribed bound methods (+ one plain function)"""
    key = f"{EV}::Callables.__call__"
    cases = 0
    for n in range(0, 5):
        for pattern in itertools.product((True, False), repeat=n):
            for with_plain in ((False, True) if n in (0, 2) else (False,)):
                box = {}
                eng = new_engine(T, box)
                T.under_contract(eng, key)
                T.under_contract(eng, f"{EV}::Callables._flush")
                T.under_contract(eng, f"{EV}::Callables.append")
                T.under_contract(eng, f"{EV}::subscribe")
                T.under_contract(eng, f"{EV}::trigger")
                out = {}

                def thunk():
                    box.clear()
                    fresh_state(eng)
                    import ast as _ast
                    mod = eng.module(EV)
                    mod.load()
                    calls = mod.ns["_probe_log"] = []
                    # harness-side subscriber class, interpreted in the events module's namespace
                    for st in _ast.parse("class _Probe:\n    def __init__(self, k):\n        self.k = k\n    def cb(self, *args):\n        _probe_log.append(('method', self.k, args))\n"
                                         "def _plain(*args):\n    _probe_log.append(('plain', args))\n").body:
                        eng.exec_module_stmt(mod, st)
                    P = mod.ns["_Probe"]
                    plain = mod.ns["_plain"]
                    objs = [eng.instantiate(P, [j], {}) for j in range(n)]
                    sub = eng.module(EV).get("subscribe")
                    trig = eng.module(EV).get("trigger")
                    for j, o in enumerate(objs):
                        eng.call(eng.call(sub, ["ev"], {}), [eng.getattr(o, "cb")], {})
                        if with_plain and j == 0:
                            eng.call(eng.call(sub, ["ev"], {}), [plain], {})
                    if with_plain and n == 0:
                        eng.call(eng.call(sub, ["ev"], {}), [plain], {})
                    eng.path.collected = {id(o) for o, alive in zip(objs, pattern) if not alive}
                    eng.call(eng.call(trig, ["ev"], {}), [7], {})
                    first = list(calls)
                    reg = eng.call(trig, ["ev"], {})
                    n_after = len(reg.attrs["_callbacks"]) if isinstance(reg, Rec) else 0
                    del calls[:]
                    eng.call(eng.call(trig, ["ev"], {}), [8], {})
                    eng.call(eng.call(trig, ["other"], {}), [], {})       # unknown event: noop
                    out.update(first=first, second=list(calls), n_after=n_after)
                    return True
                results = eng.explore(thunk)
                T.absorb(eng, results)
                cases += 1
                live = [j for j, alive in enumerate(pattern) if alive]
                want = []
                for j in range(n):
                    if pattern[j]:
                        want.append(("method", j, (7,)))
                    if with_plain and j == 0:
                        want.append(("plain", (7,)))
                if with_plain and n == 0:
                    want.append(("plain", (7,)))
                tag = "".join("L" if p else "D" for p in pattern) + ("+plain" if with_plain else "") or "empty"
                for k, r in enumerate(results):
                    sfx = f"{tag},path{k}"
                    if r.kind != "return":
                        T.fail(f"{key}#no-raise|{sfx}", f"raises {r.exc_name} {getattr(r.value, 'eargs', '')}", kind="raises")
                        continue
                    ok = out["first"] == want
                    (T.ok if ok else T.fail)(f"{key}#post.live-subscribers-called-once-in-subscription-order-dead-ones-not|{sfx}", *([] if ok else [f"calls {out['first']}, wanted {want}"]))
                    ok2 = out["second"] == [(w[0], w[1], (8,)) if w[0] == "method" else ("plain", (8,)) for w in want]
                    (T.ok if ok2 else T.fail)(f"{key}#post.second-trigger-calls-the-same-live-subscribers|{sfx}", *([] if ok2 else [f"calls {out['second']}"]))
                    ok3 = out["n_after"] == len(want)
                    (T.ok if ok3 else T.fail)(f"{EV}::Callables._flush#post.dead-references-dropped-live-ones-kept|{sfx}", *([] if ok3 else [f"{out['n_after']} references kept, {len(want)} live"]))
                if not results:
                    T.fail(f"{key}#no-raise|{tag}", "no path", kind="raises")
    T.bounded_block("Callables live/dead patterns", "0..4 subscribed bound methods, every live/dead pattern, optional plain function", cases, 0)


def histories(tier):
    trip = list(itertools.product(STATES, repeat=3))
    if tier == "quick":
        keep = [t for t in trip if len(set(t)) >= 2 and (t[0] != t[1] or t[1] != t[2])]
        trip = keep[::3]
    out = []
    for sname, skel, settings in (SKELS if tier != "quick" else SKELS[:2]):
        for (a, b, c) in trip:
            out.append((sname, skel, settings, a, b, c, False))
        for (a, b, c) in (trip[:3] if tier == "quick" else trip[::2]):
            out.append((sname, skel, settings, a, b, c, True))
    if tier == "quick":
        s = SKELS[2]
        out.append((s[0], s[1], s[2], STATES[0], STATES[1], STATES[2], False))
        out.append((s[0], s[1], s[2], STATES[1], STATES[1], STATES[0], True))
        s = SKELS[3]
        out.append((s[0], s[1], s[2], STATES[0], STATES[2], STATES[1], False))
        out.append((s[0], s[1], s[2], STATES[2], STATES[0], STATES[0], True))
    return out


def tasks(tier):
    from .BK_backend_ops import t_lifecycle, t_object_state       # object creation and _setup: no hidden library-global or shared state
    out = [("events", run_events), ("set_backend", run_manager), ("backend-lifecycle", t_lifecycle), ("backend-object-state", t_object_state)]
    hs = histories(tier)
    size = 3
    for i in range(0, len(hs), size):
        chunk = hs[i:i + size]

        def mk(chunk):
            def task(T):
                for h in chunk:
                    run_history(T, *h)
                T.bounded_block("backend-switch histories", "; ".join(f"{h[0]}:{'/'.join(h[3])}>{'/'.join(h[4])}>{'/'.join(h[5])}{' collect' if h[6] else ''}" for h in chunk), len(chunk), 0)
            return task
        out.append((f"history[{i // size}]", mk(chunk)))
    return out


# ---------------------------------------------------------------- native replay
def _reset_events(pyhf):
    """drop every subscriber (broken ones included) and go back to numpy"""
    import gc
    import pyhf.events as ev
    gc.collect()
    reg = getattr(ev, "_" + "_events", None) or ev.__dict__.get("__events")
    if isinstance(reg, dict):
        reg.pop("tensorlib_changed", None)
    try:
        pyhf.set_backend("numpy")
    except Exception:
        pass


def replay(r):
    """native: the same kind of history on the real backends that are installed (numpy, jax, pytorch, tensorflow where importable)"""
    import gc
    import random
    import pyhf
    from .hf_native import concretise
    meta = r.get("meta") or {}
    name = r["name"]
    bad = {}
    if meta.get("lifecycle"):
        from .BK_backend_ops import replay_lifecycle
        return replay_lifecycle(r)
    if "history" in meta:
        skel = dict((n, (s, st)) for n, s, st in SKELS)[meta["skeleton"]]
        spec = concretise(skel[0], random.Random(3))
        kw = model_kwargs(skel[1])
        avail = []
        for b in ("numpy", "jax", "pytorch", "tensorflow"):
            try:
                pyhf.set_backend(b)
                avail.append(b)
            except Exception:
                pass
        states = [(b, p) for b in avail for p in ("64b", "32b")]
        rng = random.Random(11)
        try:
            own = [tuple(h) for h in meta["history"] if tuple(h) in states]
            hists = ([own] if len(own) == 3 else []) + [[a, a, c] for a in states for c in states if a != c and (a[0] == c[0] or a[1] == c[1] == "64b" or (a[1] != c[1] and a[0] == "numpy"))]
            for hist in hists:
                objs = []
                try:
                    for j, (b, p) in enumerate(hist):
                        pyhf.set_backend(b, precision=p)
                        if j == 2 and meta.get("collect"):
                            objs[0] = None
                            gc.collect()
                        objs.append(pyhf.Model(spec, poi_name=skel[0].get("poi"), **kw))
                except Exception as e:
                    bad[f"{hist}:switching-raises"] = f"{type(e).__name__}: {e}"
                    _reset_events(pyhf)
                    continue
                for j, (b, p) in enumerate(()):
                    pyhf.set_backend(b, precision=p)
                    if j == 2 and meta.get("collect"):
                        objs[0] = None
                        gc.collect()
                    objs.append(pyhf.Model(spec, poi_name=skel[0].get("poi"), **kw))
                fresh = objs[-1]
                tl, _ = pyhf.get_backend()
                lo_hi = fresh.config.suggested_bounds()
                pars = tl.astensor([min(max(v * 1.1 + 0.3, lo + 1e-3), hi - 1e-3) for v, (lo, hi) in zip(fresh.config.suggested_init(), lo_hi)])
                data = tl.astensor([float(x) for x in np.asarray(tl.tolist(fresh.expected_data(pars)))])
                want = np.asarray(tl.tolist(fresh.logpdf(pars, data)), dtype=float)
                for j, o in enumerate(objs[:-1]):
                    if o is None:
                        continue
                    try:
                        got_t = o.logpdf(pars, data)
                        got = np.asarray(tl.tolist(got_t), dtype=float)
                        want_t = fresh.logpdf(pars, data)
                        if type(got_t) is not type(want_t) or str(getattr(got_t, "dtype", "")) != str(getattr(want_t, "dtype", "")):
                            bad[f"{hist}:model{j}:type"] = f"{type(got_t).__name__}/{getattr(got_t, 'dtype', '')} instead of {type(want_t).__name__}/{getattr(want_t, 'dtype', '')}"
                        e_old, e_new = o.expected_data(pars), fresh.expected_data(pars)
                        ev_old, ev_new = np.asarray(tl.tolist(e_old), dtype=float), np.asarray(tl.tolist(e_new), dtype=float)
                        etol = 1e-6 if hist[-1][1] == "32b" else 1e-13
                        if ev_old.shape != ev_new.shape or not np.allclose(ev_old, ev_new, rtol=etol, atol=0.0):
                            bad[f"{hist}:model{j}:expected_data"] = {"old": ev_old.tolist(), "fresh": ev_new.tolist()}
                        if type(e_old) is not type(e_new) or str(getattr(e_old, "dtype", "")) != str(getattr(e_new, "dtype", "")):
                            bad[f"{hist}:model{j}:expected_data-type"] = f"{type(e_old).__name__}/{getattr(e_old, 'dtype', '')} instead of {type(e_new).__name__}/{getattr(e_new, 'dtype', '')}"
                        tol = 1e-4 if hist[-1][1] == "32b" else 1e-9
                        if not np.allclose(got, want, rtol=tol, atol=tol):
                            bad[f"{hist}:model{j}:logpdf"] = {"old": got.tolist(), "fresh": want.tolist()}
                    except Exception as e:
                        bad[f"{hist}:model{j}:raises"] = f"{type(e).__name__}: {e}"
        finally:
            _reset_events(pyhf)
        return {"reproduced": bool(bad), "disagreements": bad}
    if "Callables" in name or "events" in name:
        import pyhf.events as ev

        class Sub:
            def __init__(self, log, k):
                self.log, self.k = log, k

            def cb(self, *a):
                self.log.append(self.k)
        for n in range(0, 5):
            for pattern in itertools.product((True, False), repeat=n):
                log = []
                evn = f"replay-{n}-{''.join(map(str, map(int, pattern)))}"
                objs = [Sub(log, k) for k in range(n)]
                for o in objs:
                    ev.subscribe(evn)(o.cb)
                for k, alive in enumerate(pattern):
                    if not alive:
                        objs[k] = None
                gc.collect()
                try:
                    ev.trigger(evn)(1)
                except Exception as e:
                    bad[evn + ":raises"] = f"{type(e).__name__}: {e}"
                    continue
                want = [k for k, alive in enumerate(pattern) if alive]
                if log != want:
                    bad[evn] = {"called": log, "live": want}
                if n and len(ev.trigger(evn)) != len(want):
                    bad[evn + ":flush"] = len(ev.trigger(evn))
        return {"reproduced": bool(bad), "disagreements": bad}
    if "set_backend" in name and "request" in meta:
        import pyhf.events as ev
        fired = []

        class P:
            def cb(self):
                fired.append((pyhf.get_backend()[0].name, pyhf.get_backend()[0].precision))
        p = P()
        try:
            first, (rb, rp) = meta["first"], meta["request"]
            rb = rb[2:-1] if rb.startswith("b'") else rb
            rp = None if rp == "None" else (rp[2:-1] if rp.startswith("b'") else rp)
            pyhf.set_backend(first[0], precision=first[1])
            ev.subscribe("tensorlib_changed")(p.cb)
            kw = {"default": bool(meta.get("default"))}
            if rp is not None:
                kw["precision"] = rp
            if meta.get("optimizer"):
                kw["custom_optimizer"] = meta["optimizer"]
            pyhf.set_backend(rb, **kw)
            want = (rb.lower(), (rp or "64b").lower())
            got = (pyhf.get_backend()[0].name, pyhf.get_backend()[0].precision)
            if got != want:
                bad["current backend"] = {"got": got, "requested": want}
            changed = want != tuple(first)
            if (fired == [want]) != changed or (not changed and fired):
                bad["tensorlib_changed"] = {"fired": fired, "backend changed": changed, "from": first, "to": want}
        except Exception as e:
            bad["exception"] = f"{type(e).__name__}: {e}"
        finally:
            del p
            _reset_events(pyhf)
            pyhf.set_backend("numpy", precision="64b", default=True)
        return {"reproduced": bool(bad), "disagreements": bad}
    if "set_backend" in name:
        try:
            fired = []
            import pyhf.events as ev

            class P:
                def cb(self):
                    fired.append(pyhf.get_backend()[0].name + "/" + pyhf.get_backend()[0].precision)
            p = P()
            ev.subscribe("tensorlib_changed")(p.cb)
            pyhf.set_backend("numpy", precision="64b")
            del fired[:]
            pyhf.set_backend("numpy", precision="64b")
            if fired:
                bad["fired-without-change"] = list(fired)
            pyhf.set_backend("numpy", precision="32b")
            if fired != ["numpy/32b"]:
                bad["not-fired-on-precision-change"] = list(fired)
            if pyhf.get_backend()[0].precision != "32b":
                bad["state"] = pyhf.get_backend()[0].precision
        finally:
            pyhf.set_backend("numpy", precision="64b")
        return {"reproduced": bool(bad), "disagreements": bad}
    return None
