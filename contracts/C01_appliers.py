"""C01 tier P: *_combined.apply, ParamViewer.get and _MainModel.expected_data for symbolic shapes (to be filled)."""


def applier_tasks(tier):
    return []
