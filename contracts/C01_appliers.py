"""C01 tier P - unbounded shapes: the seven *_combined.apply methods and ParamViewer.get under their class invariants.

For symbolic numbers of modifiers M, samples S, batch rows A, bins B and parameters NP (no bound) the object state is
the ABSTRACT state allowed by the class invariant (DESIGN Appendix A: masks are 0/1 tensors of shape (M,S,A,B) that do not
depend on the batch row, the index fields address row a of the flattened parameter tensor: a*NP + k(m,b), defaults are
ones / zeros, the parameter viewer returns the parameters named after the modifiers), the REAL apply / get source is
executed symbolically on it, and the result is proved element-wise, at a generic index, to be
      where(mask[m,s,b],  value determined by the parameter the modifier is named after,  neutral element)
- the 'determined only by the value of the parameter the modifier is named after', 'samples that do not declare a
modifier are untouched' and row-locality (C10) clauses of the statement, for every shape.
That the constructors establish the invariant is NOT proved here: it is what the skeleton tier (C01_rates, C12) executes."""
import z3

from pyvc.tcheck import tensor_obligation
from pyvc.tensor import PT
from pyvc.values import I, R, B, NativeFn, Rec
from .common import typed_opaque

MODS = "modifiers"


def _dims(eng, batched):
    M, S, Bn, NP = (z3.Int(n) for n in ("M", "S", "B", "NP"))
    for d in (M, S, Bn, NP):
        eng.assume(d >= 1)
    if batched:
        A = z3.Int("A")
        eng.assume(A >= 1)
    else:
        A = 1
    return M, S, A, Bn, NP


def _pars(batched, A, NP):
    if batched:
        P = z3.Function("par", I, I, R)
        return PT((A, NP), lambda i: P(i[0], i[1]), "real"), (lambda a, k: P(a, k))
    P = z3.Function("par", I, R)
    return PT((NP,), lambda i: P(i[0]), "real"), (lambda a, k: P(k))


def _iv(x):
    return x if z3.is_expr(x) else z3.IntVal(x)


def _viewer(eng, M, A, NP, batched, par_at, with_indices):
    """ParamViewer as seen by an applier (its own contract is proved in t_paramviewer): get(pars[, indices]) returns the
    parameters of the selected sets, scalar sets: shape (M,) unbatched / (M, A) batched / (M, 1) when called with the
    transposed index column of an interpolating applier"""
    IDX = z3.Function("par_index_of_modifier", I, I)

    def get(e, rec):
        if len(rec.args) > 1 or "indices" in rec.kwargs:        # unbatched interpolating appliers pass self.indices, an (M, 1) column
            return PT((M, 1), lambda i: par_at(_iv(0), IDX(i[0])), "real")
        if batched:
            return PT((M, A), lambda i: par_at(i[1], IDX(i[0])), "real")
        return PT((M,), lambda i: par_at(_iv(0), IDX(i[0])), "real")
    pv = typed_opaque(eng, "param_viewer", {"get": get})
    eng.path.__dict__.setdefault("opaque_attrs", {})[(pv.get_id(), "index_selection")] = [1]      # non-empty selection
    eng.path.__dict__["opaque_attrs"][(pv.get_id(), "indices_concatenated")] = PT((M,), lambda i: IDX(i[0]), "int")
    return pv, IDX


def _mask(M, S, A, Bn, name="declares"):
    D = z3.Function(name, I, I, I, B)           # modifier m is declared by sample s in bin b (batch independent)
    mreal = PT((M, S, A, Bn), lambda i: z3.If(D(i[0], i[1], i[3]), z3.RealVal(1), z3.RealVal(0)), "real")
    mbool = PT((M, S, A, Bn), lambda i: D(i[0], i[1], i[3]), "bool")
    return D, mreal, mbool


def _const(shape, v):
    return PT(shape, lambda i: z3.RealVal(v), "real")


def _run(T, eng, key, build, spec, batched, tag):
    f = T.under_contract(eng, key)
    box = {}

    def thunk():
        obj, pars, ctx = build()
        box["ctx"] = ctx
        return eng.call_function(f, [obj, pars], {}, force_inline=True)
    results = eng.explore(thunk)
    T.absorb(eng, results)
    ok_paths = 0
    for k, r in enumerate(results):
        sfx = f"@{tag},path{k}"
        if r.kind != "return":
            T.fail(f"{key}#no-raise{sfx}", f"raises {r.exc_name} {getattr(r.value, 'eargs', '')}", kind="raises")
            continue
        ok_paths += 1
        M, S, A, Bn = box["ctx"]["dims"]
        tensor_obligation(T, eng, f"{key}#post.masked-value-of-the-named-parameter{sfx}", r.path.hyps(), r.value, (M, S, A, Bn),
                          lambda idx: spec(box["ctx"], idx))
    (T.ok if ok_paths else T.fail)(f"{key}#paths.returns@{tag}", *([] if ok_paths else ["no returning path"]), kind="raises")


def _policy():
    return {"inline": [f"{MODS}/"]}


def t_scalar_factor(T, mod, batched):
    """normfactor / lumi: factor = the parameter itself where declared, 1 elsewhere"""
    key = f"{MODS}/{mod}.py::{mod}_combined.apply"
    eng = T.engine(_policy())
    cls = eng.module(f"{MODS}/{mod}.py").get(f"{mod}_combined")

    def build():
        M, S, A, Bn, NP = _dims(eng, batched)
        if mod == "lumi":
            M = 1
        pars, par_at = _pars(batched, A, NP)
        pv, IDX = _viewer(eng, M, A, NP, batched, par_at, False)
        D, mreal, mbool = _mask(M, S, A, Bn)
        o = Rec(cls)
        o.attrs.update({"batch_size": A if batched else None, "param_viewer": pv, f"{mod}_mask": mreal, f"{mod}_mask_bool": mbool,
                        f"{mod}_default": _const((M, S, A, Bn), 1)})
        return o, pars, {"dims": (M, S, A, Bn), "D": D, "IDX": IDX, "par_at": par_at}

    def spec(c, idx):
        m, s, a, b = idx
        return z3.If(c["D"](m, s, b), c["par_at"](a, c["IDX"](m)), z3.RealVal(1))
    _run(T, eng, key, build, spec, batched, "batched" if batched else "unbatched")


def t_interpolating(T, mod, batched):
    """normsys / histosys: where declared the value is the interpolator's output for alpha = the parameter named after the modifier"""
    key = f"{MODS}/{mod}.py::{mod}_combined.apply"
    eng = T.engine(_policy())
    cls = eng.module(f"{MODS}/{mod}.py").get(f"{mod}_combined")
    neutral = 1 if mod == "normsys" else 0
    F = z3.Function("interpolated", I, I, I, R, R)        # (modifier, sample, bin, alpha) -> value: the C03 contract

    def build():
        M, S, A, Bn, NP = _dims(eng, batched)
        pars, par_at = _pars(batched, A, NP)
        pv, IDX = _viewer(eng, M, A, NP, batched, par_at, True)
        D, mreal, mbool = _mask(M, S, A, Bn)

        def interp(alphasets):
            al = alphasets
            return PT((M, S, A, Bn), lambda i: F(i[0], i[1], i[3], al.fn((i[0], i[2]))), "real")
        o = Rec(cls)
        o.attrs.update({"batch_size": A if batched else None, "param_viewer": pv, f"{mod}_mask": mbool, f"{mod}_default": _const((M, S, A, Bn), neutral),
                        "interpolator": NativeFn("interpolator-contract", interp), "interpcode": "code4" if mod == "normsys" else "code4p"})
        if not batched:
            o.attrs["indices"] = PT((M, 1), lambda i: IDX(i[0]), "int")
        return o, pars, {"dims": (M, S, A, Bn), "D": D, "IDX": IDX, "par_at": par_at}

    def spec(c, idx):
        m, s, a, b = idx
        return z3.If(c["D"](m, s, b), F(m, s, b, c["par_at"](a, c["IDX"](m))), z3.RealVal(neutral))
    _run(T, eng, key, build, spec, batched, "batched" if batched else "unbatched")


def t_binwise(T, mod, batched):
    """shapesys / staterror / shapefactor: where declared the factor is the parameter component the index field assigns to
    (modifier, bin) IN THE SAME BATCH ROW; 1 elsewhere"""
    key = f"{MODS}/{mod}.py::{mod}_combined.apply"
    eng = T.engine(_policy())
    cls = eng.module(f"{MODS}/{mod}.py").get(f"{mod}_combined")
    KF = z3.Function("component_of", I, I, I)             # (modifier, bin) -> parameter index in [0, NP)

    def build():
        M, S, A, Bn, NP = _dims(eng, batched)
        pars, par_at = _pars(batched, A, NP)
        pv, IDX = _viewer(eng, M, A, NP, batched, par_at, False)
        D, mreal, mbool = _mask(M, S, A, Bn)
        m_, b_ = z3.Ints("qm qb")
        eng.assume(z3.ForAll([m_, b_], z3.And(KF(m_, b_) >= 0, KF(m_, b_) < NP)))
        from pyvc.tensor import flat_index
        if batched:
            af = PT((M, A, Bn), lambda i: flat_index(i[1], NP, KF(i[0], i[2])), "int")
        else:
            af = PT((M, A, Bn), lambda i: KF(i[0], i[2]), "int")
        o = Rec(cls)
        o.attrs.update({"batch_size": A if batched else None, "param_viewer": pv, f"{mod}_mask": mbool, f"{mod}_default": _const((M, S, A, Bn), 1),
                        "access_field": af, "sample_ones": _const((S,), 1)})
        return o, pars, {"dims": (M, S, A, Bn), "D": D, "KF": KF, "par_at": par_at}

    def spec(c, idx):
        m, s, a, b = idx
        return z3.If(c["D"](m, s, b), c["par_at"](a, c["KF"](m, b)), z3.RealVal(1))
    _run(T, eng, key, build, spec, batched, "batched" if batched else "unbatched")


def t_paramviewer(T, batched):
    """ParamViewer.get: gather of the flattened parameter tensor at the stored indices (shape (N,) unbatched, (N, A) batched,
    where the index table addresses row a: a*NP + k(n)); with an explicit index argument that argument is used"""
    key = "parameters/paramview.py::ParamViewer.get"
    eng = T.engine({"inline": ["parameters/paramview.py::"]})
    f = T.under_contract(eng, key)
    cls = eng.module("parameters/paramview.py").get("ParamViewer")
    KN = z3.Function("selected_index", I, I)
    box = {}

    def thunk():
        from pyvc.tensor import flat_index
        N, NP = z3.Ints("N NP")
        eng.assume(N >= 1)
        eng.assume(NP >= 1)
        n_ = z3.Int("qn")
        eng.assume(z3.ForAll([n_], z3.And(KN(n_) >= 0, KN(n_) < NP)))
        A = z3.Int("A") if batched else 1
        if batched:
            eng.assume(A >= 1)
        pars, par_at = _pars(batched, A, NP)
        o = Rec(cls)
        o.attrs["index_selection"] = [1]
        if batched:
            o.attrs["indices_concatenated"] = PT((N, A), lambda i: flat_index(i[1], NP, KN(i[0])), "int")
        else:
            o.attrs["indices_concatenated"] = PT((N,), lambda i: KN(i[0]), "int")
        box.update(N=N, A=A, par_at=par_at)
        out = {"default": eng.call_function(f, [o, pars], {}, force_inline=True)}
        if not batched:
            col = PT((N, 1), lambda i: KN(i[0]), "int")
            out["explicit"] = eng.call_function(f, [o, pars, col], {}, force_inline=True)
        o2 = Rec(cls)
        o2.attrs["index_selection"] = []
        out["empty"] = eng.call_function(f, [o2, pars], {}, force_inline=True)
        return out
    results = eng.explore(thunk)
    T.absorb(eng, results)
    tag = "batched" if batched else "unbatched"
    for k, r in enumerate(results):
        sfx = f"@{tag},path{k}"
        if r.kind != "return":
            T.fail(f"{key}#no-raise{sfx}", f"raises {r.exc_name}", kind="raises")
            continue
        N, A, par_at = box["N"], box["A"], box["par_at"]
        if batched:
            tensor_obligation(T, eng, f"{key}#post.selected-parameters-of-each-row{sfx}", r.path.hyps(), r.value["default"], (N, A), lambda idx: par_at(idx[1], KN(idx[0])))
        else:
            tensor_obligation(T, eng, f"{key}#post.selected-parameters{sfx}", r.path.hyps(), r.value["default"], (N,), lambda idx: par_at(_iv(0), KN(idx[0])))
            tensor_obligation(T, eng, f"{key}#post.explicit-index-column{sfx}", r.path.hyps(), r.value["explicit"], (N, 1), lambda idx: par_at(_iv(0), KN(idx[0])))
        ok = r.value["empty"] is None
        (T.ok if ok else T.fail)(f"{key}#post.none-without-selection{sfx}", *([] if ok else ["returned a value"]))


def applier_tasks(tier):
    out = []
    for batched in (False, True):
        tag = "batched" if batched else "unbatched"
        for mod in ("normfactor", "lumi"):
            out.append((f"tierP[{mod},{tag}]", (lambda m, b: lambda T: t_scalar_factor(T, m, b))(mod, batched)))
        for mod in ("normsys", "histosys"):
            out.append((f"tierP[{mod},{tag}]", (lambda m, b: lambda T: t_interpolating(T, m, b))(mod, batched)))
        for mod in ("shapesys", "staterror", "shapefactor"):
            out.append((f"tierP[{mod},{tag}]", (lambda m, b: lambda T: t_binwise(T, m, b))(mod, batched)))
        out.append((f"tierP[ParamViewer.get,{tag}]", (lambda b: lambda T: t_paramviewer(T, b))(batched)))
    return out


# ---------------------------------------------------------------- _MainModel.expected_data for any number of modifiers / samples / bins
FACTOR_TYPES = ["normsys", "normfactor", "shapesys", "shapefactor", "staterror", "lumi"]


def t_expected_data(T, batched, present, clip):
    """under the appliers' contracts (each returns a tensor (M_k, S, A, B) or None) the by-sample rate is
         [prod_k prod_{m < M_k} factor_k(m,s,a,b)] * (nominal(s,b) + sum_{m < M_h} delta(m,s,a,b))   (then the optional per-sample clip
       where the sample exists), and the reported rate is its sum over the samples (then the optional per-bin clip)"""
    from pyvc.solver import SumF, ProdF
    key = "pdf.py::_MainModel.expected_data"
    eng = T.engine({"inline": ["pdf.py::_MainModel."]})
    f = T.under_contract(eng, key)
    T.under_contract(eng, "pdf.py::_MainModel.modifications")
    cls = eng.module("pdf.py").get("_MainModel")
    box = {}

    def thunk():
        S, Bn, NP = (z3.Int(n) for n in ("S", "B", "NP"))
        for d in (S, Bn, NP):
            eng.assume(d >= 1)
        A = z3.Int("A") if batched else 1
        if batched:
            eng.assume(A >= 1)
        pars, _ = _pars(batched, A, NP)
        NOM = z3.Function("nominal", I, I, R)
        PRES = z3.Function("sample_present", I, I, B)
        fns, dims, appliers = {}, {}, {}
        for k in ["histosys"] + FACTOR_TYPES:
            Mk = z3.Int(f"M_{k}")
            eng.assume(Mk >= 1)
            Fk = z3.Function(f"applied_{k}", I, I, I, I, R)
            fns[k], dims[k] = Fk, Mk

            def mk(k, Mk, Fk):
                def apply(e, rec):
                    if k not in present:
                        return None
                    return PT((Mk, S, A, Bn), lambda i: Fk(i[0], i[1], i[2], i[3]), "real")
                return apply
            ap = typed_opaque(eng, f"applier_{k}", {"apply": mk(k, Mk, Fk)})
            appliers[k] = ap
        o = Rec(cls)
        cs = z3.Real("clip_sample") if clip else None
        cb = z3.Real("clip_bin") if clip else None
        o.attrs.update({"batch_size": A if batched else None, "clip_sample_data": cs, "clip_bin_data": cb, "modifiers_appliers": appliers,
                        "_delta_mods": ["histosys"], "_factor_mods": list(FACTOR_TYPES),
                        "nominal_rates": PT((1, S, A, Bn), lambda i: NOM(i[1], i[3]), "real"),
                        "sample_mask": PT((S, A, Bn), lambda i: PRES(i[0], i[2]), "bool")})
        box.update(S=S, A=A, Bn=Bn, NOM=NOM, PRES=PRES, fns=fns, dims=dims, cs=cs, cb=cb)
        by = eng.call_function(f, [o, pars], {"return_by_sample": True}, force_inline=True)
        tot = eng.call_function(f, [o, pars], {}, force_inline=True)
        return by, tot
    results = eng.explore(thunk)
    T.absorb(eng, results)
    tag = f"{'batched' if batched else 'unbatched'},present={'+'.join(sorted(present)) or 'none'}{',clip' if clip else ''}"
    for k, r in enumerate(results):
        sfx = f"@{tag},path{k}"
        if r.kind != "return":
            T.fail(f"{key}#no-raise{sfx}", f"raises {r.exc_name} {getattr(r.value, 'eargs', '')}", kind="raises")
            continue
        by, tot = r.value
        S, A, Bn, NOM, PRES, fns, dims, cs, cb = (box[x] for x in ("S", "A", "Bn", "NOM", "PRES", "fns", "dims", "cs", "cb"))
        hy = r.path.hyps()

        def by_spec(s, a, b):
            m = z3.Int("m_spec")
            add = NOM(s, b)
            if "histosys" in present:
                add = add + SumF(dims["histosys"], z3.Lambda([m], fns["histosys"](m, s, a, b)))
            val = add
            for kk in FACTOR_TYPES:
                if kk in present:
                    val = ProdF(dims[kk], z3.Lambda([m], fns[kk](m, s, a, b))) * val
            if cs is not None:
                val = z3.If(PRES(s, b), z3.If(val < cs, cs, val), val)
            return val
        # the spec's reductions must be known to the congruence pass
        by_shape = (A, S, Bn) if batched else (S, Bn)
        spec_fn = (lambda idx: by_spec(idx[1], idx[0], idx[2])) if batched else (lambda idx: by_spec(idx[0], z3.IntVal(0), idx[1]))
        _register_spec_reductions(eng)
        tensor_obligation(T, eng, f"{key}#post.by-sample-rate-is-product-of-factors-times-nominal-plus-deltas{sfx}", hy, by, by_shape, spec_fn)
        # total: the reported rate is ONE reduction over the sample axis whose body is the by-sample rate (then the per-bin clip);
        # checked on the reduction node itself at a generic sample index (no nested quantifier)
        gi = [z3.Int(f"g{k}") for k in range(2 if batched else 1)]
        a, b = (gi[0], gi[1]) if batched else (z3.IntVal(0), gi[0])
        bounds = [z3.And(x >= 0, x < d) for x, d in zip(gi, (A, Bn) if batched else (Bn,))]
        okshape = isinstance(tot, PT) and len(tot.shape) == len(gi)
        val = tot.fn(tuple(gi)) if okshape else None
        node = None
        if okshape:
            cands = [t for t in _sum_terms(val) if t.get_id() in eng.reductions and eng.reductions[t.get_id()] is not True]
            node = eng.reductions[cands[0].get_id()] if len(cands) == 1 else None
        if node is None or node.kind != "sum":
            T.fail(f"{key}#post.rate-is-the-sum-over-samples-then-bin-clip{sfx}", "the reported rate is not a single sum over the sample axis", kind="structure")
        else:
            s_ = node.var
            body_want = by.fn((a, s_, b)) if batched else by.fn((s_, b))
            T.ob(eng, f"{key}#post.rate-sums-the-by-sample-rates-over-all-samples{sfx}", hy + bounds + [s_ >= 0, s_ < S],
                 z3.And(node.n == S, node.body == eng.to_real(body_want)))
            red = node.term
            want = z3.If(red < cb, cb, red) if cb is not None else red
            T.ob(eng, f"{key}#post.then-the-per-bin-clip{sfx}", hy + bounds, eng.to_real(val) == want)
    if not results:
        T.fail(f"{key}#no-raise@{tag}", "no path", kind="raises")


def _sum_terms(t):
    out, seen, stack = [], set(), [t]
    while stack:
        x = stack.pop()
        if not z3.is_expr(x) or x.get_id() in seen:
            continue
        seen.add(x.get_id())
        if z3.is_app(x):
            if x.decl().name() == "SumF":
                out.append(x)
                continue
            stack.extend(x.children())
    return out


def _register_spec_reductions(eng):
    """the congruence pass only looks at reductions the engine knows; specification-side SumF / ProdF terms are found syntactically"""
    if not getattr(eng, "reductions", None):
        eng.reductions = {}
    eng.reductions.setdefault("spec", True)


_applier_tasks_base = applier_tasks


def applier_tasks(tier):
    out = _applier_tasks_base(tier)
    cases = [(False, set(["histosys"] + FACTOR_TYPES), False), (True, set(["histosys"] + FACTOR_TYPES), False), (False, {"normfactor"}, True), (True, {"histosys", "normsys", "staterror"}, True),
             (False, set(), False)]
    if tier != "quick":
        cases += [(True, {"normfactor", "lumi"}, False), (False, {"histosys"}, True), (True, set(), True)]
    for batched, present, clip in cases:
        nm = f"tierP[expected_data,{'batched' if batched else 'unbatched'},{'+'.join(sorted(present)) or 'none'}{',clip' if clip else ''}]"
        out.append((nm, (lambda b, p, c: lambda T: t_expected_data(T, b, p, c))(batched, present, clip)))
    return out
