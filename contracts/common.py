"""Contracts shared between properties (callee side of modular proofs)."""
import z3

from pyvc.values import Obj, is_obj, real_of, ufunc, isnone_of, truthy_of, len_of, item_of, PyRaise

TS = "infer/test_statistics.py"
MLE = "infer/mle.py"


def std_args(eng, with_mu=True, prefix=""):
    """the (mu, data, pdf, init_pars, par_bounds, fixed_params) argument pack as opaque objects"""
    names = (["mu"] if with_mu else []) + ["data", "pdf", "init_pars", "par_bounds", "fixed_params"]
    return {n: eng.obj(prefix + n) for n in names}


def poi_index(eng, pdf):
    return eng.getattr(eng.getattr(pdf, "config"), "poi_index")


def unspecified_poi(eng):
    return eng.module("exceptions/__init__.py").get("UnspecifiedPOI")


# ---- C05 interface of the fits, as seen by their callers (C06, C08, C14) -------------------------
def fit_contract(tag):
    """infer.mle.fit / fixed_poi_fit as opaque (pars, val): the returned value is a fresh real,
    the fitted parameters a fresh object; layout by the return_fitted_val flag.  fixed_poi_fit
    raises UnspecifiedPOI when no POI is defined (proved in C05)."""
    def h(eng, call):
        k = len([c for c in eng.path.calls if c.target == call.target])
        pars = eng.obj(f"{tag}_pars{k if k > 1 else ''}")
        val = eng.real(f"{tag}_val{k if k > 1 else ''}")
        eng.assume(z3.Not(isnone_of(pars)))
        call.pars, call.val = pars, val
        if tag == "fixed_poi_fit":
            pdf = call.arg(2, "pdf")
            if eng.branch(isnone_of(poi_index(eng, pdf))):
                raise PyRaise(unspecified_poi(eng), ("No POI",))
        if call.kwargs.get("return_fitted_val", False):
            return (pars, val)
        return pars
    return h


def tmu_like_contract(eng, call):
    """_tmu_like as proved in C06: stat = max(0, v_fixed - v_free) >= 0, optional fitted pars"""
    stat = eng.real("tmu_stat")
    a, b = eng.obj("mubhathat"), eng.obj("muhatbhat")
    eng.assume(stat >= 0)
    call.stat, call.pars = stat, (a, b)
    pdf = call.arg(2, "pdf")
    if eng.branch(isnone_of(poi_index(eng, pdf))):
        raise PyRaise(unspecified_poi(eng), ("No POI",))
    if call.kwargs.get("return_fitted_pars", False):
        return (stat, (a, b))
    return stat


def qmu_like_contract(eng, call):
    stat = eng.real("qmu_stat")
    a, b = eng.obj("mubhathat"), eng.obj("muhatbhat")
    eng.assume(stat >= 0)
    call.stat, call.pars = stat, (a, b)
    if call.kwargs.get("return_fitted_pars", False):
        return (stat, (a, b))
    return stat


def calls_to(path, key):
    return [c for c in path.calls if c.target == key]


def zmax(a, b):
    return z3.If(a >= b, a, b)


def typed_opaque(eng, name, methods, term=None):
    """an opaque object with contracted methods; every method call is logged as ('method', name)"""
    o = eng.obj(name) if term is None else term
    eng.assume(z3.Not(isnone_of(o)))
    table = {}
    for mname, h in methods.items():
        def mk(mname, h):
            def call(e, self_obj, *a, **k):
                rec = e.log_call(("method", name, mname), a, k)
                rec.result = h(e, rec)
                return rec.result
            return call
        table[mname] = mk(mname, h)
    eng.set_iface(o, table)
    return o


def method_calls(path, objname, mname):
    return [c for c in path.calls if c.target == ("method", objname, mname)]
