"""C01 - expected event rates follow the HistFactory rate formula.

Two tiers.
(B2, skeleton-bounded, value-unbounded)  For every skeleton of hf_skeleton.skeletons() the REAL pipeline
  Model.__init__ -> builders -> *_combined.__init__ -> expected_data is executed symbolically (all
  yields, variations, uncertainties and parameters are z3 reals; interpolators replaced by their C03
  contract) and every reported bin is proved equal to the oracle of the statement for all parameter
  values: plain, by-sample, with sample / bin clipping, with the non-default interpolation codes, and
  through Model.expected_data / expected_actualdata / make_pdf.
(P, unbounded shapes)  see C01_appliers (apply / expected_data under the class invariants)."""
import z3

from pyvc.tensor import PT
from pyvc.values import Rec, Unsupported
from . import hf_oracle as O
from . import hf_skeleton as K

PROPERTY = "C01"
LEVEL = "proof"
EXPLANATION = ("the real model construction and rate evaluation are executed symbolically on structure skeletons with all numbers symbolic; each "
               "reported bin is proved equal to the independent rate formula for all parameter values (inside and outside |alpha|<=1) and all "
               "positive yields; the skeleton space is bounded and listed under bounded_blocks")
TRUSTED = ["interpolator contract code*(hist)(alpha) == I_code (proved in C03)",
           "tensor op contracts for symbolic operands; fully concrete index/mask computations are executed by CPython with the numpy backend of the tree under test",
           "schema validation is skipped (skeletons are schema-valid by construction)"]
ASSUMPTIONS = ["all yields / variations / uncertainties strictly positive (the statement's well-formed specs)",
               "other backends than numpy are covered only through the op contracts",
               "structure is bounded by the skeleton list (<= 3 channels, <= 2 samples per channel, <= 3 bins); numbers are unbounded"]

CODESETS = [None, {"normsys": {"interpcode": "code1"}, "histosys": {"interpcode": "code0"}},
            {"normsys": {"interpcode": "code4"}, "histosys": {"interpcode": "code2"}}]


def absent_classes(skel):
    """(channel -> samples of the model that are absent from it)"""
    all_samples = sorted({s for _, _, ss in skel["channels"] for s, _ in ss})
    return {c: [s for s in all_samples if s not in [x for x, _ in ss]] for c, _, ss in skel["channels"]}


def run_one(T, name, skel, variant):
    key_ed = "pdf.py::_MainModel.expected_data"
    eng = T.engine(K.pipeline_policy())
    box = {}
    kwargs = {}
    if variant["codes"] is not None:
        kwargs["modifier_settings"] = variant["codes"]
    cs = cb = None
    if variant["clip"]:
        cs, cb = z3.Real("clip_sample"), z3.Real("clip_bin")
        kwargs.update(clip_sample_data=cs, clip_bin_data=cb)

    def thunk():
        spec, sym = K.build_spec(skel)
        for c in sym.positivity():
            eng.assume(c)
        m = K.make_model(eng, spec, skel.get("poi"), **kwargs)
        lay = K.layout_of(eng, m)
        th = K.theta_vec(lay.npars)
        out = {"actual": eng.call(eng.getattr(m, "expected_actualdata"), [th], {}),
               "full": eng.call(eng.getattr(m, "expected_data"), [th], {}),
               "noaux": eng.call(eng.getattr(m, "expected_data"), [th], {"include_auxdata": False}),
               "by_sample": eng.call(eng.getattr(eng.getattr(m, "main_model"), "expected_data"), [th], {"return_by_sample": True})}
        box.update(spec=spec, lay=lay, th=th, m=m)
        return out
    results = eng.explore(thunk)
    T.absorb(eng, results)
    vtag = variant["tag"]
    if not results:
        T.fail(f"{key_ed}#post.rate@class=no-path|{name},{vtag}", "no path")
    absent = absent_classes(skel)
    for k, r in enumerate(results):
        sfx = f"{name},{vtag},path{k}"
        if r.kind != "return":
            T.fail(f"{key_ed}#no-raise@class=well-formed|{sfx}", f"raises {r.exc_name} {getattr(r.value, 'eargs', '')}", kind="raises")
            continue
        spec, lay, th, m = box["spec"], box["lay"], box["th"], box["m"]
        hy = r.path.hyps()
        want, per_sample = O.expected_main(O.ZOps, spec, lay, th, clip_sample=cs, clip_bin=cb, by_sample=True)
        nmain = len(want)
        # which bins belong to a channel from which some sample of the model is absent
        g2c = [c for c in lay.channels for _ in range(lay.channel_nbins[c])]
        got = K.elements(r.value["actual"], nmain)
        for g in range(nmain):
            cls = "well-formed"
            if variant["clip"] and absent[g2c[g]]:
                cls = "clip_sample-with-sample-absent-from-channel"
            clause = "post.rate" if not variant["clip"] else "post.clip-sample-then-bin"
            T.ob(eng, f"{key_ed}#{clause}@class={cls}|{sfx},bin{g}", hy, got[g] == want[g], skeleton=skel, variant=vtag, bin=g)
        if not variant["clip"]:
            # Model.expected_data(include_auxdata=False) and the main part of the full vector are the same numbers
            noaux = K.elements(r.value["noaux"], nmain)
            T.ob(eng, f"pdf.py::Model.expected_data#post.main-part@class=well-formed|{sfx}", hy,
                 z3.And(*[a == b for a, b in zip(noaux, want)]), skeleton=skel, variant=vtag)
            full = r.value["full"]
            nfull = full.shape[0] if isinstance(full, PT) else len(full)
            aux = O.expected_aux(O.ZOps, spec, lay, th)
            ok = nfull == nmain + len(aux)
            (T.ok if ok else T.fail)(f"pdf.py::Model.expected_data#post.length@class=well-formed|{sfx}", *([] if ok else [f"{nfull} != {nmain}+{len(aux)}"]))
            if ok:
                fl = K.elements(full, nfull)
                T.ob(eng, f"pdf.py::Model.expected_data#post.main-then-aux@class=well-formed|{sfx}", hy,
                     z3.And(*[a == b for a, b in zip(fl, want + aux)]), skeleton=skel, variant=vtag)
            # by sample: rows in the reported sample order, absent samples contribute 0
            cfg = eng.getattr(m, "config")
            samples = list(eng.getattr(cfg, "samples"))
            bs = r.value["by_sample"]
            goals = []
            for si, sname in enumerate(samples):
                for g in range(nmain):
                    w = per_sample.get(sname, {}).get(g, z3.RealVal(0))
                    goals.append(bs.fn((z3.IntVal(si), z3.IntVal(g))) == w)
            okshape = isinstance(bs, PT) and bs.shape == (len(samples), nmain)
            (T.ok if okshape else T.fail)(f"{key_ed}#post.by_sample.shape@class=well-formed|{sfx}", *([] if okshape else [f"shape {getattr(bs, 'shape', None)}"]))
            if okshape:
                T.ob(eng, f"{key_ed}#post.by_sample@class=well-formed|{sfx}", hy, z3.And(*goals), skeleton=skel, variant=vtag)
            # channels are laid out in the reported order with the reported widths
            sl = eng.getattr(cfg, "channel_slices")
            off = 0
            okl = True
            for c in lay.channels:
                okl = okl and sl[c].start == off and sl[c].stop == off + lay.channel_nbins[c]
                off += lay.channel_nbins[c]
            okl = okl and off == nmain and sorted(lay.channels) == sorted(c for c, _, _ in skel["channels"])
            (T.ok if okl else T.fail)(f"mixins.py::_ChannelSummaryMixin.__init__#post.slices-tile-in-reported-order@class=well-formed|{sfx}",
                                      *([] if okl else ["channel slices do not tile the main data in reported order"]))


def make_task(chunk, tier, seed):
    def task(T):
        n = 0
        for name, skel in chunk:
            variants = [{"tag": "default", "codes": None, "clip": False}]
            variants.append({"tag": "clip", "codes": None, "clip": True})
            has_interp = any(t in ("normsys", "histosys") for _, _, ss in skel["channels"] for _, ms in ss for t, _ in ms)
            if has_interp:
                variants.append({"tag": "codes1", "codes": CODESETS[1], "clip": False})
                variants.append({"tag": "codes2", "codes": CODESETS[2], "clip": False})
            for v in variants:
                run_one(T, name, skel, v)
                n += 1
        T.bounded_block("skeleton-bounded symbolic execution of Model.__init__ -> expected_data",
                        "structure: skeletons " + ", ".join(nm for nm, _ in chunk) + "; numbers: unbounded (z3 reals)", n, 0)
    return task


from .BK_backend_ops import TRUSTED as BK_TRUSTED
TRUSTED = TRUSTED + BK_TRUSTED


def tasks(tier):
    import os
    seed = int(os.environ.get("VERIF_SEED", "0") or 0)
    sk = K.skeletons(tier, seed)
    out = []
    for i in range(0, len(sk), 2):
        chunk = sk[i:i + 2]
        out.append((f"pipeline[{','.join(n for n, _ in chunk)}]", make_task(chunk, tier, seed)))
    from .C01_appliers import applier_tasks
    out += applier_tasks(tier)
    # "batched or not" is part of the quantifier: the bin-wise skeletons are also run with batch size 2 (shared with C10)
    from . import C10_batching as B

    def batched(T):
        for nm in ("2c-different-nbins-staterror", "all-seven-types"):
            B.run_one(T, nm, dict(K.CURATED)[nm], 2)
    out.append(("batched-variant", batched))
    # "every tensor backend": the pipeline above runs against one set of tensor-operation contracts; each backend's wrapper
    # methods are proved to be those operations
    from .BK_backend_ops import backend_op_tasks
    out += backend_op_tasks(tier)
    return out


def replay(r):
    """native replay: build the concrete skeleton with the real pyhf, evaluate at seeded random parameters inside and
    outside |alpha| <= 1 and compare with the float oracle"""
    meta = r.get("meta") or {}
    if (meta.get("op") or meta.get("lifecycle")) and meta.get("backend"):
        from .BK_backend_ops import replay_backend_op
        return replay_backend_op(r)
    name = meta.get("skeleton")
    from .hf_native import native_compare
    if name is None and ("_combined.apply" in r["name"] or "ParamViewer.get" in r["name"] or "_MainModel.expected_data" in r["name"] or "_MainModel.modifications" in r["name"]):
        # tier P obligations have no input of their own: the appliers are exercised natively through the whole pipeline
        # on curated skeletons (all modifier types, shared names, different bin counts), unbatched and with two batch rows
        out = {"reproduced": False, "disagreements": []}
        for sk in ("all-seven-types", "2c-different-nbins-staterror", "1c2s-normsys-histosys-shared-name", "shapefactor-shared-equal-bins", "mixed-constraint-widths"):
            for batch, variant in ((None, "default"), (2, "default"), (None, "clip"), (2, "clip"), (None, "clipbin"), (2, "clipbin"), (1, "clipbin")):
                try:
                    res = native_compare(dict(K.CURATED)[sk], variant=variant, what="expected", batch=batch)
                except Exception as e:           # the real code raising on a well-formed model is a reproduction, too
                    res = {"reproduced": True, "disagreements": [f"evaluation raises {type(e).__name__}: {e}"]}
                if res.get("reproduced"):
                    out["reproduced"] = True
                    out["disagreements"].append({"skeleton": sk, "batch": batch, "variant": variant, "first": res["disagreements"][:2]})
        return out
    if name is None:
        return None
    return native_compare(name, variant=meta.get("variant", "default"), what="logpdf" if meta.get("what") == "logpdf" else "expected", batch=meta.get("batch"))
