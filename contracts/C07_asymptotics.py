"""C07 - asymptotic p-values follow arXiv:1007.1727.

Oracle (from the statement), q >= 0, q_A > 0:
  q, q0, qtilde with q <= q_A : CLsb = 1 - Phi(sqrt q),  CLb = 1 - Phi(sqrt q - sqrt q_A)
  qtilde with q > q_A         : CLsb = 1 - Phi((q+q_A)/(2 sqrt q_A)), CLb = 1 - Phi((q-q_A)/(2 sqrt q_A))
  CLs = CLsb/CLb; expected(N) = Phi(-N - sqrt q_A)/Phi(-N), N = 2,1,0,-1,-2 in list order;
  0 <= CLsb <= CLb <= 1, 0 <= CLs <= 1, band non-decreasing, clipped variant: expected value >= cutoff.
Phi and sqrt are uninterpreted with the axioms instantiated in pyvc/solver.py."""
import z3

from pyvc.tensor import Phi, Sqrt
from pyvc.values import NAN, Obj, PyRaise, Rec, is_obj, isnone_of, real_of, truthy_of
from .common import TS, MLE, calls_to, std_args

PROPERTY = "C07"
LEVEL = "proof"
CALC = "infer/calculators.py"
EXPLANATION = ("AsymptoticCalculator.{__init__,teststatistic,distributions,pvalues,expected_pvalues} and "
               "AsymptoticTestStatDistribution.{pvalue,cdf,expected_value} are executed symbolically on the current source; "
               "the formulae of the statement are composite postconditions over (q, q_A) discharged by z3 with Phi and sqrt axiomatised")
TRUSTED = ["Phi: strictly increasing, 0 < Phi < 1, Phi(-x) = 1 - Phi(x) (ground instances only)",
           "sqrt: for x >= 0, sqrt(x) >= 0 and sqrt(x)^2 = x, strictly increasing on [0, inf)",
           "log-concavity of Phi: Phi(x - s)/Phi(x) is non-decreasing in x for s >= 0 (theorem of analysis, used only for band monotonicity)",
           "test statistic functions return (q >= 0, fitted parameter pair) - the C06 contract",
           "generate_asimov_data returns (asimov data, fitted parameters) - proved in C08"]
ASSUMPTIONS = ["'representable tails' is read as: Phi total and exact; float('nan') is a distinguished real constant",
               "the values of Phi themselves (library normal cdf) are external - C04"]

STATS = {"q": "qmu", "qtilde": "qmu_tilde", "q0": "q0"}
ARGS = ["data", "pdf", "init_pars", "par_bounds", "fixed_params"]


def teststat_contract(eng, call):
    k = len([c for c in eng.path.calls if isinstance(c.target, str) and c.target.startswith(TS + "::")])
    q = eng.real("q" if k == 1 else "qA")
    a, b = eng.obj(f"mubhathat{k}"), eng.obj(f"muhatbhat{k}")
    eng.assume(q >= 0)
    call.stat, call.pars = q, (a, b)
    if call.kwargs.get("return_fitted_pars", False):
        return (q, (a, b))
    return q


def asimov_contract(eng, call):
    d, p = eng.obj("asimov_data"), eng.obj("asimov_pars")
    call.data, call.pars = d, p
    if call.kwargs.get("return_fitted_pars", False):
        return (d, p)
    return d


def policy():
    p = {f"{TS}::{f}": teststat_contract for f in STATS.values()}
    p[f"{CALC}::generate_asimov_data"] = asimov_contract
    p["infer/utils.py::get_test_stat"] = "inline"
    p["inline"] = [f"{CALC}::AsymptoticCalculator.", f"{CALC}::AsymptoticTestStatDistribution."]
    return p


def make_calc(eng, test_stat, base, given=True):
    cls = eng.module(CALC).get("AsymptoticCalculator")
    a = std_args(eng, with_mu=False)
    for n in ARGS:
        eng.assume(z3.Not(isnone_of(a[n])))
        if given:
            # explicit (non-empty) settings; the defaulting of __init__ is proved separately in t_init
            eng.assume(truthy_of(a[n]))
    calc = eng.instantiate(cls, [a[n] for n in ARGS], {"test_stat": test_stat, "calc_base_dist": base})
    return calc, a


def spec_teststat(test_stat, q, qA):
    sq, sqA = Sqrt(q), Sqrt(qA)
    if test_stat in ("q", "q0"):
        return sq - sqA
    return z3.If(q <= qA, sq - sqA, (q - qA) / (2 * sqA))


def spec_clsb(test_stat, q, qA):
    if test_stat in ("q", "q0"):
        return 1 - Phi(Sqrt(q))
    return z3.If(q <= qA, 1 - Phi(Sqrt(q)), 1 - Phi((q + qA) / (2 * Sqrt(qA))))


def spec_clb(test_stat, q, qA):
    if test_stat in ("q", "q0"):
        return 1 - Phi(Sqrt(q) - Sqrt(qA))
    return z3.If(q <= qA, 1 - Phi(Sqrt(q) - Sqrt(qA)), 1 - Phi((q - qA) / (2 * Sqrt(qA))))


def _chain(eng, test_stat, base, upto):
    """run the real methods in the order hypotest uses them"""
    calc, a = make_calc(eng, test_stat, base)
    poi = eng.obj("poi_test")
    out = {"calc": calc, "a": a, "poi": poi}
    out["teststat"] = eng.call(eng.getattr(calc, "teststatistic"), [poi], {})
    if upto == "teststatistic":
        return out
    out["dists"] = eng.call(eng.getattr(calc, "distributions"), [poi], {})
    if upto == "distributions":
        return out
    sb, b = out["dists"]
    out["pvalues"] = eng.call(eng.getattr(calc, "pvalues"), [out["teststat"], sb, b], {})
    if upto == "pvalues":
        return out
    out["expected"] = eng.call(eng.getattr(calc, "expected_pvalues"), [sb, b], {})
    return out


def _qs(path):
    cs = [c for c in path.calls if isinstance(c.target, str) and c.target.startswith(TS + "::")]
    return cs


def t_init(T):
    """__init__: explicit settings are stored, None/empty ones are replaced by the model's suggestions"""
    key = f"{CALC}::AsymptoticCalculator.__init__"
    eng = T.engine(policy())
    T.under_contract(eng, key)
    results = eng.explore(lambda: make_calc(eng, "qtilde", "normal", given=False))
    T.absorb(eng, results)
    for k, r in enumerate(results):
        if r.kind == "raise":
            T.fail(f"{key}#no-raise@path{k}", r.exc_name, kind="raises")
            continue
        calc, a = r.value
        cfg = eng.getattr(a["pdf"], "config")
        for n, sug in (("init_pars", "suggested_init"), ("par_bounds", "suggested_bounds"), ("fixed_params", "suggested_fixed")):
            default = eng._opaque_apply(eng.opaque_attr(cfg, sug), [], {})
            want = z3.If(truthy_of(a[n]), a[n], default)
            T.ob_path(eng, f"{key}#post.{n}-default-iff-missing@path{k}", r, eng.veq(calc.attrs.get(n), want), kind="forwarding")
        T.ob_path(eng, f"{key}#post.fields@path{k}", r,
                  eng.veq([calc.attrs.get(x) for x in ("data", "pdf", "test_stat", "calc_base_dist", "sqrtqmuA_v", "fitted_pars")],
                          [a["data"], a["pdf"], "qtilde", "normal", None, None]), kind="forwarding")
    if len(results) != 8:
        T.fail(f"{key}#post.paths", f"expected 8 default/explicit combinations, explored {len(results)}")
    else:
        T.ok(f"{key}#post.paths")


def t_teststatistic(T):
    key = f"{CALC}::AsymptoticCalculator.teststatistic"
    for ts in STATS:
        eng = T.engine(policy())
        T.under_contract(eng, key)
        T.under_contract(eng, f"{CALC}::AsymptoticCalculator.__init__")
        results = eng.explore(lambda: _chain(eng, ts, "normal", "teststatistic"))
        T.absorb(eng, results)
        if not any(r.kind == "return" for r in results):
            T.fail(f"{key}#post.value@{ts}", "no normally returning path")
        for k, r in enumerate(results):
            pid = f"@{ts},path{k}"
            if r.kind == "raise":
                T.fail(f"{key}#no-raise{pid}", f"raises {r.exc_name}", kind="raises")
                continue
            o = r.value
            a, poi, calc = o["a"], o["poi"], o["calc"]
            cs = _qs(r.path)
            asim = calls_to(r.path, f"{CALC}::generate_asimov_data")
            if len(cs) != 2 or len(asim) != 1:
                T.fail(f"{key}#fwd.call-structure{pid}", f"{len(cs)} statistic calls, {len(asim)} asimov calls", kind="forwarding")
                continue
            c1, c2, ca = cs[0], cs[1], asim[0]
            want_fn = f"{TS}::{STATS[ts]}"
            (T.ok if (c1.target == want_fn and c2.target == want_fn) else T.fail)(
                f"{key}#fwd.statistic-function{pid}", *([] if c1.target == c2.target == want_fn else [f"{c1.target},{c2.target}"]), kind="forwarding")
            base_args = [a[n] for n in ARGS]
            got1 = [c1.arg(i, None, None) for i in range(6)]
            T.ob_path(eng, f"{key}#fwd.observed-call-args{pid}", r, eng.veq(got1, [poi] + base_args), kind="forwarding")
            gota = [ca.arg(i, None, None) for i in range(6)]
            T.ob_path(eng, f"{key}#fwd.asimov-mu-and-args{pid}", r, eng.veq(gota, [1.0 if ts == "q0" else 0.0] + base_args), kind="forwarding")
            got2 = [c2.arg(i, None, None) for i in range(6)]
            T.ob_path(eng, f"{key}#fwd.asimov-call-args{pid}", r, eng.veq(got2, [poi, ca.data] + base_args[1:]), kind="forwarding")
            T.ob_path(eng, f"{key}#fwd.return_fitted_pars{pid}", r,
                      eng.veq([c1.kwargs.get("return_fitted_pars"), c2.kwargs.get("return_fitted_pars"), ca.kwargs.get("return_fitted_pars")], [True] * 3), kind="forwarding")
            q, qA = c1.stat, c2.stat
            inputs = {"q": q, "qA": qA}
            hy = r.path.hyps() + [qA > 0]
            T.ob(eng, f"{key}#post.value{pid}", hy, eng.veq(o["teststat"], spec_teststat(ts, q, qA)), inputs=inputs, test_stat=ts)
            T.ob(eng, f"{key}#post.sqrtqmuA-cached{pid}", hy, eng.veq(calc.attrs.get("sqrtqmuA_v"), Sqrt(qA)), inputs=inputs, test_stat=ts)
            fp = calc.attrs.get("fitted_pars")
            want = {"asimov_pars": ca.pars, "free_fit_to_data": c1.pars[1], "free_fit_to_asimov": c2.pars[1],
                    "fixed_poi_fit_to_data": c1.pars[0], "fixed_poi_fit_to_asimov": c2.pars[0]}
            if isinstance(fp, Rec):
                T.ob(eng, f"{key}#post.fitted_pars{pid}", hy, eng.veq(dict(fp.attrs), want), kind="forwarding")
            else:
                T.fail(f"{key}#post.fitted_pars{pid}", "fitted_pars not set", kind="forwarding")
            if k == 0:
                T.cover(eng, f"{key}#cover@{ts}", hy)


def t_teststatistic_history(T):
    """a second teststatistic() call on the SAME calculator with a different POI value uses that value's own Asimov statistic:
    nothing from the first call may be reused (the calculator is re-used by callers that scan the POI)"""
    key = f"{CALC}::AsymptoticCalculator.teststatistic"
    for ts in STATS:
        eng = T.engine(policy())

        def run():
            calc, a = make_calc(eng, ts, "normal")
            p1, p2 = eng.obj("poi_1"), eng.obj("poi_2")
            t1 = eng.call(eng.getattr(calc, "teststatistic"), [p1], {})
            n1 = len(eng.path.calls)
            t2 = eng.call(eng.getattr(calc, "teststatistic"), [p2], {})
            return {"calc": calc, "a": a, "p2": p2, "t2": t2, "n1": n1}
        results = eng.explore(run)
        T.absorb(eng, results)
        for k, r in enumerate(results):
            pid = f"@{ts},second-call,path{k}"
            if r.kind != "return":
                T.fail(f"{key}#no-raise{pid}", str(r.exc_name), kind="raises")
                continue
            o = r.value
            second = [c for c in r.path.calls[o["n1"]:] if isinstance(c.target, str) and (c.target.startswith(TS + "::") or c.target == f"{CALC}::generate_asimov_data")]
            stat = [c for c in second if c.target.startswith(TS + "::")]
            asim = [c for c in second if c.target == f"{CALC}::generate_asimov_data"]
            if len(stat) != 2 or len(asim) != 1:
                T.fail(f"{key}#fwd.call-structure{pid}", f"second call: {len(stat)} statistic calls, {len(asim)} asimov calls (results of the first call reused)", kind="forwarding", history=True, test_stat=ts)
                continue
            T.ok(f"{key}#fwd.call-structure{pid}", kind="forwarding")
            q, qA = stat[0].stat, stat[1].stat
            hy = r.path.hyps() + [qA > 0]
            T.ob_path(eng, f"{key}#fwd.asimov-call-args{pid}", r, eng.veq([stat[1].arg(0, None, None), stat[1].arg(1, None, None)], [o["p2"], asim[0].data]), kind="forwarding")
            T.ob(eng, f"{key}#post.value{pid}", hy, eng.veq(o["t2"], spec_teststat(ts, q, qA)), inputs={"q": q, "qA": qA}, test_stat=ts, history=True)
            T.ob(eng, f"{key}#post.sqrtqmuA-cached{pid}", hy, eng.veq(o["calc"].attrs.get("sqrtqmuA_v"), Sqrt(qA)), inputs={"q": q, "qA": qA}, test_stat=ts, history=True)


def t_distributions(T):
    key = f"{CALC}::AsymptoticCalculator.distributions"
    for ts in STATS:
        for base in ("normal", "clipped_normal", "bogus"):
            eng = T.engine(policy())
            T.under_contract(eng, key)
            results = eng.explore(lambda: _chain(eng, ts, base, "distributions"))
            T.absorb(eng, results)
            for k, r in enumerate(results):
                pid = f"@{ts},{base},path{k}"
                if base == "bogus":
                    ok = r.kind == "raise" and r.exc_name == "ValueError"
                    (T.ok if ok else T.fail)(f"{key}#raises.ValueError-on-unknown-base{pid}", *([] if ok else [str(r.kind)]), kind="raises")
                    continue
                if r.kind == "raise":
                    T.fail(f"{key}#no-raise{pid}", f"raises {r.exc_name}", kind="raises")
                    continue
                o = r.value
                qA = _qs(r.path)[1].stat
                hy = r.path.hyps() + [qA > 0]
                sb, b = o["dists"]
                inputs = {"qA": qA}
                if not (isinstance(sb, Rec) and isinstance(b, Rec)):
                    T.fail(f"{key}#post.shifts{pid}", "distributions are not AsymptoticTestStatDistribution instances")
                    continue
                T.ob(eng, f"{key}#post.shifts{pid}", hy, eng.veq([sb.attrs["shift"], b.attrs["shift"]], [-Sqrt(qA), 0.0]), inputs=inputs, base=base)
                if base == "normal":
                    ok = sb.attrs["cutoff"] == float("-inf") and b.attrs["cutoff"] == float("-inf")
                    (T.ok if ok else T.fail)(f"{key}#post.cutoff{pid}", *([] if ok else ["cutoff is not -inf"]))
                else:
                    T.ob(eng, f"{key}#post.cutoff{pid}", hy, eng.veq([sb.attrs["cutoff"], b.attrs["cutoff"]], [-Sqrt(qA), -Sqrt(qA)]), inputs=inputs, base=base)
    # RuntimeError before teststatistic()
    eng = T.engine(policy())

    def early():
        calc, a = make_calc(eng, "qtilde", "normal")
        return eng.call(eng.getattr(calc, "distributions"), [eng.obj("poi_test")], {})
    results = eng.explore(early)
    ok = len(results) == 1 and results[0].kind == "raise" and results[0].exc_name == "RuntimeError"
    (T.ok if ok else T.fail)(f"{key}#raises.RuntimeError-before-teststatistic", *([] if ok else ["no RuntimeError"]), kind="raises")


def t_distribution_class(T):
    """AsymptoticTestStatDistribution.{cdf,pvalue,expected_value} for symbolic shift / cutoff"""
    base = f"{CALC}::AsymptoticTestStatDistribution"
    for cut in ("-inf", "real"):
        eng = T.engine({"inline": [f"{CALC}::AsymptoticTestStatDistribution."]})
        for m in ("__init__", "cdf", "pvalue", "expected_value"):
            T.under_contract(eng, f"{base}.{m}")
        cls = eng.module(CALC).get("AsymptoticTestStatDistribution")

        def run():
            shift, v, n = eng.real("shift"), eng.real("value"), eng.real("nsigma")
            cutoff = float("-inf") if cut == "-inf" else eng.real("cutoff")
            d = eng.instantiate(cls, [shift, cutoff], {}) if cut == "real" else eng.instantiate(cls, [shift], {})
            return {"shift": shift, "v": v, "n": n, "cutoff": cutoff,
                    "cdf": eng.call(eng.getattr(d, "cdf"), [v], {}),
                    "pvalue": eng.call(eng.getattr(d, "pvalue"), [v], {}),
                    "ev": eng.call(eng.getattr(d, "expected_value"), [n], {})}
        results = eng.explore(run)
        T.absorb(eng, results)
        for k, r in enumerate(results):
            pid = f"@cutoff={cut},path{k}"
            if r.kind == "raise":
                T.fail(f"{base}#no-raise{pid}", r.exc_name, kind="raises")
                continue
            o = r.value
            shift, v, n = o["shift"], o["v"], o["n"]
            inputs = {"shift": shift, "value": v, "nsigma": n}
            if cut == "real":
                inputs["cutoff"] = o["cutoff"]
                valid = v >= o["cutoff"]
                ev = z3.If(shift + n > o["cutoff"], shift + n, o["cutoff"])
            else:
                valid = z3.BoolVal(True)
                ev = shift + n
            T.ob_path(eng, f"{base}.cdf#post.value{pid}", r, eng.veq(o["cdf"], Phi(v - shift)), inputs=inputs)
            T.ob_path(eng, f"{base}.pvalue#post.value{pid}", r, eng.veq(o["pvalue"], z3.If(valid, 1 - Phi(v - shift), NAN)), inputs=inputs)
            T.ob_path(eng, f"{base}.expected_value#post.value{pid}", r, eng.veq(o["ev"], ev), inputs=inputs)
            if cut == "real":
                T.ob_path(eng, f"{base}.expected_value#post.not-below-cutoff{pid}", r, eng.to_real(o["ev"]) >= o["cutoff"], inputs=inputs)


def _loglconc_instances(sqA):
    """ground instances of the trusted log-concavity axiom for the five band points"""
    facts = []
    ns = [2, 1, 0, -1, -2]
    for a, b in zip(ns, ns[1:]):
        x1, x2 = z3.RealVal(-a), z3.RealVal(-b)     # x1 < x2
        facts.append(z3.Implies(sqA >= 0, Phi(x1 - sqA) / Phi(x1) <= Phi(x2 - sqA) / Phi(x2)))
    return facts


def t_pvalues(T):
    """the composite statement: formulas, ordering, band"""
    key = f"{CALC}::AsymptoticCalculator"
    for ts in STATS:
        for base in ("normal", "clipped_normal"):
            eng = T.engine(policy())
            T.under_contract(eng, f"{key}.pvalues")
            T.under_contract(eng, f"{key}.expected_pvalues")
            results = eng.explore(lambda: _chain(eng, ts, base, "expected"))
            T.absorb(eng, results)
            if not any(r.kind == "return" for r in results):
                T.fail(f"{key}#lemma.CLsb@{ts},{base}", "no normally returning path")
            for k, r in enumerate(results):
                pid = f"@{ts},{base},path{k}"
                if r.kind == "raise":
                    T.fail(f"{key}#no-raise{pid}", f"raises {r.exc_name}", kind="raises")
                    continue
                o = r.value
                cs = _qs(r.path)
                q, qA = cs[0].stat, cs[1].stat
                hy = r.path.hyps() + [qA > 0]
                inputs = {"q": q, "qA": qA}
                meta = dict(inputs=inputs, test_stat=ts, base=base)
                CLsb, CLb, CLs = o["pvalues"]
                T.ob(eng, f"{key}#lemma.CLsb{pid}", hy, eng.veq(CLsb, spec_clsb(ts, q, qA)), **meta)
                T.ob(eng, f"{key}#lemma.CLb{pid}", hy, eng.veq(CLb, spec_clb(ts, q, qA)), **meta)
                T.ob(eng, f"{key}#lemma.CLs-is-ratio{pid}", hy, eng.veq(CLs, spec_clsb(ts, q, qA) / spec_clb(ts, q, qA)), **meta)
                rs, rb, rr = eng.to_real(CLsb), eng.to_real(CLb), eng.to_real(CLs)
                T.ob(eng, f"{key}#lemma.ordering{pid}", hy, z3.And(0 <= rs, rs <= rb, rb <= 1), **meta)
                T.ob(eng, f"{key}#lemma.CLs-in-unit-interval{pid}", hy, z3.And(0 <= rr, rr <= 1), **meta)
                if base == "clipped_normal":
                    # the observed statistic never falls below the cutoff (so its p-values are never the NaN branch)
                    T.ob(eng, f"{key}#lemma.observed-above-cutoff{pid}", hy, eng.to_real(o["teststat"]) >= -Sqrt(qA), **meta)
                if ts == "qtilde":
                    T.ob(eng, f"{key}#lemma.branches-agree-at-seam{pid}", hy,
                         z3.Implies(q == qA, z3.And(rs == 1 - Phi(Sqrt(q)), rs == 1 - Phi((q + qA) / (2 * Sqrt(qA))),
                                                   rb == 1 - Phi(Sqrt(q) - Sqrt(qA)), rb == 1 - Phi((q - qA) / (2 * Sqrt(qA))))), **meta)
                exp = o["expected"]
                ok_layout = isinstance(exp, list) and len(exp) == 3 and all(isinstance(e, list) and len(e) == 5 for e in exp)
                (T.ok if ok_layout else T.fail)(f"{key}.expected_pvalues#post.layout{pid}", *([] if ok_layout else ["not 3 lists of 5"]))
                if not ok_layout:
                    continue
                sqA = Sqrt(qA)
                ns = [2, 1, 0, -1, -2]
                goals_sb, goals_b, goals_s = [], [], []
                for j, n in enumerate(ns):
                    N = z3.RealVal(n)
                    if base == "clipped_normal":
                        # no expected value below the cutoff -sqrt(q_A): the N-sigma point is max(N, -sqrt q_A)
                        N = z3.If(N > -sqA, N, -sqA)
                    goals_sb.append(eng.veq(exp[0][j], Phi(-N - sqA)))
                    goals_b.append(eng.veq(exp[1][j], Phi(-N)))
                    goals_s.append(eng.veq(exp[2][j], Phi(-N - sqA) / Phi(-N)))
                T.ob(eng, f"{key}.expected_pvalues#lemma.CLsb_exp{pid}", hy, z3.And(*goals_sb), **meta)
                T.ob(eng, f"{key}.expected_pvalues#lemma.CLb_exp{pid}", hy, z3.And(*goals_b), **meta)
                T.ob(eng, f"{key}.expected_pvalues#lemma.CLs_exp{pid}", hy, z3.And(*goals_s), **meta)
                band = [eng.to_real(x) for x in exp[2]]
                if base == "normal":
                    hy2 = hy + _loglconc_instances(sqA)
                    T.ob(eng, f"{key}.expected_pvalues#lemma.band-monotone{pid}", hy2,
                         z3.And(*[band[j] <= band[j + 1] for j in range(4)]), **meta)
                T.ob(eng, f"{key}.expected_pvalues#lemma.band-in-unit-interval{pid}", hy,
                     z3.And(*[z3.And(0 <= x, x <= 1) for x in band]), **meta)
                if k == 0:
                    T.cover(eng, f"{key}#cover@{ts},{base}", hy)
                    T.canary(eng, f"{key}#canary@{ts},{base}", hy, eng.veq(CLsb, 1 - Phi(Sqrt(q) + 1)))


from .BK_backend_ops import TRUSTED as BK_TRUSTED
TRUSTED = TRUSTED + BK_TRUSTED


def tasks(tier):
    return [("__init__", t_init), ("teststatistic", t_teststatistic), ("teststatistic.history", t_teststatistic_history), ("distributions", t_distributions),
            ("AsymptoticTestStatDistribution", t_distribution_class), ("pvalues", t_pvalues)] + _backend_ops(tier)


def _backend_ops(tier):
    # "every backend": sqrt, where, clip, astensor ... of each backend are proved to be the operations the contracts above assume
    from .BK_backend_ops import backend_op_tasks
    return backend_op_tasks(tier)


def replay(r):
    """native replay: real AsymptoticCalculator with the statistic functions / Asimov generation stubbed to
    return the model's (q, q_A); compared with scipy's normal cdf evaluated on the oracle formulas"""
    model = r.get("model") or {}
    meta = r.get("meta") or {}
    if (meta.get("op") or meta.get("lifecycle")) and meta.get("backend"):
        from .BK_backend_ops import replay_backend_op
        return replay_backend_op(r)

    def val(x):
        if isinstance(x, dict) and "num" in x:
            return x["num"] / x["den"]
        if isinstance(x, dict) and "approx" in x:
            return float(x["approx"].rstrip("?"))
        if isinstance(x, (int, float)):
            return float(x)
        return None
    import math
    import numpy as np
    from scipy.stats import norm
    import pyhf
    import pyhf.infer.calculators as C
    import pyhf.infer.utils as U
    name = r["name"]
    if "AsymptoticTestStatDistribution" in name:
        shift, v, n = val(model.get("shift")), val(model.get("value")), val(model.get("nsigma"))
        cutoff = val(model.get("cutoff"))
        if None in (shift, v, n):
            return None
        d = C.AsymptoticTestStatDistribution(shift, cutoff) if cutoff is not None else C.AsymptoticTestStatDistribution(shift)
        cut = cutoff if cutoff is not None else -math.inf
        want = {"cdf": norm.cdf(v - shift), "pvalue": (1 - norm.cdf(v - shift)) if v >= cut else float("nan"),
                "expected_value": max(shift + n, cut)}
        got = {"cdf": float(d.cdf(v)), "pvalue": float(d.pvalue(v)), "expected_value": float(d.expected_value(n))}
        which = name.split("AsymptoticTestStatDistribution.")[1].split("#")[0] if "AsymptoticTestStatDistribution." in name else None
        if which not in want:
            return None
        a, b = got[which], want[which]
        bad = (math.isnan(a) != math.isnan(b)) or (not math.isnan(a) and abs(a - b) > 1e-9)
        return {"reproduced": bad, "got": a, "oracle": b, "inputs": {"shift": shift, "value": v, "nsigma": n, "cutoff": cutoff}}
    q, qA = val(model.get("q")), val(model.get("qA"))
    ts, base = meta.get("test_stat"), meta.get("base", "normal")
    if ts is None:
        return None
    if q is None and qA is not None:
        q = qA
    grid = []
    if q is not None and qA is not None and qA > 0 and q >= 0 and math.sqrt(q) < 37 and math.sqrt(qA) < 37:
        grid.append((q, qA))
    # fixed grid over the (q, q_A) plane with representable tails, including far tails and the qtilde q > q_A region
    for g_q in (0.0, 1e-3, 1.0, 4.0, 25.0, 100.0, 225.0, 400.0):
        for g_qA in (1e-3, 0.25, 1.0, 9.0, 36.0, 100.0):
            arg = (g_q + g_qA) / (2 * math.sqrt(g_qA)) if (ts == "qtilde" and g_q > g_qA) else math.sqrt(g_q)
            if arg < 30:
                grid.append((g_q, g_qA))
    if meta.get("history"):
        return _replay_history(C, U, np, ts)
    allbad = {}
    for (q, qA) in grid:
        rep = _replay_point(C, U, np, norm, math, ts, base, q, qA)
        if rep:
            allbad[f"q={q},qA={qA}"] = rep
            if len(allbad) >= 3:
                break
    return {"reproduced": bool(allbad), "test_stat": ts, "base": base, "disagreements": allbad}


def _replay_history(C, U, np, ts):
    """two teststatistic() calls with different POI values on one calculator: the second must use its own Asimov statistic"""
    table = {1.0: (4.0, 9.0), 2.0: (16.0, 25.0)}
    calls = []

    def stat(poi, data, *a, **k):
        calls.append((poi, "asimov" if isinstance(data, str) else "obs"))
        q, qA = table[poi]
        return np.asarray(qA if isinstance(data, str) else q), (np.asarray([1.0]), np.asarray([2.0]))
    saved = (U.get_test_stat, C.generate_asimov_data)
    U.get_test_stat = lambda name_: stat
    C.generate_asimov_data = lambda *a, **k: ("ASIMOV", np.asarray([1.0]))

    class Cfg:
        poi_index = 0
        def suggested_init(self): return [1.0]
        def suggested_bounds(self): return [(0, 10)]
        def suggested_fixed(self): return [False]

    class Pdf:
        config = Cfg()
    try:
        calc = C.AsymptoticCalculator([1.0], Pdf(), test_stat=ts)
        calc.teststatistic(1.0)
        t2 = float(calc.teststatistic(2.0))
        sA = float(calc.sqrtqmuA_v)
    finally:
        U.get_test_stat, C.generate_asimov_data = saved
    want = 4.0 - 5.0
    bad = {}
    if abs(t2 - want) > 1e-9:
        bad["second teststatistic"] = {"got": t2, "oracle": want}
    if abs(sA - 5.0) > 1e-9:
        bad["sqrt(q_A) after second call"] = {"got": sA, "oracle": 5.0}
    return {"reproduced": bool(bad), "history": "teststatistic(1.0) then teststatistic(2.0) on one calculator; (q, q_A) = (4, 9) then (16, 25)", "disagreements": bad}


def _replay_point(C, U, np, norm, math, ts, base, q, qA):
    seq = iter([q, qA])
    marker = (np.asarray([1.0]), np.asarray([2.0]))

    def stat(*a, **k):
        return np.asarray(next(seq)), marker
    saved = (U.get_test_stat, C.generate_asimov_data)
    U.get_test_stat = lambda name_: stat
    C.generate_asimov_data = lambda *a, **k: (np.asarray([1.0]), np.asarray([1.0]))

    class Cfg:
        poi_index = 0
        def suggested_init(self): return [1.0]
        def suggested_bounds(self): return [(0, 10)]
        def suggested_fixed(self): return [False]

    class Pdf:
        config = Cfg()
    try:
        calc = C.AsymptoticCalculator([1.0], Pdf(), test_stat=ts, calc_base_dist=base)
        t = calc.teststatistic(1.0)
        sb, b = calc.distributions(1.0)
        CLsb, CLb, CLs = (float(x) for x in calc.pvalues(t, sb, b))
        exp = calc.expected_pvalues(sb, b)
    finally:
        U.get_test_stat, C.generate_asimov_data = saved
    sq, sqA = math.sqrt(q), math.sqrt(qA)
    if ts in ("q", "q0") or q <= qA:
        w_sb, w_b, w_t = norm.sf(sq), norm.sf(sq - sqA), sq - sqA
    else:
        w_sb, w_b, w_t = norm.sf((q + qA) / (2 * sqA)), norm.sf((q - qA) / (2 * sqA)), (q - qA) / (2 * sqA)

    def rel(a, b):
        return abs(a - b) / max(abs(b), 1e-300) if b != 0 else abs(a)
    diffs = {"teststat": abs(float(t) - w_t), "CLsb": rel(CLsb, w_sb) * 1e-3, "CLb": rel(CLb, w_b) * 1e-3,
             "CLs": (rel(CLs, w_sb / w_b) * 1e-3) if w_b > 0 else 0.0, "sqrtqmuA": abs(float(calc.sqrtqmuA_v) - sqA)}
    ns = [2, 1, 0, -1, -2]
    for j, n in enumerate(ns):
        N = max(n, -sqA) if base == "clipped_normal" else n
        diffs[f"CLs_exp[{j}]"] = abs(float(exp[2][j]) - norm.cdf(-N - sqA) / norm.cdf(-N))
    band = [float(x) for x in exp[2]]
    diffs["band-monotone"] = 0.0 if all(band[j] <= band[j + 1] + 1e-15 for j in range(4)) else 1.0
    diffs["ordering"] = 0.0 if (0 <= CLsb <= CLb + 1e-15 <= 1 + 1e-15 and 0 <= CLs <= 1 + 1e-12) else 1.0
    bad = {k: v for k, v in diffs.items() if v > 1e-9}
    return bad
