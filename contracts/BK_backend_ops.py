"""Backend structural operations: every backend's wrapper is the same abstract tensor operation.

The pipeline checks (C01, C02, C03, C10, C13 ...) execute pdf.py, the modifiers, the interpolators and the constraints against
ONE set of tensor-operation contracts (pyvc/tensor.py) - sound for "every backend" only if each backend's method of that name IS
that operation.  This module puts the wrapper methods of the four backend classes under contract:

    for every backend B and every structural operation o the pipeline uses, for ALL (opaque) tensor arguments:
        B.o(args) == OP_o(args in their roles)
    where OP_o is one abstract operation shared by the four backends.

The real method bodies are executed symbolically; every library function they call is replaced by its documented meaning as an
abstract operation of its arguments (LIBRARY below: the library's own signature binds positional / keyword arguments to roles,
so `torch.where(condition, input, other)`, `tf.where(condition, x, y)` and `np.where(condition, x, y)` all denote
OP_where(condition, x, y)).  The abstract operations are uninterpreted: an obligation holds only if the wrapper hands the right
arguments, in the right roles, to a library function with the right meaning - a swapped argument, a wrong axis / dtype, a
dropped conversion or another library function is refuted.  Value-preserving representation changes (`.numpy()`, `.data`,
`indices.type(LongTensor)`) are identities of the abstract view.

NOT covered here (they stay assumptions of the pipeline checks): `simple_broadcast` of pytorch / tensorflow, the
exception-driven fallback of tensorflow's `tile`, `clip` with a None bound on tensorflow, `outer` (unused by pyhf), and the
meaning of the library functions themselves."""
import inspect

import z3

from pyvc.values import Ext, FuncV, NativeFn, Obj, PyRaise, Unsupported, is_obj, is_z, ufunc
from .common import calls_to

TENSOR = "tensor"
DTYPES = {b: {"64b": {"float": f"{root}.float64", "int": f"{root}.int64", "bool": f"{root}.{bl}"}, "32b": {"float": f"{root}.float32", "int": f"{root}.int32", "bool": f"{root}.{bl}"}}
          for b, root, bl in (("numpy", "numpy", "bool_"), ("jax", "jax.numpy", "bool_"), ("pytorch", "torch", "bool"), ("tensorflow", "tensorflow", "bool"))}
BACKENDS = (("numpy_backend", "numpy"), ("jax_backend", "jax"), ("pytorch_backend", "pytorch"), ("tensorflow_backend", "tensorflow"))
TRUSTED = ["meaning of the array-library functions (numpy, jax.numpy, torch, tensorflow, tensorflow_probability, scipy.special) as the abstract tensor operation "
           "named in contracts/BK_backend_ops.py::LIBRARY, with the argument roles of the library's documented signature",
           "value-preserving representation changes are identities of the abstract view: tensor.numpy(), tensor.data, indices.type(torch.LongTensor), jnp.asarray(x) without dtype"]


# ---------------------------------------------------------------- abstract operations
def A(eng, op, *args):
    f = ufunc(f"OP_{op}", *([Obj] * len(args)), Obj)
    return f(*[eng.box(a) for a in args])


def _own_dtype(eng, a_, dtype):
    """the dtype argument is literally the array's own dtype attribute: a value-preserving conversion"""
    return is_obj(a_) and is_z(dtype) and z3.eq(dtype, eng.opaque_attr(a_, "dtype"))


def _clip_minmax(eng, x, lo, hi):
    """numpy / jax / torch: minimum(maximum(x, lo), hi), a None bound is no bound"""
    if lo is None and hi is None:
        return x
    if hi is None:
        return A(eng, "max2", x, lo)
    if lo is None:
        return A(eng, "min2", x, hi)
    return A(eng, "clip", x, lo, hi)


def _clip_maxmin(eng, x, lo, hi):
    """tf.clip_by_value: maximum(minimum(x, hi), lo) - the lower bound wins.  With the tensor's own maximum (minimum) as a
    bound the inner (outer) operation changes nothing: maximum(minimum(x, max x), lo) = maximum(x, lo)"""
    if is_z(hi) and z3.eq(hi, A(eng, "max", x, None)):
        return A(eng, "max2", x, lo)
    # NOT symmetric: maximum(minimum(x, hi), min x) is min x, not hi, when every element exceeds hi - tensorflow's clip(x, None, hi)
    # is wrong there (observed natively: clip([5, 7], None, 1) == [5, 5]).  pyhf only ever clips from below, so no property depends on
    # it and no obligation is stated for a ceiling-only clip; the term is left as it is.
    if is_z(lo) and z3.eq(lo, A(eng, "min", x, None)):
        return A(eng, "max2", A(eng, "min2", x, hi), lo)
    return A(eng, "clip", x, lo, hi)        # for lo <= hi both orders agree


def _seq(x):
    return tuple(x) if isinstance(x, (list, tuple)) else x


def library(eng):
    """the documented meaning of each library function, written with the library's own parameter names"""
    a = lambda op: (lambda *args: A(eng, op, *args))
    unary = {"abs": "abs", "sqrt": "sqrt", "log": "log", "exp": "exp", "isfinite": "isfinite", "erf": "erf", "erfinv": "erfinv"}
    L = {}

    def percentile_np(a_, q, axis=None, out=None, overwrite_input=False, method="linear", keepdims=False, *, interpolation=None):
        return A(eng, "percentile", a_, q, axis, interpolation if interpolation is not None else method)

    for lib in ("numpy", "jax.numpy"):
        for nm, op in unary.items():
            if nm in ("erf", "erfinv"):
                continue
            L[f"{lib}.{nm}"] = (lambda op: lambda x: A(eng, op, x))(op)
        L[f"{lib}.clip"] = lambda a_, a_min=None, a_max=None: _clip_minmax(eng, a_, a_min, a_max)
        L[f"{lib}.minimum"] = lambda x1, x2: A(eng, "min2", x1, x2)
        L[f"{lib}.maximum"] = lambda x1, x2: A(eng, "max2", x1, x2)
        L[f"{lib}.tile"] = lambda A_, reps: A(eng, "tile", A_, _seq(reps))
        L[f"{lib}.where"] = lambda condition, x, y: A(eng, "where", condition, x, y)
        L[f"{lib}.sum"] = lambda a_, axis=None: A(eng, "sum", a_, axis)
        L[f"{lib}.prod"] = lambda a_, axis=None: A(eng, "prod", a_, axis)
        L[f"{lib}.ones"] = lambda shape, dtype=None: A(eng, "ones", _seq(shape), dtype)
        L[f"{lib}.zeros"] = lambda shape, dtype=None: A(eng, "zeros", _seq(shape), dtype)
        L[f"{lib}.power"] = lambda x1, x2: A(eng, "power", x1, x2)
        L[f"{lib}.divide"] = lambda x1, x2: A(eng, "divide", x1, x2)
        L[f"{lib}.percentile"] = percentile_np
        L[f"{lib}.stack"] = lambda arrays, axis=0: A(eng, "stack", _seq(arrays), axis)
        L[f"{lib}.concatenate"] = lambda arrays, axis=0: A(eng, "concatenate", _seq(arrays), axis)
        L[f"{lib}.reshape"] = lambda a_, newshape: A(eng, "reshape", a_, _seq(newshape))
        L[f"{lib}.ravel"] = lambda a_: A(eng, "reshape", a_, -1)                   # "equivalent to reshape(-1)"
        L[f"{lib}.einsum"] = lambda subscripts, *operands: A(eng, "einsum", subscripts, tuple(operands))
        L[f"{lib}.outer"] = lambda a_, b: A(eng, "outer", a_, b)
        L[f"{lib}.broadcast_arrays"] = lambda *args: A(eng, "broadcast", tuple(args))
        L[f"{lib}.asarray"] = lambda a_, dtype=None: a_ if dtype is None or _own_dtype(eng, a_, dtype) else A(eng, "astensor", a_, dtype)
    for sp in ("scipy.special", "jax.scipy.special"):
        L[f"{sp}.erf"] = lambda x: A(eng, "erf", x)
        L[f"{sp}.erfinv"] = lambda x: A(eng, "erfinv", x)
    # ---- torch
    for nm, op in unary.items():
        L[f"torch.{nm}"] = (lambda op: lambda input: A(eng, op, input))(op)
    L["torch.clamp"] = lambda input, min=None, max=None: _clip_minmax(eng, input, min, max)
    L["torch.minimum"] = lambda input, other: A(eng, "min2", input, other)
    L["torch.maximum"] = lambda input, other: A(eng, "max2", input, other)
    L["torch.where"] = lambda condition, input, other: A(eng, "where", condition, input, other)
    L["torch.sum"] = lambda input, dim=None: A(eng, "sum", input, dim)
    L["torch.prod"] = lambda input, dim=None: A(eng, "prod", input, dim)
    L["torch.ones"] = lambda size, dtype=None: A(eng, "ones", _seq(size), dtype)
    L["torch.zeros"] = lambda size, dtype=None: A(eng, "zeros", _seq(size), dtype)
    L["torch.pow"] = lambda input, exponent: A(eng, "power", input, exponent)
    L["torch.div"] = lambda input, other: A(eng, "divide", input, other)
    L["torch.quantile"] = lambda input, q, dim=None, keepdim=False, interpolation="linear": A(eng, "percentile", input, eng.to_real(q) * 100, dim, interpolation)
    L["torch.stack"] = lambda tensors, dim=0: A(eng, "stack", _seq(tensors), dim)
    L["torch.cat"] = lambda tensors, dim=0: A(eng, "concatenate", _seq(tensors), dim)
    L["torch.reshape"] = lambda input, shape: A(eng, "reshape", input, _seq(shape))
    L["torch.ravel"] = lambda input: A(eng, "reshape", input, -1)
    L["torch.outer"] = lambda input, vec2: A(eng, "outer", input, vec2)
    L["torch.masked_select"] = lambda input, mask: eng.opaque_item(input, mask)      # == input[mask] for a mask of the tensor's shape
    L["torch.as_tensor"] = lambda data, dtype=None: data if dtype is None else A(eng, "astensor", data, dtype)

    def torch_einsum(equation, *operands):
        if len(operands) == 1 and isinstance(operands[0], (list, tuple)):
            operands = tuple(operands[0])                                            # "operands may also be passed as a list"
        return A(eng, "einsum", equation, tuple(operands))
    L["torch.einsum"] = torch_einsum
    L["torch.Size"] = lambda sizes=(): eng.box(tuple(sizes))
    L["tensorflow.TensorShape"] = lambda dims=(): eng.box(tuple(dims))
    L["tensorflow.convert_to_tensor"] = lambda value, dtype=None: value if dtype is None else A(eng, "astensor", value, dtype)
    L["tensorflow.cast"] = lambda x, dtype: A(eng, "astensor", x, dtype)
    # ---- tensorflow
    for nm, path in (("abs", "tensorflow.abs"), ("sqrt", "tensorflow.sqrt"), ("log", "tensorflow.math.log"), ("exp", "tensorflow.exp"),
                     ("isfinite", "tensorflow.math.is_finite"), ("erf", "tensorflow.math.erf"), ("erfinv", "tensorflow.math.erfinv")):
        L[path] = (lambda op: lambda x: A(eng, op, x))(nm)
    L["tensorflow.clip_by_value"] = lambda t, clip_value_min, clip_value_max: _clip_maxmin(eng, t, clip_value_min, clip_value_max)
    L["tensorflow.minimum"] = lambda x, y: A(eng, "min2", x, y)
    L["tensorflow.maximum"] = lambda x, y: A(eng, "max2", x, y)
    L["tensorflow.reduce_max"] = lambda input_tensor, axis=None: A(eng, "max", input_tensor, axis)
    L["tensorflow.reduce_min"] = lambda input_tensor, axis=None: A(eng, "min", input_tensor, axis)
    L["tensorflow.tile"] = lambda input, multiples: A(eng, "tile", input, _seq(multiples))
    L["tensorflow.where"] = lambda condition, x=None, y=None: A(eng, "where", condition, x, y)
    L["tensorflow.reduce_sum"] = lambda input_tensor, axis=None: A(eng, "sum", input_tensor, axis)
    L["tensorflow.reduce_prod"] = lambda input_tensor, axis=None: A(eng, "prod", input_tensor, axis)
    L["tensorflow.ones"] = lambda shape, dtype=None: A(eng, "ones", _seq(shape), dtype)
    L["tensorflow.zeros"] = lambda shape, dtype=None: A(eng, "zeros", _seq(shape), dtype)
    L["tensorflow.pow"] = lambda x, y: A(eng, "power", x, y)
    L["tensorflow.divide"] = lambda x, y: A(eng, "divide", x, y)
    L["tensorflow_probability.stats.percentile"] = lambda x, q, axis=None, interpolation=None: A(eng, "percentile", x, q, axis, interpolation if interpolation is not None else "nearest")
    L["tensorflow.stack"] = lambda values, axis=0: A(eng, "stack", _seq(values), axis)
    L["tensorflow.concat"] = lambda values, axis: A(eng, "concatenate", _seq(values), axis)
    L["tensorflow.reshape"] = lambda tensor, shape: A(eng, "reshape", tensor, _seq(shape))
    L["tensorflow.einsum"] = lambda equation, *inputs: A(eng, "einsum", equation, tuple(inputs))
    L["tensorflow.transpose"] = lambda a_, perm=None: A(eng, "transpose", a_) if perm is None else A(eng, "transpose_perm", a_, _seq(perm))
    L["tensorflow.compat.v2.gather"] = lambda params, indices, axis=None: eng.opaque_item(params, indices) if axis is None else A(eng, "gather_axis", params, indices, axis)
    L["tensorflow.gather"] = L["tensorflow.compat.v2.gather"]
    L["tensorflow.boolean_mask"] = lambda tensor, mask, axis=None: eng.opaque_item(tensor, mask) if axis is None else A(eng, "mask_axis", tensor, mask, axis)
    return L


def _policy(fname):
    pol = {"inline": [f"{TENSOR}/{fname}.py::"]}

    def make(path):
        def handler(eng, call):
            fn = library(eng)[path]
            try:
                return fn(*call.args, **call.kwargs)
            except TypeError as e:          # the library would refuse this call, too
                raise PyRaise(TypeError, (f"{path}: {e}",))
        return handler
    for path in library(None):
        pol["ext:" + path] = make(path)

    def tf_cond(eng, call):
        b = inspect.signature(lambda pred, true_fn=None, false_fn=None, name=None: 0).bind(*call.args, **call.kwargs).arguments
        return eng.call(b["true_fn"], [], {}) if eng.truth(b["pred"]) else eng.call(b["false_fn"], [], {})
    pol["ext:tensorflow.cond"] = tf_cond
    # methods and attributes of library tensors
    pol[("obj_method", "tile")] = lambda eng, o, *reps: A(eng, "tile", o, _seq(reps[0]) if len(reps) == 1 else tuple(reps))
    pol[("obj_method", "tolist")] = lambda eng, o: A(eng, "tolist", o)
    pol[("obj_method", "numpy")] = lambda eng, o: o
    pol[("obj_method", "type")] = lambda eng, o, dtype=None: o
    pol[("obj_method", "transpose")] = lambda eng, o, *dims: A(eng, "transpose", o) if dims in ((), (0, 1), (1, 0)) else A(eng, "transpose_perm", o, tuple(dims))
    pol[("obj_attr", "data")] = lambda eng, o: o
    return pol


# ---------------------------------------------------------------- the contracts
def _specs(eng, S):
    """operation -> (arguments, keyword arguments, expected abstract value).  The same table for every backend."""
    x, y, m, idx, lo, hi, reps, axis, shape, q, subs = (S[k] for k in ("x", "y", "mask", "idx", "lo", "hi", "reps", "axis", "shape", "q", "subs"))
    dt = lambda name: Ext(DTYPES[S["backend"]][S["precision"]][name])
    T = [
        ("clip", [x, lo, hi], {}, lambda: A(eng, "clip", x, lo, hi)),
        ("clip-floor-only", [x, lo, None], {}, lambda: A(eng, "max2", x, lo)),
        ("where", [m, x, y], {}, lambda: A(eng, "where", m, x, y)),
        ("tile", [x, reps], {}, lambda: A(eng, "tile", x, reps)),
        ("gather", [x, idx], {}, lambda: eng.opaque_item(x, idx)),
        ("boolean_mask", [x, m], {}, lambda: eng.opaque_item(x, m)),
        ("isfinite", [x], {}, lambda: A(eng, "isfinite", x)),
        ("sum", [x], {}, lambda: A(eng, "sum", x, None)),
        ("sum-axis", [x], {"axis": axis}, lambda: A(eng, "sum", x, axis)),
        ("sum-axis-positional", [x, axis], {}, lambda: A(eng, "sum", x, axis)),
        ("product", [x], {}, lambda: A(eng, "prod", x, None)),
        ("product-axis", [x], {"axis": axis}, lambda: A(eng, "prod", x, axis)),
        ("abs", [x], {}, lambda: A(eng, "abs", x)),
        ("ones", [shape], {}, lambda: A(eng, "ones", shape, dt("float"))),
        ("ones-int", [shape], {"dtype": "int"}, lambda: A(eng, "ones", shape, dt("int"))),
        ("zeros", [shape], {}, lambda: A(eng, "zeros", shape, dt("float"))),
        ("zeros-bool", [shape], {"dtype": "bool"}, lambda: A(eng, "zeros", shape, dt("bool"))),
        ("power", [x, y], {}, lambda: A(eng, "power", x, y)),
        ("sqrt", [x], {}, lambda: A(eng, "sqrt", x)),
        ("divide", [x, y], {}, lambda: A(eng, "divide", x, y)),
        ("log", [x], {}, lambda: A(eng, "log", x)),
        ("exp", [x], {}, lambda: A(eng, "exp", x)),
        ("erf", [x], {}, lambda: A(eng, "erf", x)),
        ("erfinv", [x], {}, lambda: A(eng, "erfinv", x)),
        ("stack", [[x, y]], {}, lambda: A(eng, "stack", (x, y), 0)),
        ("stack-axis", [[x, y]], {"axis": axis}, lambda: A(eng, "stack", (x, y), axis)),
        ("concatenate", [[x, y]], {}, lambda: A(eng, "concatenate", (x, y), 0)),
        ("concatenate-axis", [[x, y]], {"axis": axis}, lambda: A(eng, "concatenate", (x, y), axis)),
        ("reshape", [x, shape], {}, lambda: A(eng, "reshape", x, shape)),
        ("ravel", [x], {}, lambda: A(eng, "reshape", x, -1)),
        ("einsum", [subs, x, y], {}, lambda: A(eng, "einsum", subs, (x, y))),
        ("einsum-three-operands", [subs, x, y, m], {}, lambda: A(eng, "einsum", subs, (x, y, m))),
        ("transpose", [x], {}, lambda: A(eng, "transpose", x)),
        ("percentile", [x, q], {}, lambda: A(eng, "percentile", x, q, None, "linear")),
        ("percentile-axis", [x, q], {"axis": axis}, lambda: A(eng, "percentile", x, q, axis, "linear")),
        ("to_numpy", [x], {}, lambda: x),
        ("tolist", [x], {}, lambda: A(eng, "tolist", x)),
        ("astensor", [x], {}, lambda: A(eng, "astensor", x, dt("float"))),
        ("astensor-int", [x], {"dtype": "int"}, lambda: A(eng, "astensor", x, dt("int"))),
    ]
    return T


SKIP = {("pytorch", "percentile"): "torch.quantile has no interpolation argument in the wrapper: only the default 'linear' is stated",
        }


def make_task(fname, bname):
    def task(T):
        base = f"{TENSOR}/{fname}.py::{fname}"
        eng = T.engine(_policy(fname))
        opnames = sorted({n.split("-")[0] for n, *_ in _specs_names()})
        for m in opnames + ["conditional"]:
            T.under_contract(eng, f"{base}.{m}")
        box = {}

        def run():
            cls = eng.module(f"{TENSOR}/{fname}.py").get(fname)
            tl = eng.instantiate(cls, [], {})
            S = {k: eng.obj(k) for k in ("x", "y", "mask", "idx", "lo", "hi", "axis")}
            S["q"] = eng.real("q")
            S["reps"] = (eng.obj("r0"), eng.obj("r1"))
            S["shape"] = (eng.obj("d0"), eng.obj("d1"))
            S["subs"] = "ij,ij->ij"
            for k in ("x", "y", "mask", "idx", "lo", "hi", "axis"):
                eng.assume(z3.Not(_isnone(S[k])))
            S["backend"], S["precision"] = bname, "64b"
            # facts about the abstract operations (mathematics of the operations, not of the code):
            #  a 0-d tensor has a single element - reducing it over any axis is reducing it altogether;
            #  converting a tensor to the dtype it already has changes nothing; a converted tensor has the dtype asked for
            empty = eng.box(())
            for op in ("sum", "prod"):
                eng.assume(z3.Implies(eng.opaque_attr(S["x"], "shape") == empty, A(eng, op, S["x"], S["axis"]) == A(eng, op, S["x"], None)))
            for kind in ("float", "int", "bool"):
                d = eng.box(Ext(DTYPES[bname]["64b"][kind]))
                eng.assume(z3.Implies(eng.opaque_attr(S["x"], "dtype") == d, A(eng, "astensor", S["x"], d) == S["x"]))
                conv = A(eng, "astensor", S["x"], d)
                eng.assume(eng.opaque_attr(conv, "dtype") == d)
                eng.assume(A(eng, "astensor", conv, d) == conv)
            box["S"] = S
            out = {}
            for name, args, kwargs, want in _specs(eng, S):
                try:
                    got = eng.call(eng.getattr(tl, name.split("-")[0]), list(args), dict(kwargs))
                    out[name] = ("value", got, want())
                except PyRaise as e:
                    out[name] = ("raise", e.exc_name if hasattr(e, "exc_name") else str(e), None)
            # conditional: evaluates exactly the selected callable
            p = eng.bool("pred")
            tv, fv = eng.obj("true_value"), eng.obj("false_value")
            tf_ = NativeFn("true_callable", lambda: tv)
            ff_ = NativeFn("false_callable", lambda: fv)
            got = eng.call(eng.getattr(tl, "conditional"), [p, tf_, ff_], {})
            out["conditional"] = ("value", got, z3.If(p, tv, fv))
            return out
        results = eng.explore(run)
        T.absorb(eng, results)
        for k, r in enumerate(results):
            sfx = f"@path{k}" if len(results) > 1 else ""
            if r.kind != "return":
                T.fail(f"{base}#no-raise{sfx}", f"{r.exc_name} {getattr(r.value, 'eargs', '')}", kind="raises", backend=bname)
                continue
            for name, (kind, got, want) in r.value.items():
                op = name.split("-")[0]
                oname = f"{base}.{op}#post.is-the-abstract-operation[{name}]{sfx}"
                if kind == "raise":
                    T.fail(oname, f"raises {got}", kind="raises", backend=bname, op=op, case=name)
                    continue
                T.ob_path(eng, oname, r, _eq(eng, got, want), kind="forwarding", backend=bname, op=op, case=name)
    return task


def _isnone(o):
    from pyvc.values import isnone_of
    return isnone_of(o)


def _eq(eng, got, want):
    v = eng.veq(got, want)
    return z3.BoolVal(v) if isinstance(v, bool) else v


def _specs_names():
    import collections
    return [(n,) for n, *_ in _specs(None, collections.defaultdict(lambda: None))]


# ---------------------------------------------------------------- construction and _setup: library-global state
def t_lifecycle(T):
    """Constructing a backend object changes nothing outside the object (objects are created freely - e.g. to be handed to
    set_backend later, or never): no library call at all.  _setup() - which set_backend runs AFTER the subscribers of live objects
    have already recomputed their tensors - configures library-global state only where a backend needs it: pytorch sets the library's
    default dtype to ITS float type; numpy, jax and tensorflow configure nothing (jax's 64-bit mode is switched on once, at import)."""
    for fname, bname in BACKENDS:
        base = f"{TENSOR}/{fname}.py::{fname}"
        for precision in ("64b", "32b"):
            eng = T.engine({"inline": [f"{TENSOR}/{fname}.py::"]})
            for m in ("__init__", "_setup"):
                T.under_contract(eng, f"{base}.{m}")
            box = {}

            def run():
                cls = eng.module(f"{TENSOR}/{fname}.py").get(fname)
                n0 = len(eng.path.calls)
                tl = eng.instantiate(cls, [], {"precision": precision})
                n1 = len(eng.path.calls)
                eng.call(eng.getattr(tl, "_setup"), [], {})
                box.update(init=eng.path.calls[n0:n1], setup=eng.path.calls[n1:], tl=tl)
                return tl
            results = eng.explore(run)
            T.absorb(eng, results)
            for k, r in enumerate(results):
                sfx = f"@{precision}" + (f",path{k}" if len(results) > 1 else "")
                meta = dict(backend=bname, lifecycle=True, precision=precision)
                if r.kind != "return":
                    T.fail(f"{base}.__init__#no-raise{sfx}", str(r.exc_name), kind="raises", **meta)
                    continue
                ext = lambda cs: [c for c in cs if isinstance(c.target, str) and c.target.startswith("ext:")]
                ci, cs_ = ext(box["init"]), ext(box["setup"])
                ok = not ci
                (T.ok if ok else T.fail)(f"{base}.__init__#frame.constructing-a-backend-object-has-no-effect-outside-it{sfx}",
                                         *([] if ok else [f"library calls during construction: {[c.target for c in ci]}"]), kind="frame", **meta)
                if bname == "pytorch":
                    good = len(cs_) == 1 and cs_[0].target == "ext:torch.set_default_dtype"
                    (T.ok if good else T.fail)(f"{base}._setup#post.sets-the-library-default-dtype-once{sfx}", *([] if good else [f"{[c.target for c in cs_]}"]), kind="frame", **meta)
                    if good:
                        want = Ext(DTYPES[bname][precision]["float"])
                        T.ob_path(eng, f"{base}._setup#post.default-dtype-is-the-float-type-of-this-precision{sfx}", r, _eq(eng, cs_[0].args[0], want), kind="frame", **meta)
                else:
                    good = not cs_
                    (T.ok if good else T.fail)(f"{base}._setup#frame.configures-no-library-global-state{sfx}",
                                               *([] if good else [f"library calls in _setup: {[c.target for c in cs_]}"]), kind="frame", **meta)


def t_object_state(T):
    """(1) a second backend object of the other precision leaves the first one as it was (name, precision, dtype map): whatever
    construction does, it does it to the new object only;  (2) astensor has no memory: converting the same list object again after
    the caller changed it in place converts the new content."""
    for fname, bname in BACKENDS:
        base = f"{TENSOR}/{fname}.py::{fname}"
        eng = T.engine(_policy(fname))
        T.under_contract(eng, f"{base}.__init__")
        T.under_contract(eng, f"{base}.astensor")
        box = {}

        def run():
            cls = eng.module(f"{TENSOR}/{fname}.py").get(fname)
            first = eng.instantiate(cls, [], {"precision": "64b"})
            read = lambda o: {"name": eng.getattr(o, "name"), "precision": eng.getattr(o, "precision"),
                              "dtypemap": {k: eng.getattr(o, "dtypemap")[k] for k in ("float", "int", "bool")}}
            before = read(first)
            second = eng.instantiate(cls, [], {"precision": "32b"})
            after = read(first)
            vals = [eng.real(f"v{i}") for i in range(40)]
            lst = list(vals)
            new0 = eng.real("v0_new")
            eng.assume(new0 != vals[0])
            # facts about the abstract conversion: the result has the dtype asked for, converting it again changes nothing
            d = eng.box(Ext(DTYPES[bname]["64b"]["float"]))
            for content in (list(vals), [new0] + list(vals[1:])):
                conv = A(eng, "astensor", content, d)
                eng.assume(eng.opaque_attr(conv, "dtype") == d)
                eng.assume(A(eng, "astensor", conv, d) == conv)
            t1 = eng.call(eng.getattr(first, "astensor"), [lst], {})
            lst[0] = new0
            t2 = eng.call(eng.getattr(first, "astensor"), [lst], {})
            box.update(before=before, after=after, second=read(second), t1=t1, t2=t2, vals=vals, new0=new0)
            return True
        results = eng.explore(run)
        T.absorb(eng, results)
        for k, r in enumerate(results):
            sfx = f"@path{k}" if len(results) > 1 else ""
            meta = dict(backend=bname, lifecycle=True)
            if r.kind != "return":
                T.fail(f"{base}.__init__#no-raise{sfx}", f"{r.exc_name} {getattr(r.value, 'eargs', '')}", kind="raises", **meta)
                continue
            same = eng.veq(box["before"], box["after"])
            if same is False:
                T.fail(f"{base}.__init__#frame.other-backend-objects-unchanged{sfx}", f"{box['before']} -> {box['after']}", kind="frame", **meta)
            else:
                T.ob_path(eng, f"{base}.__init__#frame.other-backend-objects-unchanged{sfx}", r, _eq(eng, box["before"], box["after"]), kind="frame", **meta)
            want64 = {k2: Ext(DTYPES[bname]["64b"][k2]) for k2 in ("float", "int", "bool")}
            want32 = {k2: Ext(DTYPES[bname]["32b"][k2]) for k2 in ("float", "int", "bool")}
            T.ob_path(eng, f"{base}.__init__#post.dtype-map-of-its-own-precision{sfx}", r,
                      z3.And(_eq(eng, box["after"]["dtypemap"], want64), _eq(eng, box["second"]["dtypemap"], want32)), kind="frame", **meta)
            d = Ext(DTYPES[bname]["64b"]["float"])
            new_content = [box["new0"]] + box["vals"][1:]
            conv = lambda content: A(eng, "astensor", content, d)
            T.ob_path(eng, f"{base}.astensor#history.converts-the-current-content-of-a-list-seen-before{sfx}", r,
                      z3.And(_eq(eng, box["t1"], conv(box["vals"])), _eq(eng, box["t2"], conv(new_content))), kind="forwarding", **meta)


def replay_lifecycle(r):
    """(1) constructing backend objects of the other precision must not change what the active backend computes;
    (2) a model that lives through  jax/32b -> numpy -> [model] -> jax/64b  holds the same tensors as a model created afterwards"""
    import numpy as np
    import pyhf
    meta = r.get("meta") or {}
    bname = meta.get("backend")
    bad = {}
    try:
        pyhf.set_backend(bname, precision="64b")
        tl, _ = pyhf.get_backend()
        before = str(np.asarray(tl.tolist(tl.normal_cdf(0.3)), dtype=np.float64).item().hex()) + str(getattr(tl.astensor([1.0]), "dtype", ""))
        other = type(tl)(precision="32b")            # constructed, never activated
        after = str(np.asarray(tl.tolist(tl.normal_cdf(0.3)), dtype=np.float64).item().hex()) + str(getattr(tl.astensor([1.0]), "dtype", ""))
        if before != after:
            bad["constructing-an-unused-32b-backend-object"] = {"normal_cdf(0.3) and float dtype before": before, "after": after}
        if bname == "pytorch":
            import torch
            if torch.get_default_dtype() != torch.float64:
                bad["library default dtype under the active 64b backend"] = str(torch.get_default_dtype())
        del other
        # a held 64b backend object stays a 64b backend whatever is constructed later
        held = type(tl)(precision="64b")
        snap = {k: str(v) for k, v in held.dtypemap.items()}
        later = type(tl)(precision="32b")
        if {k: str(v) for k, v in held.dtypemap.items()} != snap or held.precision != "64b":
            bad["a held 64b backend object after a 32b one was constructed"] = {"dtype map before": snap, "after": {k: str(v) for k, v in held.dtypemap.items()}}
        if str(getattr(held.astensor([1.0]), "dtype", "")) != str(getattr(tl.astensor([1.0]), "dtype", "")):
            bad["float type of the held 64b object"] = str(getattr(held.astensor([1.0]), "dtype", ""))
        del later
        # astensor has no memory of lists it has seen
        lst = [float(i) + 0.25 for i in range(40)]
        first = np.asarray(tl.tolist(tl.astensor(lst)), dtype=np.float64)
        lst[0] = 99.5
        again = np.asarray(tl.tolist(tl.astensor(lst)), dtype=np.float64)
        if first[0] != 0.25 or again[0] != 99.5:
            bad["astensor of a list changed in place between two calls"] = {"first call": float(first[0]), "second call": float(again[0]), "expected": [0.25, 99.5]}
        spec = {"channels": [{"name": "c", "samples": [{"name": "s", "data": [50.123456789012345, 60.1], "modifiers": [
            {"name": "mu", "type": "normfactor", "data": None}, {"name": "u", "type": "shapesys", "data": [5.123456789012345, 7.7]}]}]}]}
        pyhf.set_backend(bname, precision="32b")
        pyhf.set_backend("numpy" if bname != "numpy" else "jax")
        old = pyhf.Model(spec, poi_name="mu")
        pyhf.set_backend(bname, precision="64b")
        new = pyhf.Model(spec, poi_name="mu")
        tl, _ = pyhf.get_backend()
        pars = tl.astensor([1.0, 1.01, 0.99])
        a, b = np.asarray(tl.tolist(old.expected_data(pars)), dtype=np.float64), np.asarray(tl.tolist(new.expected_data(pars)), dtype=np.float64)
        if a.shape != b.shape or not np.array_equal(a, b):
            bad[f"history {bname}/32b > other > [model] > {bname}/64b"] = {"old model": a.tolist(), "model created after the switch": b.tolist()}
    except Exception as e:
        bad["exception"] = f"{type(e).__name__}: {e}"
    finally:
        pyhf.set_backend("numpy")
    return {"reproduced": bool(bad), "disagreements": bad}


def backend_op_tasks(tier=None):
    return [(f"backend-ops[{bname}]", make_task(fname, bname)) for fname, bname in BACKENDS] + [("backend-lifecycle", t_lifecycle), ("backend-object-state", t_object_state)]


# ---------------------------------------------------------------- native replay: the real backend against a numpy reference
def _reference(np):
    from scipy import special
    return {
        "clip": lambda x, y, m, i: (np.clip(x, 0.7, 2.1), ("x", 0.7, 2.1)),
    }


def replay_backend_op(r):
    """call the real backend's operation on concrete tensors and compare with numpy's meaning of the abstract operation"""
    import numpy as np
    import pyhf
    from scipy import special
    meta = r.get("meta") or {}
    if meta.get("lifecycle"):
        return replay_lifecycle(r)
    bname, op = meta.get("backend"), meta.get("op")
    if not bname or not op:
        return None
    bad = {}
    x = np.array([[0.5, 1.5, 2.5], [3.5, -1.0, 0.25]])
    y = np.array([[2.0, 0.5, 1.0], [1.5, 3.0, 2.0]])
    mask = np.array([[True, False, True], [False, False, True]])
    v = np.array([0.5, 1.5, 2.5, 4.0])
    idx = np.array([2, 0, 3])
    try:
        pyhf.set_backend(bname, precision="64b")
        tl, _ = pyhf.get_backend()
        Tn = lambda a, dtype="float": tl.astensor(a, dtype=dtype)
        N = lambda t: np.asarray(tl.tolist(t))

        def cmp(case, got, want):
            got = np.asarray(got)
            want = np.asarray(want)
            if got.shape != want.shape or not np.allclose(got.astype(float), want.astype(float), rtol=1e-12, atol=0, equal_nan=True):
                bad[f"{bname}.{case}"] = {"got": got.tolist(), "expected": want.tolist()}
        cases = {
            "clip": lambda: [cmp("clip(x, 0.7, 2.1)", N(tl.clip(Tn(x), 0.7, 2.1)), np.clip(x, 0.7, 2.1)),
                             cmp("clip(x, 0.7, None)", N(tl.clip(Tn(x), 0.7, None)), np.maximum(x, 0.7)),
                             cmp("clip([-2,-3], 0, None)", N(tl.clip(Tn([-2.0, -3.0]), 0.0, None)), [0.0, 0.0]), cmp("clip([-2,-3], 0.1, None)", N(tl.clip(Tn([-2.0, -3.0]), 0.1, None)), [0.1, 0.1])],
            "where": lambda: [cmp("where(mask, x, y)", N(tl.where(Tn(mask, "bool"), Tn(x), Tn(y))), np.where(mask, x, y)),
                              # the unselected operand may be anything, also non-finite (pieces evaluated outside their domain)
                              cmp("where([T, F, T], [1, inf, 3], [nan, 2, -inf])", N(tl.where(Tn([True, False, True], "bool"), Tn([1.0, np.inf, 3.0]), Tn([np.nan, 2.0, -np.inf]))), [1.0, 2.0, 3.0])],
            "tile": lambda: [cmp("tile(x, (2, 1))", N(tl.tile(Tn(x), (2, 1))), np.tile(x, (2, 1))), cmp("tile(x, (1, 3))", N(tl.tile(Tn(x), (1, 3))), np.tile(x, (1, 3)))],
            "gather": lambda: [cmp("gather(v, [2,0,3])", N(tl.gather(Tn(v), Tn(idx, "int"))), v[idx]), cmp("gather(x, [1,0])", N(tl.gather(Tn(x), Tn([1, 0], "int"))), x[[1, 0]])],
            "boolean_mask": lambda: [cmp("boolean_mask(x, mask)", N(tl.boolean_mask(Tn(x), Tn(mask, "bool"))), x[mask])],
            "isfinite": lambda: [cmp("isfinite", N(tl.isfinite(Tn([1.0, np.inf, np.nan, -np.inf]))), [True, False, False, False])],
            "sum": lambda: [cmp("sum(x)", N(tl.sum(Tn(x))), np.sum(x)), cmp("sum(x, axis=0)", N(tl.sum(Tn(x), axis=0)), np.sum(x, axis=0)),
                            cmp("sum(x, axis=1)", N(tl.sum(Tn(x), axis=1)), np.sum(x, axis=1)), cmp("sum(x, 1)", N(tl.sum(Tn(x), 1)), np.sum(x, 1)),
                            cmp("sum(scalar, axis=0)", N(tl.sum(Tn(3.5), axis=0)), 3.5) if bname in ("pytorch", "tensorflow") else None,
                            # non-finite entries are summed, not skipped
                            cmp("sum([1, nan, 2])", N(tl.sum(Tn([1.0, np.nan, 2.0]))), np.nan), cmp("sum([[1, nan], [2, 3]], axis=0)", N(tl.sum(Tn([[1.0, np.nan], [2.0, 3.0]]), axis=0)), [3.0, np.nan]),
                            cmp("sum([1, inf])", N(tl.sum(Tn([1.0, np.inf]))), np.inf)],
            "product": lambda: [cmp("product(x)", N(tl.product(Tn(x))), np.prod(x)), cmp("product(x, axis=0)", N(tl.product(Tn(x), axis=0)), np.prod(x, axis=0)),
                                cmp("product(x, axis=1)", N(tl.product(Tn(x), axis=1)), np.prod(x, axis=1)),
                                cmp("product([2, nan])", N(tl.product(Tn([2.0, np.nan]))), np.nan), cmp("product([0, 3])", N(tl.product(Tn([0.0, 3.0]))), 0.0),
                                # only the reduction axis goes, other axes of length 1 stay
                                cmp("product(shape (1,1,3), axis=0)", N(tl.product(Tn(np.full((1, 1, 3), 2.0)), axis=0)), np.full((1, 3), 2.0)),
                                cmp("product(shape (1,2,1), axis=0)", N(tl.product(Tn(np.full((1, 2, 1), 3.0)), axis=0)), np.full((2, 1), 3.0))],
            "abs": lambda: [cmp("abs", N(tl.abs(Tn(x))), np.abs(x))],
            "ones": lambda: [cmp("ones((2,3))", N(tl.ones((2, 3))), np.ones((2, 3))), cmp("ones((3,), int)", N(tl.ones((3,), dtype="int")), np.ones((3,), dtype=int)),
                             _dtype_case(bad, bname, "ones", tl.ones((2,)), tl), _dtype_case(bad, bname, "ones-int", tl.ones((2,), dtype="int"), tl, "int")],
            "zeros": lambda: [cmp("zeros((2,3))", N(tl.zeros((2, 3))), np.zeros((2, 3))), cmp("zeros((3,), bool)", N(tl.zeros((3,), dtype="bool")), np.zeros((3,), dtype=bool)),
                              _dtype_case(bad, bname, "zeros", tl.zeros((2,)), tl), _dtype_case(bad, bname, "zeros-bool", tl.zeros((2,), dtype="bool"), tl, "bool")],
            "power": lambda: [cmp("power(y, x)", N(tl.power(Tn(y), Tn(x))), np.power(y, x)),
                              cmp("power([0, 0, 2, 0.5], [0, 1, 0, -2])", N(tl.power(Tn([0.0, 0.0, 2.0, 0.5]), Tn([0.0, 1.0, 0.0, -2.0]))), [1.0, 0.0, 1.0, 4.0])],
            "sqrt": lambda: [cmp("sqrt", N(tl.sqrt(Tn(y))), np.sqrt(y)), cmp("sqrt(tiny)", N(tl.sqrt(Tn([0.0, 1e-300, 1e-20, 1e-9, 1e300]))), np.sqrt([0.0, 1e-300, 1e-20, 1e-9, 1e300]))],
            "divide": lambda: [cmp("divide(x, y)", N(tl.divide(Tn(x), Tn(y))), x / y)],
            "log": lambda: [cmp("log", N(tl.log(Tn(y))), np.log(y))],
            "exp": lambda: [cmp("exp", N(tl.exp(Tn(x))), np.exp(x))],
            "erf": lambda: [cmp("erf", N(tl.erf(Tn(x))), special.erf(x))],
            "erfinv": lambda: [cmp("erfinv", N(tl.erfinv(Tn([0.1, -0.5, 0.9]))), special.erfinv([0.1, -0.5, 0.9]))],
            "stack": lambda: [cmp("stack([x, y])", N(tl.stack([Tn(x), Tn(y)])), np.stack([x, y])), cmp("stack([x, y], axis=1)", N(tl.stack([Tn(x), Tn(y)], axis=1)), np.stack([x, y], axis=1))],
            "concatenate": lambda: [cmp("concatenate([x, y])", N(tl.concatenate([Tn(x), Tn(y)])), np.concatenate([x, y])),
                                    cmp("concatenate([x, y], axis=1)", N(tl.concatenate([Tn(x), Tn(y)], axis=1)), np.concatenate([x, y], axis=1))],
            "reshape": lambda: [cmp("reshape(x, (3, 2))", N(tl.reshape(Tn(x), (3, 2))), x.reshape(3, 2)),
                                # a tensor that is not contiguous in memory (a transposed batch) reshapes like any other
                                cmp("reshape(transpose(x), (3, 2))", N(tl.reshape(tl.transpose(Tn(x)), (3, 2))), x.T.reshape(3, 2)),
                                cmp("reshape(transpose(x), (6,))", N(tl.reshape(tl.transpose(Tn(x)), (6,))), x.T.reshape(6))],
            "ravel": lambda: [cmp("ravel(x)", N(tl.ravel(Tn(x))), x.ravel())],
            "einsum": lambda: [cmp("einsum('ij,ij->ij')", N(tl.einsum("ij,ij->ij", Tn(x), Tn(y))), x * y), cmp("einsum('ij,kj->ik')", N(tl.einsum("ij,kj->ik", Tn(x), Tn(y))), x @ y.T),
                               cmp("einsum('i,ij,j->ij')", N(tl.einsum("i,ij,j->ij", Tn([2.0, 3.0]), Tn(x), Tn([1.0, 2.0, 4.0]))), np.einsum("i,ij,j->ij", [2.0, 3.0], x, [1.0, 2.0, 4.0]))],
            "transpose": lambda: [cmp("transpose(x)", N(tl.transpose(Tn(x))), x.T)],
            "percentile": lambda: [cmp("percentile(v, 30)", N(tl.percentile(Tn(v), Tn(30.0))), np.percentile(v, 30.0)),
                                   cmp("percentile(x, 75, axis=0)", N(tl.percentile(Tn(x), Tn(75.0), axis=0)), np.percentile(x, 75.0, axis=0))],
            "to_numpy": lambda: [cmp("to_numpy(x)", tl.to_numpy(Tn(x)), x)],
            "tolist": lambda: [cmp("tolist(x)", tl.tolist(Tn(x)), x.tolist()), cmp("tolist(list)", tl.tolist([1.0, 2.0]), [1.0, 2.0])],
            "astensor": lambda: [cmp("astensor(x)", N(Tn(x)), x), _astensor_under_foreign_default(bad, bname, tl), cmp("astensor([1.9, -1.9], int)", N(Tn([1.9, -1.9], "int")), np.asarray([1.9, -1.9]).astype(int)),
                                 _dtype_case(bad, bname, "astensor", Tn([1.0]), tl), _dtype_case(bad, bname, "astensor-int", Tn([1], "int"), tl, "int")],
            "conditional": lambda: [cmp("conditional(True)", N(tl.conditional(Tn(True, "bool") if bname == "tensorflow" else True, lambda: Tn([1.0]), lambda: Tn([2.0]))), [1.0]),
                                    cmp("conditional(False)", N(tl.conditional(Tn(False, "bool") if bname == "tensorflow" else False, lambda: Tn([1.0]), lambda: Tn([2.0]))), [2.0])],
        }
        # frame: an operation never writes into its operands (cached tensors are handed to these operations again and again)
        big = np.linspace(0.5, 2.5, 300).reshape(2, 150)
        frames = {
            "clip": lambda a, b, m: [tl.clip(a, 0.7, 2.1), tl.clip(a, 0.7, None)],
            "where": lambda a, b, m: [tl.where(m, a, b)], "power": lambda a, b, m: [tl.power(a, b)], "divide": lambda a, b, m: [tl.divide(a, b)],
            "sqrt": lambda a, b, m: [tl.sqrt(a)], "log": lambda a, b, m: [tl.log(a)], "exp": lambda a, b, m: [tl.exp(a)], "abs": lambda a, b, m: [tl.abs(a)],
            "sum": lambda a, b, m: [tl.sum(a), tl.sum(a, axis=0)], "product": lambda a, b, m: [tl.product(a), tl.product(a, axis=0)],
            "einsum": lambda a, b, m: [tl.einsum("ij,ij->ij", a, b)], "tile": lambda a, b, m: [tl.tile(a, (2, 1))], "reshape": lambda a, b, m: [tl.reshape(a, (-1,))],
            "stack": lambda a, b, m: [tl.stack([a, b])], "concatenate": lambda a, b, m: [tl.concatenate([a, b])],
        }
        if op in frames:
            for tag, xa, ya in (("2x3", x, y), ("2x150", big, big[::-1].copy())):
                try:
                    ma = (xa > 1.0)
                    for uniform in (False, True):
                        a, b, m = Tn(xa.copy()), Tn(ya.copy()), Tn(np.ones_like(ma) if uniform else ma, "bool")
                        frames[op](a, b, m)
                        if not (np.array_equal(N(a), xa) and np.array_equal(N(b), ya)):
                            bad[f"{bname}.{op} modifies an operand ({tag}{', uniform mask' if uniform else ''})"] = {"first operand before": xa.ravel()[:4].tolist(), "after": np.asarray(N(a)).ravel()[:4].tolist()}
                except Exception as e:
                    bad[f"{bname}.{op} frame ({tag})"] = f"raises {type(e).__name__}: {e}"
        if op in cases:
            try:
                cases[op]()
            except Exception as e:
                bad[f"{bname}.{op}"] = f"raises {type(e).__name__}: {e}"
    except Exception as e:
        return {"reproduced": False, "error": f"{type(e).__name__}: {e}"}
    finally:
        pyhf.set_backend("numpy")
    return {"reproduced": bool(bad), "disagreements": bad}


def _astensor_under_foreign_default(bad, bname, tl):
    """the library's process-wide default float type (which other code may set) must not round what astensor converts at 64b"""
    import numpy as np
    if bname != "pytorch":
        return
    import torch
    saved = torch.get_default_dtype()
    try:
        torch.set_default_dtype(torch.float32)
        vals = [1.1, 2.0 / 3.0, 1e-9 + 1.0]
        got = [float(v) for v in np.asarray(tl.tolist(tl.astensor(vals)), dtype=np.float64)]
        one = float(np.asarray(tl.tolist(tl.astensor(1.1)), dtype=np.float64))
        if got != vals or one != 1.1:
            bad[f"{bname}.astensor of Python floats while the library default dtype is float32"] = {"got": got + [one], "expected": vals + [1.1]}
    finally:
        torch.set_default_dtype(saved)


def _dtype_case(bad, bname, case, t, tl, kind="float"):
    want = tl.dtypemap[kind]
    got = getattr(t, "dtype", None)
    if got != want:
        bad[f"{bname}.{case}.dtype"] = {"got": str(got), "expected": str(want)}
