"""C06 - profile-likelihood test statistics obey their case definitions.

Oracle (from the statement): every statistic is max(0, v_fixed - v_free) of the two fits it
returns, zeroed when muhat > mu (q, qtilde), when muhat < 0 and always testing mu = 0 (q0), never
zeroed for t, ttilde; UnspecifiedPOI iff no POI; non-negative."""
import z3

from pyvc.values import isnone_of, real_of, PyRaise, ClassV
from .common import (TS, MLE, calls_to, fit_contract, poi_index, qmu_like_contract, std_args, tmu_like_contract,
                     unspecified_poi, zmax)

PROPERTY = "C06"
LEVEL = "proof"
EXPLANATION = ("every path of _tmu_like/_qmu_like/q0/qmu/qmu_tilde/tmu/tmu_tilde/get_test_stat is executed symbolically on "
               "the current source with the two fits replaced by their (pars, val) contract; the case definitions of the "
               "statement are the postconditions, discharged by z3 for all reals")
TRUSTED = ["fit/fixed_poi_fit return (fitted parameters, objective value) - the C05 contract; closed-form values not decided",
           "tensorlib.where/clip/astensor pointwise op contracts"]
ASSUMPTIONS = ["numeric agreement with closed-form profile likelihoods needs the external optimiser and is not decided"]

ARGS = ["mu", "data", "pdf", "init_pars", "par_bounds", "fixed_params"]


def _policy_tmu():
    return {f"{MLE}::fit": fit_contract("fit"), f"{MLE}::fixed_poi_fit": fit_contract("fixed_poi_fit")}


def t_tmu_like(T):
    key = f"{TS}::_tmu_like"
    for rfp in (False, True):
        eng = T.engine(_policy_tmu())
        f = T.under_contract(eng, key)
        box = {}

        def thunk():
            a = std_args(eng)
            box["a"] = a
            return eng.call_function(f, [a[n] for n in ARGS], {"return_fitted_pars": rfp}, force_inline=True)
        results = eng.explore(thunk)
        T.absorb(eng, results)
        case = f"@rfp={rfp}"
        normal = [r for r in results if r.kind == "return"]
        if not normal:
            T.fail(f"{key}#post.value{case}", "no normally returning path")
        for k, r in enumerate(results):
            pid = f"{case},path{k}"
            a = box["a"]
            if r.kind == "raise":
                # the only admissible exception is UnspecifiedPOI from the conditional fit, iff no POI
                T.ob_path(eng, f"{key}#raises.only-UnspecifiedPOI{pid}", r,
                          z3.BoolVal(r.exc_name == "UnspecifiedPOI"), kind="raises")
                continue
            fp = calls_to(r.path, f"{MLE}::fixed_poi_fit")
            ft = calls_to(r.path, f"{MLE}::fit")
            if len(fp) != 1 or len(ft) != 1:
                T.fail(f"{key}#fwd.one-fit-each{pid}", f"fixed_poi_fit called {len(fp)}x, fit called {len(ft)}x", kind="forwarding")
                continue
            T.ok(f"{key}#fwd.one-fit-each{pid}", kind="forwarding")
            fp, ft = fp[0], ft[0]
            # forwarding: conditional fit at the tested value, both fits on the same inputs
            exp_fp = [a[n] for n in ARGS]
            got_fp = [fp.arg(i, n, None) for i, n in enumerate(["poi_val", "data", "pdf", "init_pars", "par_bounds", "fixed_params"])]
            T.ob_path(eng, f"{key}#fwd.fixed_poi_fit-args{pid}", r, eng.veq(got_fp, exp_fp), kind="forwarding")
            exp_ft = [a[n] for n in ARGS[1:]]
            got_ft = [ft.arg(i, n, None) for i, n in enumerate(["data", "pdf", "init_pars", "par_bounds", "fixed_params"])]
            T.ob_path(eng, f"{key}#fwd.fit-args{pid}", r, eng.veq(got_ft, exp_ft), kind="forwarding")
            T.ob_path(eng, f"{key}#fwd.return_fitted_val{pid}", r,
                      eng.veq([fp.kwargs.get("return_fitted_val"), ft.kwargs.get("return_fitted_val")], [True, True]), kind="forwarding")
            out = r.value
            stat = out[0] if rfp else out
            spec = zmax(z3.RealVal(0), fp.val - ft.val)
            inputs = {"v_fixed": fp.val, "v_free": ft.val}
            T.ob_path(eng, f"{key}#post.value{pid}", r, eng.veq(stat, spec), inputs=inputs, rfp=rfp)
            T.ob_path(eng, f"{key}#post.nonneg{pid}", r, eng.to_real(stat) >= 0, inputs=inputs, rfp=rfp)
            T.ob_path(eng, f"{key}#lemma.zero-at-bestfit{pid}", r, z3.Implies(fp.val == ft.val, eng.to_real(stat) == 0), kind="lemma")
            if rfp:
                T.ob_path(eng, f"{key}#post.pars-order{pid}", r, eng.veq(out[1], (fp.pars, ft.pars)), kind="forwarding")
            else:
                T.ok(f"{key}#post.scalar-when-not-requested{pid}") if not isinstance(out, tuple) else T.fail(
                    f"{key}#post.scalar-when-not-requested{pid}", "returned a tuple")
        if normal:
            T.cover(eng, f"{key}#cover{case}", normal[0].path.hyps())
            r = normal[0]
            fp = calls_to(r.path, f"{MLE}::fixed_poi_fit")[0]
            ft = calls_to(r.path, f"{MLE}::fit")[0]
            stat = r.value[0] if rfp else r.value
            T.canary(eng, f"{key}#canary{case}", r.path.hyps(), eng.veq(stat, fp.val - ft.val))


def _zeroing_task(T, fname, zero_when, mu_forced_zero, callee):
    """_qmu_like and q0: one-sided zeroing on top of _tmu_like (its contract, not its body)"""
    key = f"{TS}::{fname}"
    for rfp in (False, True):
        eng = T.engine({f"{TS}::_tmu_like": tmu_like_contract})
        f = T.under_contract(eng, key)
        box = {}

        def thunk():
            a = std_args(eng)
            box["a"] = a
            return eng.call_function(f, [a[n] for n in ARGS], {"return_fitted_pars": rfp}, force_inline=True)
        results = eng.explore(thunk)
        T.absorb(eng, results)
        case = f"@rfp={rfp}"
        a = box["a"]
        nopoi = isnone_of(poi_index(eng, a["pdf"]))
        n_raise = 0
        for k, r in enumerate(results):
            pid = f"{case},path{k}"
            if r.kind == "raise":
                n_raise += 1
                T.ob_path(eng, f"{key}#raises.UnspecifiedPOI-iff-no-poi{pid}", r,
                          z3.And(z3.BoolVal(r.exc_name == "UnspecifiedPOI"), nopoi), kind="raises")
                continue
            T.ob_path(eng, f"{key}#raises.UnspecifiedPOI-iff-no-poi{pid}", r, z3.Not(nopoi), kind="raises")
            cs = calls_to(r.path, f"{TS}::_tmu_like")
            if len(cs) != 1:
                T.fail(f"{key}#fwd._tmu_like-once{pid}", f"_tmu_like called {len(cs)}x", kind="forwarding")
                continue
            c = cs[0]
            exp = [a[n] for n in ARGS]
            if mu_forced_zero:
                exp[0] = 0.0
            got = [c.arg(i, n, None) for i, n in enumerate(ARGS)]
            T.ob_path(eng, f"{key}#fwd._tmu_like-args{pid}", r, eng.veq(got, exp), kind="forwarding")
            T.ob_path(eng, f"{key}#fwd.return_fitted_pars{pid}", r, eng.veq(c.kwargs.get("return_fitted_pars"), True), kind="forwarding")
            muhat = real_of(eng.getitem(c.pars[1], poi_index(eng, a["pdf"])))
            mu = z3.RealVal(0) if mu_forced_zero else real_of(a["mu"])
            spec = z3.If(zero_when(muhat, mu), z3.RealVal(0), c.stat)
            out = r.value
            stat = out[0] if rfp else out
            inputs = {"tmu": c.stat, "muhat_poi": muhat, "mu": real_of(a["mu"])}
            T.ob_path(eng, f"{key}#post.value{pid}", r, eng.veq(stat, spec), inputs=inputs, rfp=rfp)
            T.ob_path(eng, f"{key}#post.nonneg{pid}", r, eng.to_real(stat) >= 0, inputs=inputs, rfp=rfp)
            if rfp:
                T.ob_path(eng, f"{key}#post.pars{pid}", r, eng.veq(out[1], c.pars), kind="forwarding")
        normal = [r for r in results if r.kind == "return"]
        if fname == "q0":
            if n_raise == 0:
                T.fail(f"{key}#raises.UnspecifiedPOI-iff-no-poi{case},exists", "no raising path", kind="raises")
        if normal:
            T.cover(eng, f"{key}#cover{case}", normal[0].path.hyps())
        else:
            T.fail(f"{key}#post.value{case}", "no normally returning path")


def t_qmu_like(T):
    _zeroing_task(T, "_qmu_like", lambda muhat, mu: muhat > mu, False, "_tmu_like")


def t_q0(T):
    _zeroing_task(T, "q0", lambda muhat, mu: muhat < 0, True, "_tmu_like")


def _wrapper_task(T, fname, callee, callee_contract):
    """qmu, qmu_tilde, tmu, tmu_tilde: POI check, then the callee's result unchanged (no zeroing added)"""
    key = f"{TS}::{fname}"
    ckey = f"{TS}::{callee}"
    for rfp in (False, True):
        eng = T.engine({ckey: callee_contract})
        f = T.under_contract(eng, key)
        box = {}

        def thunk():
            a = std_args(eng)
            box["a"] = a
            return eng.call_function(f, [a[n] for n in ARGS], {"return_fitted_pars": rfp}, force_inline=True)
        results = eng.explore(thunk)
        T.absorb(eng, results)
        a = box["a"]
        case = f"@rfp={rfp}"
        nopoi = isnone_of(poi_index(eng, a["pdf"]))
        n_raise = 0
        for k, r in enumerate(results):
            pid = f"{case},path{k}"
            if r.kind == "raise":
                n_raise += 1
                T.ob_path(eng, f"{key}#raises.UnspecifiedPOI-iff-no-poi{pid}", r,
                          z3.And(z3.BoolVal(r.exc_name == "UnspecifiedPOI"), nopoi), kind="raises")
                continue
            T.ob_path(eng, f"{key}#raises.UnspecifiedPOI-iff-no-poi{pid}", r, z3.Not(nopoi), kind="raises")
            cs = calls_to(r.path, ckey)
            if len(cs) != 1:
                T.fail(f"{key}#fwd.{callee}-once{pid}", f"{callee} called {len(cs)}x", kind="forwarding")
                continue
            c = cs[0]
            got = [c.arg(i, n, None) for i, n in enumerate(ARGS)]
            T.ob_path(eng, f"{key}#fwd.{callee}-args{pid}", r, eng.veq(got, [a[n] for n in ARGS]), kind="forwarding")
            T.ob_path(eng, f"{key}#fwd.return_fitted_pars{pid}", r, eng.veq(c.kwargs.get("return_fitted_pars", False), rfp), kind="forwarding")
            # the wrapper returns the callee's result itself: no further zeroing / transformation
            T.ob_path(eng, f"{key}#post.result-is-callee-result{pid}", r, eng.veq(r.value, c.result),
                      inputs={"callee_stat": c.stat}, rfp=rfp)
        if n_raise == 0:
            T.fail(f"{key}#raises.UnspecifiedPOI-iff-no-poi{case},exists", "no raising path", kind="raises")
        normal = [r for r in results if r.kind == "return"]
        if normal:
            T.cover(eng, f"{key}#cover{case}", normal[0].path.hyps())
        else:
            T.fail(f"{key}#post.result-is-callee-result{case}", "no normally returning path")


def t_qmu(T):
    _wrapper_task(T, "qmu", "_qmu_like", qmu_like_contract)


def t_qmu_tilde(T):
    _wrapper_task(T, "qmu_tilde", "_qmu_like", qmu_like_contract)


def t_tmu(T):
    _wrapper_task(T, "tmu", "_tmu_like", tmu_like_contract)


def t_tmu_tilde(T):
    _wrapper_task(T, "tmu_tilde", "_tmu_like", tmu_like_contract)


def t_get_test_stat(T):
    key = "infer/utils.py::get_test_stat"
    eng = T.engine({})
    f = T.under_contract(eng, key)
    ts = eng.module(TS)
    table = {"q": "qmu", "qtilde": "qmu_tilde", "q0": "q0"}
    for name in ["q", "qtilde", "q0", "t", "qmu", "", "Q0"]:
        results = eng.explore(lambda: eng.call_function(f, [name], {}, force_inline=True))
        r = results[0]
        if name in table:
            good = len(results) == 1 and r.kind == "return" and r.value is ts.get(table[name])
            (T.ok if good else T.fail)(f"{key}#post.table@{name}", *([] if good else [f"got {r.kind} {r.value!r}"]))
        else:
            good = len(results) == 1 and r.kind == "raise" and r.exc_name == "InvalidTestStatistic"
            (T.ok if good else T.fail)(f"{key}#raises.InvalidTestStatistic@{name!r}", *([] if good else [f"got {r.kind}"]), kind="raises")
    # symbolic name: raises unless one of the three
    def thunk():
        return eng.call_function(f, [eng.string("name")], {}, force_inline=True)
    results = eng.explore(thunk)
    nm = z3.String("name")
    for k, r in enumerate(results):
        if r.kind == "raise":
            T.ob_path(eng, f"{key}#raises.iff-unknown-name@path{k}", r,
                      z3.And(z3.BoolVal(r.exc_name == "InvalidTestStatistic"), nm != "q", nm != "qtilde", nm != "q0"), kind="raises")
        else:
            T.ob_path(eng, f"{key}#raises.iff-unknown-name@path{k}", r, z3.Or(nm == "q", nm == "qtilde", nm == "q0"), kind="raises")


def tasks(tier):
    return [("_tmu_like", t_tmu_like), ("_qmu_like", t_qmu_like), ("q0", t_q0), ("qmu", t_qmu), ("qmu_tilde", t_qmu_tilde),
            ("tmu", t_tmu), ("tmu_tilde", t_tmu_tilde), ("get_test_stat", t_get_test_stat)]


# ---------------------------------------------------------------------------------------------
def replay(r):
    """native replay: the real function with fit / fixed_poi_fit (or _tmu_like) replaced by stubs
    that return the model's values; compared with the oracle of the statement"""
    import importlib
    import numpy as np
    name = r["name"]
    model = r.get("model") or {}
    fn = name.split("::")[1].split("#")[0]
    clause = name.split("#")[1].split("@")[0]
    if fn == "_tmu_like" and clause.startswith("fwd."):
        import numpy as np_
        import pyhf.infer.test_statistics as ts_
        importlib.reload(ts_)

        class Cfg_:
            poi_index = 0

        class Pdf_:
            config = Cfg_()
        return _replay_history(ts_, np_, Pdf_)
    if not clause.startswith("post.") or not model:
        return None

    def val(x):
        if isinstance(x, dict) and "num" in x:
            return x["num"] / x["den"]
        if isinstance(x, (int, float)):
            return float(x)
        return None
    import pyhf
    import pyhf.infer.test_statistics as ts
    importlib.reload(ts)
    rfp = bool((r.get("meta") or {}).get("rfp", False))

    class Cfg:
        poi_index = 2          # the POI is NOT the first parameter: the other entries are decoys on the other side of the tested value

    class Pdf:
        config = Cfg()
    bounds = [(-5.0, 10.0)] * 3
    if fn == "_tmu_like":
        vf, vu = val(model.get("v_fixed")), val(model.get("v_free"))
        if vf is None or vu is None:
            return None
        saved = (ts.fixed_poi_fit, ts.fit)
        ts.fixed_poi_fit = lambda *a, **k: (np.asarray([3.0, -3.0, 1.0]), np.asarray(vf))
        ts.fit = lambda *a, **k: (np.asarray([3.0, -3.0, 0.5]), np.asarray(vu))
        try:
            out = ts._tmu_like(1.0, [1.0], Pdf(), [1.0, 1.0, 1.0], bounds, [False] * 3, return_fitted_pars=rfp)
        finally:
            ts.fixed_poi_fit, ts.fit = saved
        got = float(out[0] if rfp else out)
        want = max(0.0, vf - vu)
        if abs(got - want) > 1e-9 * max(1, abs(want)):
            return {"reproduced": True, "inputs": {"v_fixed": vf, "v_free": vu}, "got": got, "oracle": want}
        return _replay_history(ts, np, Pdf)
    if fn in ("_qmu_like", "q0"):
        tmu, muhat, mu = val(model.get("tmu")), val(model.get("muhat_poi")), val(model.get("mu"))
        if None in (tmu, muhat, mu):
            return None
        saved = ts._tmu_like
        ref = mu if fn == "_qmu_like" else 0.0
        decoy = ref - 1.0 if muhat > ref else ref + 1.0          # a non-POI entry on the other side of the decision threshold
        ts._tmu_like = lambda *a, **k: (np.asarray(tmu), (np.asarray([decoy, decoy, mu]), np.asarray([decoy, decoy, muhat])))
        try:
            out = getattr(ts, fn)(mu, [1.0], Pdf(), [1.0, 1.0, 1.0], bounds, [False] * 3, return_fitted_pars=rfp)
        finally:
            ts._tmu_like = saved
        got = float(out[0] if rfp else out)
        want = (0.0 if muhat > mu else tmu) if fn == "_qmu_like" else (0.0 if muhat < 0 else tmu)
        return {"reproduced": abs(got - want) > 1e-9 * max(1, abs(want)), "inputs": {"tmu": tmu, "muhat": muhat, "mu": mu}, "got": got, "oracle": want}
    if fn in ("qmu", "qmu_tilde", "tmu", "tmu_tilde"):
        cs = val(model.get("callee_stat"))
        if cs is None:
            return None
        callee = "_qmu_like" if fn.startswith("q") else "_tmu_like"
        saved = getattr(ts, callee)
        marker = (np.asarray([7.0]), np.asarray([8.0]))
        setattr(ts, callee, lambda *a, **k: (np.asarray(cs), marker) if k.get("return_fitted_pars") else np.asarray(cs))
        try:
            out = getattr(ts, fn)(1.0, [1.0], Pdf(), [1.0, 1.0, 1.0], bounds, [False] * 3, return_fitted_pars=rfp)
        finally:
            setattr(ts, callee, saved)
        got = float(out[0] if rfp else out)
        return {"reproduced": abs(got - cs) > 1e-12, "inputs": {"callee_stat": cs}, "got": got, "oracle": cs}
    return None


def _replay_history(ts, np, Pdf):
    """a SEQUENCE of calls on the same model and data with different settings: each call must be computed from fits
    made with the settings of that call (fits are stubs whose result depends on the bounds / init / fixed they receive)"""
    def fake_fit(data, pdf, init_pars, par_bounds, fixed_params, **k):
        lo = par_bounds[0][0]
        return np.asarray([lo + 0.25]), np.asarray(10.0 + lo)

    def fake_fixed(mu, data, pdf, init_pars, par_bounds, fixed_params, **k):
        lo = par_bounds[0][0]
        return np.asarray([mu]), np.asarray(14.0 + 2 * lo)
    saved = (ts.fixed_poi_fit, ts.fit)
    ts.fixed_poi_fit, ts.fit = fake_fixed, fake_fit
    pdf = Pdf()
    data = np.asarray([3.0])
    bad = []
    try:
        for lo in (0.0, -1.0, 0.0, -2.0):
            out = ts._tmu_like(1.0, data, pdf, [1.0], [(lo, 10.0)], [False], return_fitted_pars=True)
            want = max(0.0, (14.0 + 2 * lo) - (10.0 + lo))
            got = float(out[0])
            muhat = float(out[1][1][0])
            if abs(got - want) > 1e-12 or abs(muhat - (lo + 0.25)) > 1e-12:
                bad.append({"par_bounds": [(lo, 10.0)], "got": got, "oracle": want, "muhat_returned": muhat, "muhat_of_this_call": lo + 0.25})
    finally:
        ts.fixed_poi_fit, ts.fit = saved
    return {"reproduced": bool(bad), "history": "_tmu_like called four times on one model / data with POI lower bounds 0, -1, 0, -2", "disagreements": bad}
