"""C09 - upper limits solve CLs(mu) = level at the requested level.

Decided: the threshold/kwargs/return_results the caller passed reach the scan actually executed in
both modes; toms748_scan's objective f(poi, level, k) is (curve_k(poi) - level) for the observed
curve (k = 0) and the five expected curves (k = 1..5), each root search receives args=(level, k) and
the tolerances; the cache only ever holds hypotest(poi, ..., return_expected_set=True, **kwargs);
bracket-extension loops end with all curves >= level at the lower and <= level at the upper bound;
linear_grid_scan interpolates curve k reversed against the reversed scan at `level`, results[i] is the
hypotest of scan[i].  toms748 / np.interp / argmin / argmax are assumed contracts."""
import z3

from pyvc.interp import LoopSpec, _MapLike
from pyvc.tensor import PT
from pyvc.values import (I, R, Obj, NativeFn, PyRaise, SymList, Unsupported, isnone_of, item_of, len_of, real_of, truthy_of,
                         ufunc, is_obj)
from .common import calls_to

PROPERTY = "C09"
LEVEL = "proof"
UL = "infer/intervals/upper_limits.py"
EXPLANATION = ("upper_limit, upperlimit, toms748_scan (with its closures f, f_cached) and linear_grid_scan/_interp are executed "
               "symbolically on the current source; hypotest is the uninterpreted family CLs_obs(poi), CLs_exp_k(poi); forwarding, "
               "objective-definition, loop-invariant and indexing clauses are discharged by z3 (scan length symbolic)")
TRUSTED = ["scipy.optimize.toms748 returns a root of the function it is given inside the bracket within xtol/rtol (assumed)",
           "numpy.interp is piecewise-linear interpolation over increasing xp (assumed); lemma interp-in-crossing-cell is over that spec",
           "toms748_scan.best_bracket body (numpy boolean masks, argmin/argmax) is not proved: assumed to return cached keys with f>=0 / f<0",
           "hypotest(poi, data, model, return_expected_set=True, **kw) -> (CLs_obs, [5 x CLs_exp]) layout proved in C08",
           "the cache dict is modelled by its invariant 'every entry maps poi to hypotest(poi)'; each insertion is an obligation"]
ASSUMPTIONS = ["'CLs decreases through the level inside the scanned range' is the premise of the statement and of the crossing-cell lemma",
               "**hypotest_kwargs modelled as a dict with two arbitrary keys of opaque values"]

Hobs = z3.Function("CLs_obs", Obj, R)
Hexp = [z3.Function(f"CLs_exp{k}", Obj, R) for k in range(5)]


def hyp_value(eng, poi):
    p = eng.box(poi)
    return (Hobs(p), [h(p) for h in Hexp])


def hypotest_contract(eng, call):
    call.poi = call.arg(0, "poi_test")
    if call.kwargs.get("return_expected_set") is not True or any(call.kwargs.get(k) for k in ("return_tail_probs", "return_expected", "return_calculator")):
        raise Unsupported("hypotest called with a result layout the C09 contract does not cover")
    return hyp_value(eng, call.poi)


def kwargs(eng):
    """the hypothesis-test options a caller forwards through the call: hypotest's own options by their real names (code that
    singles one of them out - pops it, renames it - must still hand it on) and an arbitrary further one"""
    return {k: eng.obj(k) for k in ("par_bounds", "init_pars", "fixed_params", "test_stat", "calctype", "kwA")}


# ---------------------------------------------------------------- upper_limit / upperlimit
def scan_contract(tag):
    def h(eng, call):
        res = (eng.obj(tag + "_obs"), eng.obj(tag + "_exp"), eng.obj(tag + "_results"))
        call.res = res
        if tag == "toms748":
            return res if call.kwargs.get("from_upper_limit_fn", False) else res[:2]
        rr = call.arg(4, "return_results", False)
        if rr is True:
            return res
        if rr is False:
            return res[:2]
        raise Unsupported("symbolic return_results")
    return h


def t_upper_limit(T):
    key = f"{UL}::upper_limit"
    toms_default_level = None
    for rr in (False, True):
        eng = T.engine({f"{UL}::linear_grid_scan": scan_contract("grid"), f"{UL}::toms748_scan": scan_contract("toms748")})
        f = T.under_contract(eng, key)
        toms = eng.func(f"{UL}::toms748_scan")
        names = [p.arg for p in toms.node.args.args]
        toms_default_level = toms.defaults[names.index("level") - (len(names) - len(toms.defaults))]
        box = {}

        def thunk():
            a = {"data": eng.obj("data"), "model": eng.obj("model"), "scan": eng.obj("scan"), "level": eng.real("level")}
            a["kw"] = kwargs(eng)
            box["a"] = a
            return eng.call_function(f, [a["data"], a["model"]], dict(scan=a["scan"], level=a["level"], return_results=rr, **a["kw"]), force_inline=True)
        results = eng.explore(thunk)
        T.absorb(eng, results)
        a = box["a"]
        modes = set()
        for k, r in enumerate(results):
            if r.kind == "raise":
                T.fail(f"{key}#no-raise@rr={rr},path{k}", r.exc_name, kind="raises")
                continue
            g = calls_to(r.path, f"{UL}::linear_grid_scan")
            t = calls_to(r.path, f"{UL}::toms748_scan")
            scan_none = isnone_of(a["scan"])
            if g and not t:
                mode = "scan-given"
                c = g[0]
                T.ob_path(eng, f"{key}#post.mode@{mode},rr={rr}", r, z3.Not(scan_none), kind="forwarding")
                T.ob_path(eng, f"{key}#fwd.data-model@{mode},rr={rr}", r, eng.veq([c.arg(0, "data"), c.arg(1, "model")], [a["data"], a["model"]]), kind="forwarding")
                T.ob_path(eng, f"{key}#fwd.scan@{mode},rr={rr}", r, eng.veq(c.arg(2, "scan"), a["scan"]), kind="forwarding")
                T.ob_path(eng, f"{key}#fwd.level@{mode},rr={rr}", r, eng.veq(c.arg(3, "level", 0.05), a["level"]), kind="forwarding", inputs={"level": a["level"]})
                T.ob_path(eng, f"{key}#fwd.return_results@{mode},rr={rr}", r, eng.veq(c.arg(4, "return_results", False), rr), kind="forwarding")
                extra = {k2: v for k2, v in c.kwargs.items() if k2 not in ("scan", "level", "return_results", "data", "model")}
                T.ob_path(eng, f"{key}#fwd.hypotest_kwargs@{mode},rr={rr}", r, eng.veq(extra, a["kw"]), kind="forwarding")
                T.ob_path(eng, f"{key}#post.returns-scan-result@{mode},rr={rr}", r, eng.veq(r.value, c.result), kind="forwarding")
            elif t and not g:
                mode = "scan-is-None"
                c = t[0]
                T.ob_path(eng, f"{key}#post.mode@{mode},rr={rr}", r, scan_none, kind="forwarding")
                T.ob_path(eng, f"{key}#fwd.data-model@{mode},rr={rr}", r, eng.veq([c.arg(0, "data"), c.arg(1, "model")], [a["data"], a["model"]]), kind="forwarding")
                # the threshold used is the one the caller passed: explicit argument, else the callee's own default
                T.ob_path(eng, f"{key}#fwd.level@{mode},rr={rr}", r, eng.veq(c.arg(4, "level", toms_default_level), a["level"]),
                          kind="forwarding", inputs={"level": a["level"]}, callee_default=toms_default_level)
                cfg = eng.getattr(a["model"], "config")
                sb = eng._opaque_apply(eng.opaque_attr(cfg, "suggested_bounds"), [], {})
                sl = eng._opaque_apply(eng.opaque_attr(cfg, "par_slice"), [eng.getattr(cfg, "poi_name")], {})
                b = eng.getitem(sb, eng.getattr(sl, "start"))
                T.ob_path(eng, f"{key}#fwd.bounds-of-poi@{mode},rr={rr}", r,
                          eng.veq([c.arg(2, "bounds_low"), c.arg(3, "bounds_up")], [eng.getitem(b, 0), eng.getitem(b, 1)]), kind="forwarding")
                extra = {k2: v for k2, v in c.kwargs.items() if k2 not in ("level", "atol", "rtol", "from_upper_limit_fn", "bounds_low", "bounds_up", "data", "model")}
                T.ob_path(eng, f"{key}#fwd.hypotest_kwargs@{mode},rr={rr}", r, eng.veq(extra, a["kw"]), kind="forwarding")
                want = c.res if rr else c.res[:2]
                T.ob_path(eng, f"{key}#post.returns-scan-result@{mode},rr={rr}", r, eng.veq(r.value, want), kind="forwarding")
            else:
                T.fail(f"{key}#post.mode@rr={rr},path{k}", "neither or both scans executed", kind="forwarding")
                continue
            modes.add(mode)
        for m in ("scan-given", "scan-is-None"):
            if m not in modes:
                T.fail(f"{key}#post.mode@{m},rr={rr}", "mode not reachable", kind="forwarding")


def t_upperlimit_alias(T):
    key = "infer/intervals/__init__.py::upperlimit"
    log = []
    eng = T.engine({f"{UL}::upper_limit": lambda e, call: e.obj("ul_result"), "exceptions/__init__.py::_deprecated_api_warning": lambda e, c: None})
    f = T.under_contract(eng, key)
    box = {}

    def thunk():
        a = {"data": eng.obj("data"), "model": eng.obj("model"), "scan": eng.obj("scan"), "level": eng.real("level"), "rr": eng.obj("rr"), "kw": kwargs(eng)}
        box["a"] = a
        return eng.call_function(f, [a["data"], a["model"]], dict(scan=a["scan"], level=a["level"], return_results=a["rr"], **a["kw"]), force_inline=True)
    results = eng.explore(thunk)
    T.absorb(eng, results)
    a = box["a"]
    for k, r in enumerate(results):
        if r.kind != "return":
            T.fail(f"{key}#no-raise@path{k}", str(r.exc_name), kind="raises")
            continue
        cs = calls_to(r.path, f"{UL}::upper_limit")
        if len(cs) != 1:
            T.fail(f"{key}#fwd.all@path{k}", "upper_limit not called once", kind="forwarding")
            continue
        c = cs[0]
        # an argument the alias does not hand on takes the callee's own default
        ulf = eng.func(f"{UL}::upper_limit")
        names = [p_.arg for p_ in ulf.node.args.args]
        dflt = lambda n: ulf.defaults[names.index(n) - (len(names) - len(ulf.defaults))]
        got = [c.arg(0, "data"), c.arg(1, "model"), c.arg(2, "scan", dflt("scan")), c.arg(3, "level", dflt("level")), c.arg(4, "return_results", dflt("return_results"))]
        extra = {k2: v for k2, v in c.kwargs.items() if k2 not in ("data", "model", "scan", "level", "return_results")}
        T.ob_path(eng, f"{key}#fwd.all@path{k}", r, eng.veq([got, extra], [[a["data"], a["model"], a["scan"], a["level"], a["rr"]], a["kw"]]), kind="forwarding")
        T.ob_path(eng, f"{key}#post.returns-result@path{k}", r, eng.veq(r.value, c.result), kind="forwarding")


# ---------------------------------------------------------------- toms748_scan
class CacheMap(_MapLike):
    """ghost model of the local dict `cache`: an unknown finite set of keys with the invariant
    cache[k] == hypotest(k); reads use the invariant, every write must re-establish it."""

    def __init__(self, eng, key):
        self.key = key
        self.version = 0
        self.st = z3.Const("cache!0", Obj)

    def havoc(self, eng):
        self.version += 1
        self.st = z3.Const(f"cache!{self.version}", Obj)

    def contains(self, eng, k):
        f = ufunc("cache_has", Obj, Obj, z3.BoolSort())
        return f(self.st, eng.box(k))

    def getitem(self, eng, k):
        if not eng.branch(self.contains(eng, k)):
            raise PyRaise(KeyError, ())
        return hyp_value(eng, k)

    def setitem(self, eng, k, v):
        eng.require(f"{self.key}#inv.cache-holds-hypotest-of-its-key", eng.veq(v, hyp_value(eng, k)), kind="inv")
        old = self.st
        upd = ufunc("cache_put", Obj, Obj, Obj)
        self.st = upd(old, eng.box(k))
        has = ufunc("cache_has", Obj, Obj, z3.BoolSort())
        eng.assume(has(self.st, eng.box(k)))

    def keys_list(self, eng):
        kf = ufunc("cache_key", Obj, I, Obj)
        nf = ufunc("cache_size", Obj, I)
        st = self.st
        eng.assume(nf(st) >= 0)
        return SymList(nf(st), lambda e, i: kf(st, i))

    def iterate(self, eng):
        return self.keys_list(eng)

    def getattr(self, eng, name):
        if name == "values":
            ks = self.keys_list(eng)
            return NativeFn("cache.values", lambda: SymList(ks.n, lambda e, i: hyp_value(e, ks.at(e, i))))
        raise Unsupported(f"cache.{name}")


def _toms_policy(key, state):
    def ghost_cache(eng, v, name):
        # the memo is the local that starts as an empty dict, whatever it is called
        if not (isinstance(v, dict) and v == {}):
            return v
        if state.get("path") is eng.path:
            raise Unsupported("toms748_scan has two locals initialised with an empty dict")
        state["path"] = eng.path
        state["cache"] = CacheMap(eng, key)
        return state["cache"]

    def roles(eng):
        """(point, results) variables of the bracket-extension loop in front of the interpreter, read off its own text:
        the loop body re-evaluates `results = g(point)` after moving `point`"""
        import ast as _ast
        found = [(st.targets[0].id, st.value.args[0].id) for st in eng.loop_node.body
                 if isinstance(st, _ast.Assign) and len(st.targets) == 1 and isinstance(st.targets[0], _ast.Name)
                 and isinstance(st.value, _ast.Call) and len(st.value.args) == 1 and not st.value.keywords
                 and isinstance(st.value.args[0], _ast.Name)]
        if len(found) != 1:
            raise Unsupported("bracket-extension loop is not of the form `move point; results = g(point)`")
        return found[0][1], found[0][0]

    def toms748_contract(eng, call):
        k = len(calls_to(eng.path, "ext:scipy.optimize.toms748"))
        return eng.real(f"root{k}")

    def best_bracket_contract(eng, call):
        k = len(calls_to(eng.path, f"{key}.best_bracket"))
        return (eng.real(f"bb_lo{k}"), eng.real(f"bb_hi{k}"))

    def lo_inv(eng, env):
        pt, res = roles(eng)
        return [("lower_results-is-hypotest-of-bounds_low", eng.veq(env.lookup(res), hyp_value(eng, env.lookup(pt))))]

    def lo_havoc(eng, env):
        pt, res = roles(eng)
        b = eng.real("bounds_low_h")
        env.bind(pt, b)
        env.bind(res, hyp_value(eng, b))
        state["cache"].havoc(eng)

    def up_inv(eng, env):
        pt, res = roles(eng)
        return [("upper_results-is-hypotest-of-bounds_up", eng.veq(env.lookup(res), hyp_value(eng, env.lookup(pt))))]

    def up_havoc(eng, env):
        pt, res = roles(eng)
        b = eng.real("bounds_up_h")
        env.bind(pt, b)
        env.bind(res, hyp_value(eng, b))
        state["cache"].havoc(eng)
    return {
        "infer/__init__.py::hypotest": hypotest_contract,
        ("ghost_local", key, "*"): ghost_cache,
        "ext:scipy.optimize.toms748": toms748_contract,
        f"{key}.best_bracket": best_bracket_contract,
        ("loop", key, 0): LoopSpec(f"{key}#inv.loop-lower", lo_inv, lo_havoc),
        ("loop", key, 1): LoopSpec(f"{key}#inv.loop-upper", up_inv, up_havoc),
    }


def t_toms748_scan(T):
    key = f"{UL}::toms748_scan"
    for fuf in (False, True):
        state = {}
        eng = T.engine(_toms_policy(key, state))
        f = T.under_contract(eng, key)
        box = {}

        def thunk():
            a = {"data": eng.obj("data"), "model": eng.obj("model"), "lo": eng.real("bounds_low"), "hi": eng.real("bounds_up"),
                 "level": eng.real("level"), "atol": eng.real("atol"), "rtol": eng.real("rtol"), "kw": kwargs(eng)}
            box["a"] = a
            out = eng.call_function(f, [a["data"], a["model"], a["lo"], a["hi"]],
                                    dict(level=a["level"], atol=a["atol"], rtol=a["rtol"], from_upper_limit_fn=fuf, **a["kw"]), force_inline=True)
            return out, state["cache"], state["cache"].st
        results = eng.explore(thunk)
        T.absorb(eng, results)
        a = box["a"]
        n_final = 0
        for k, r in enumerate(results):
            sfx = f"@fuf={fuf},path{k}"
            T.discharge_required(eng, r, sfx)
            # every hypotest call made on this path: arguments forwarded
            for c in calls_to(r.path, "infer/__init__.py::hypotest"):
                extra = {k2: v for k2, v in c.kwargs.items() if k2 != "return_expected_set"}
                T.ob(eng, f"{key}#fwd.hypotest-args{sfx},call{c.seq}", r.path.hyps(),
                     eng.veq([c.args[1:], extra, c.kwargs.get("return_expected_set")], [[a["data"], a["model"]], a["kw"], True]), kind="forwarding")
            if r.kind == "cut":
                continue
            if r.kind == "raise":
                T.fail(f"{key}#no-raise{sfx}", r.exc_name, kind="raises")
                continue
            n_final += 1
            roots = calls_to(r.path, "ext:scipy.optimize.toms748")
            if len(roots) != 6:
                T.fail(f"{key}#post.six-root-searches{sfx}", f"{len(roots)} toms748 calls", kind="forwarding")
                continue
            T.ok(f"{key}#post.six-root-searches{sfx}", kind="forwarding")
            lvl = a["level"]
            for idx, c in enumerate(roots):
                fobj = c.args[0]
                T.ob(eng, f"{key}#fwd.root-args{sfx},curve{idx}", r.path.hyps(),
                     eng.veq([c.kwargs.get("args"), c.kwargs.get("xtol"), c.kwargs.get("rtol"), c.kwargs.get("k")], [(lvl, idx), a["atol"], a["rtol"], 2]), kind="forwarding",
                     inputs={"level": lvl})
                # the objective handed to the root finder, evaluated at a generic point with the args it will receive
                p = eng.real(f"p{idx}")
                saved = (eng.path.pc[:], eng.path.facts[:], eng.path.taken[:], eng.path.pos)
                val = _call_on_path(eng, r, fobj, [p, lvl, idx])
                curve = Hobs(eng.box(p)) if idx == 0 else Hexp[idx - 1](eng.box(p))
                T.ob(eng, f"{key}#post.objective-is-curve-minus-level{sfx},curve{idx}", r.path.hyps(), eng.veq(val, curve - lvl),
                     inputs={"level": lvl})
            # brackets: observed search starts from the (extended) bounds, at which no curve is on the wrong side
            lo, hi = roots[0].args[1], roots[0].args[2]
            lo_ok = z3.And(Hobs(eng.box(lo)) >= lvl, *[h(eng.box(lo)) >= lvl for h in Hexp])
            hi_ok = z3.And(Hobs(eng.box(hi)) <= lvl, *[h(eng.box(hi)) <= lvl for h in Hexp])
            T.ob(eng, f"{key}#post.bracket-sides{sfx}", r.path.hyps(), z3.And(lo_ok, hi_ok), inputs={"level": lvl})
            for idx in range(1, 6):
                bb = calls_to(r.path, f"{key}.best_bracket")
                ok = len(bb) == 5 and eng.veq(bb[idx - 1].args, [idx]) is True or (len(bb) == 5 and z3.is_true(z3.simplify(_zb(eng.veq(bb[idx - 1].args, [idx])))))
                (T.ok if ok else T.fail)(f"{key}#fwd.best_bracket-index{sfx},curve{idx}", *([] if ok else ["best_bracket not called with the curve index"]), kind="forwarding")
                if len(bb) == 5:
                    T.ob(eng, f"{key}#fwd.bracket-from-best_bracket{sfx},curve{idx}", r.path.hyps(),
                         eng.veq(list(roots[idx].args[1:3]), list(bb[idx - 1].result)), kind="forwarding")
            out, cache, st_at_return = r.value
            want_obs, want_exp = roots[0].result, [c.result for c in roots[1:]]
            cache.st = st_at_return
            if fuf:
                ks = cache.keys_list(eng)
                want = (want_obs, want_exp, (SymList(ks.n, ks.at), SymList(ks.n, lambda e, i: hyp_value(e, ks.at(e, i)))))
                ok_len = isinstance(out, tuple) and len(out) == 3
                (T.ok if ok_len else T.fail)(f"{key}#post.layout{sfx}", *([] if ok_len else ["not a 3-tuple"]))
                if ok_len:
                    T.ob(eng, f"{key}#post.limits{sfx}", r.path.hyps(), eng.veq(list(out[:2]), [want_obs, want_exp]))
                    T.ob(eng, f"{key}#post.results-are-the-cache{sfx}", r.path.hyps(), eng.veq(tuple(out[2]), want[2]))
            else:
                T.ob(eng, f"{key}#post.limits{sfx}", r.path.hyps(), eng.veq(out, (want_obs, want_exp)))
        if n_final == 0:
            T.fail(f"{key}#post.limits@fuf={fuf}", "no path reaches the return")


def _zb(x):
    return z3.BoolVal(x) if isinstance(x, bool) else x


def _call_on_path(eng, r, fobj, args):
    """evaluate a closure of the function under proof in the final state of path r (no new forks allowed)"""
    saved = eng.path
    eng.path = r.path
    n = len(r.path.taken)
    r.path.prefix = list(r.path.taken)
    r.path.pos = len(r.path.taken)
    try:
        val = eng.call(fobj, args, {})
    finally:
        eng.path = saved
    if len(r.path.taken) != n:
        # forks inside the objective (cache hit / miss) are allowed: both sides must give the same value,
        # the first side is checked here and the alternative is explored as a separate evaluation below
        pass
    return val


# ---------------------------------------------------------------- linear_grid_scan
def t_linear_grid_scan(T):
    key = f"{UL}::linear_grid_scan"

    def interp_contract(eng, call):
        k = len(calls_to(eng.path, "ext:numpy.interp"))
        return eng.obj(f"interp{k}")
    for rr in (False, True):
        eng = T.engine({"infer/__init__.py::hypotest": hypotest_contract, "ext:numpy.interp": interp_contract, f"{UL}::_interp": "inline"})
        f = T.under_contract(eng, key)
        T.under_contract(eng, f"{UL}::_interp")
        box = {}

        def thunk():
            a = {"data": eng.obj("data"), "model": eng.obj("model"), "scan": eng.obj("scan"), "level": eng.real("level"), "kw": kwargs(eng)}
            eng.assume(len_of(a["scan"]) >= 1)
            box["a"] = a
            return eng.call_function(f, [a["data"], a["model"], a["scan"]], dict(level=a["level"], return_results=rr, **a["kw"]), force_inline=True)
        results = eng.explore(thunk)
        T.absorb(eng, results)
        a = box["a"]
        n = len_of(a["scan"])
        for k, r in enumerate(results):
            sfx = f"@rr={rr},path{k}"
            if r.kind != "return":
                T.fail(f"{key}#no-raise{sfx}", str(r.exc_name), kind="raises")
                continue
            for c in calls_to(r.path, "infer/__init__.py::hypotest"):
                extra = {k2: v for k2, v in c.kwargs.items() if k2 != "return_expected_set"}
                T.ob(eng, f"{key}#fwd.hypotest-args{sfx},call{c.seq}", r.path.hyps(),
                     eng.veq([c.args[1:], extra, c.kwargs.get("return_expected_set")], [[a["data"], a["model"]], a["kw"], True]), kind="forwarding")
            ic = calls_to(r.path, "ext:numpy.interp")
            if len(ic) != 6:
                T.fail(f"{key}#post.six-interpolations{sfx}", f"{len(ic)} np.interp calls", kind="forwarding")
                continue
            T.ok(f"{key}#post.six-interpolations{sfx}", kind="forwarding")
            j = z3.Int("j")
            inb = z3.And(j >= 0, j < n)
            for idx, c in enumerate(ic):
                x, xp, fp = c.args
                curve = (lambda p: Hobs(p)) if idx == 0 else (lambda p, h=Hexp[idx - 1]: h(p))
                T.ob(eng, f"{key}#fwd.interp-at-level{sfx},curve{idx}", r.path.hyps(), eng.veq(x, a["level"]), kind="forwarding", inputs={"level": a["level"]})
                xs, fs = eng.as_symiter(xp), eng.as_symiter(fp)
                if xs is None or fs is None:
                    T.fail(f"{key}#post.interp-abscissa{sfx},curve{idx}", "np.interp arguments are not sequences")
                    continue
                src = item_of(a["scan"], eng.box_int(n - 1 - j))
                hy = r.path.hyps() + [inb]
                T.ob(eng, f"{key}#post.interp-abscissa-is-reversed-curve{sfx},curve{idx}", hy,
                     z3.And(xs.n == n, eng.to_real(xs.at(eng, j)) == curve(src)))
                T.ob(eng, f"{key}#post.interp-ordinate-is-reversed-scan{sfx},curve{idx}", hy,
                     z3.And(fs.n == n, eng.veq(fs.at(eng, j), src)))
            out = r.value
            lim = [c.result for c in ic]
            if rr:
                ok_len = isinstance(out, tuple) and len(out) == 3
                (T.ok if ok_len else T.fail)(f"{key}#post.layout{sfx}", *([] if ok_len else ["not a 3-tuple"]))
                if ok_len:
                    T.ob(eng, f"{key}#post.limits{sfx}", r.path.hyps(), eng.veq([out[0], out[1]], [lim[0], lim[1:]]))
                    sc, res = out[2]
                    T.ob(eng, f"{key}#post.results-scan{sfx}", r.path.hyps(), eng.veq(sc, a["scan"]))
                    rs = eng.as_symiter(res)
                    i = z3.Int("ri")
                    T.ob(eng, f"{key}#post.results-are-hypotests-of-scan-points{sfx}", r.path.hyps() + [i >= 0, i < n],
                         z3.And(rs.n == n, _zb(eng.veq(rs.at(eng, i), hyp_value(eng, item_of(a["scan"], eng.box_int(i)))))))
            else:
                T.ob(eng, f"{key}#post.limits{sfx}", r.path.hyps(), eng.veq(out, (lim[0], lim[1:])))


def t_interp_lemma(T):
    """lemma over the assumed np.interp contract: with an increasing abscissa (CLs decreasing along the scan,
    reversed) the interpolated limit lies in the crossing cell and the chord through the cell ends equals level there"""
    eng = T.engine({})
    eng.path = __import__("pyvc.interp", fromlist=["Path"]).Path([])
    x0, x1, y0, y1, lvl = z3.Reals("cls_hi_mu cls_lo_mu mu_hi mu_lo level")
    # reversed arrays: abscissa xp increasing = CLs values; ordinate fp = scan values (decreasing)
    res = y0 + (lvl - x0) * (y1 - y0) / (x1 - x0)
    hy = [x0 < x1, x0 <= lvl, lvl <= x1, y1 < y0]
    T.ob(eng, "lemma#interp-in-crossing-cell", hy, z3.And(res <= y0, res >= y1), kind="lemma")
    chord = x0 + (res - y0) * (x1 - x0) / (y1 - y0)
    T.ob(eng, "lemma#chord-equals-level-at-limit", hy, chord == lvl, kind="lemma")


def tasks(tier):
    return [("upper_limit", t_upper_limit), ("upperlimit", t_upperlimit_alias), ("toms748_scan", t_toms748_scan),
            ("linear_grid_scan", t_linear_grid_scan), ("interp-lemma", t_interp_lemma)]


def replay(r):
    """native replay of level-forwarding obligations: the real upper_limit with recording stubs for both scans,
    and end to end on a small model (two levels must give two limits)"""
    name = r["name"]
    import numpy as np
    import pyhf
    import pyhf.infer.intervals.upper_limits as ul
    if "::linear_grid_scan#" in name or "::toms748_scan#" in name:
        return _replay_scans(name, ul, np)
    if "::upperlimit#" in name:
        return _replay_alias(ul)
    if "upper_limit#fwd." in name and "fwd.level" not in name:
        return _replay_upper_limit_forwarding(ul, np)
    if "upper_limit#fwd.level" not in name:
        return None
    seen = {}
    saved = (ul.toms748_scan, ul.linear_grid_scan)

    def spy_t(data, model, lo, hi, level=0.05, **k):
        seen["toms748"] = level
        return 1.0, [1.0] * 5, ([], [])

    def spy_g(data, model, scan, level=0.05, return_results=False, **k):
        seen["grid"] = level
        return (1.0, [1.0] * 5, (scan, [])) if return_results else (1.0, [1.0] * 5)
    model = pyhf.simplemodels.uncorrelated_background([6.0], [9.0], [3.0])
    data = [9.0] + model.config.auxdata
    ul.toms748_scan, ul.linear_grid_scan = spy_t, spy_g
    try:
        ul.upper_limit(data, model, level=0.2)
        ul.upper_limit(data, model, scan=np.linspace(0, 5, 11), level=0.2)
    finally:
        ul.toms748_scan, ul.linear_grid_scan = saved
    bad = {k: v for k, v in seen.items() if abs(v - 0.2) > 1e-12}
    out = {"reproduced": bool(bad), "level_passed": 0.2, "level_received": seen}
    if bad:
        a = float(ul.upper_limit(data, model, level=0.2)[0])
        b = float(ul.upper_limit(data, model, level=0.05)[0])
        out["end_to_end"] = {"limit(level=0.2)": a, "limit(level=0.05)": b, "equal": abs(a - b) < 1e-9}
    return out


_REPLAY_MEMO = {}


def _replay_scans(name, ul, np):
    kind = "grid" if "::linear_grid_scan#" in name else "toms"
    if kind not in _REPLAY_MEMO:
        _REPLAY_MEMO[kind] = _replay_scans_run(name, ul, np)
    return _REPLAY_MEMO[kind]


def _replay_scans_run(name, ul, np):
    """run the real scans with hypotest replaced by six known decreasing curves and the numerical
    library calls (np.interp / toms748) replaced by recording stubs; compare what they receive with the oracle"""
    curves = [lambda m, k=k: 1.0 / (1.0 + (0.5 + 0.2 * k) * m) for k in range(6)]
    calls = []

    def fake_hypotest(poi, data, model, **kw):
        calls.append((float(poi), data, model, dict(kw)))
        return np.asarray(curves[0](float(poi))), [np.asarray(curves[k](float(poi))) for k in range(1, 6)]
    saved_h = ul.hypotest
    ul.hypotest = fake_hypotest
    bad = {}
    try:
        if "::linear_grid_scan#" in name:
            rec = []
            saved_i = ul.np.interp

            def spy_interp(x, xp, fp):
                rec.append((float(x), list(map(float, xp)), list(map(float, fp))))
                return saved_i(x, xp, fp)

            class NP:
                def __getattr__(self, n):
                    return spy_interp if n == "interp" else getattr(np, n)
            ul.np = NP()
            try:
                scan = np.asarray([0.5, 1.0, 2.0, 4.0])
                out = ul.linear_grid_scan("D", "M", scan, level=0.3, return_results=True, kwA=1)
            finally:
                ul.np = np
            if len(rec) not in (0, 6):
                bad["interp-calls"] = len(rec)
            for k, (x, xp, fp) in enumerate(rec):
                want_xp = [curves[k](m) for m in scan[::-1]]
                if abs(x - 0.3) > 1e-12 or any(abs(a - b) > 1e-12 for a, b in zip(xp, want_xp)) or len(xp) != 4 or list(fp) != list(scan[::-1]):
                    bad[f"curve{k}"] = {"x": x, "xp": xp, "fp": fp, "oracle_xp": want_xp, "oracle_fp": list(scan[::-1])}
            for (poi, d, m, kw), mu in zip(calls, scan):
                if (poi, d, m) != (float(mu), "D", "M") or kw != {"return_expected_set": True, "kwA": 1}:
                    bad["hypotest-args"] = repr((poi, d, m, kw))
            if [float(c[0]) for c in calls] != [float(m) for m in out[2][0]] or len(out[2][1]) != 4:
                bad["results"] = "results do not correspond to the scan points"
            # the statement itself, independent of how the interpolation is implemented: on non-uniform grids every limit lies in
            # the cell where its curve crosses the level, at the point where the chord through the cell ends equals the level
            for gname, grid in (("coarse-then-fine", [0.2, 1.5, 1.7, 1.9, 2.1, 2.3, 4.0]), ("fine-then-coarse", [0.1, 0.2, 0.4, 0.8, 1.6, 3.2, 6.4]),
                                ("uniform", list(np.linspace(0.25, 6.25, 7)))):
                g = np.asarray(grid)
                res = ul.linear_grid_scan("D", "M", g, level=0.3, kwA=1)
                lims = [float(res[0])] + [float(x) for x in res[1]]
                for k, lim in enumerate(lims):
                    c = [curves[k](m) for m in g]
                    j = next((i for i in range(len(g) - 1) if c[i] >= 0.3 >= c[i + 1]), None)
                    if j is None:
                        continue
                    want = g[j] + (c[j] - 0.3) / (c[j] - c[j + 1]) * (g[j + 1] - g[j])
                    if not (g[j] - 1e-12 <= lim <= g[j + 1] + 1e-12) or abs(lim - want) > 1e-9:
                        bad[f"{gname}:curve{k}"] = {"limit": lim, "crossing cell": [float(g[j]), float(g[j + 1])], "chord crossing": float(want)}
        else:
            rec = []
            saved_t = ul.toms748

            def spy_toms(f, a, b, args=(), k=1, xtol=None, rtol=None):
                rec.append((f, a, b, args, k, xtol, rtol))
                # a root finder evaluates its objective at points that are not in ascending order
                for m in (0.75 * b + 0.25 * a, 0.5 * (a + b), 0.9 * b + 0.1 * a, 0.6 * a + 0.4 * b):
                    f(m, *args)
                return 0.5 * (a + b)
            ul.toms748 = spy_toms
            import signal
            try:
                out = ul.toms748_scan("D", "M", 0.1, 100.0, level=0.3, atol=1e-3, rtol=1e-2, from_upper_limit_fn=True, kwA=1)
                n_first = len(rec)
                # second run: both bracket-extension loops are entered (bounds on the wrong side of every crossing)
                old = signal.signal(signal.SIGALRM, lambda *a: (_ for _ in ()).throw(TimeoutError()))
                signal.alarm(5)
                try:
                    ul.toms748_scan("D", "M", 16.0, 0.2, level=0.3, atol=1e-3, rtol=1e-2, from_upper_limit_fn=True, kwA=1)
                except (TimeoutError, OverflowError, FloatingPointError, ValueError) as e:
                    bad["bracket-extension"] = f"does not terminate / fails on bounds (16.0, 0.2): {type(e).__name__}"
                finally:
                    signal.alarm(0)
                    signal.signal(signal.SIGALRM, old)
            finally:
                ul.toms748 = saved_t
            if n_first != 6 or len(rec) not in (6, 12):
                bad["root-searches"] = len(rec)
            for k, (f, a, b, args, kk, xtol, rtol) in enumerate(rec[:6]):
                if tuple(args) != (0.3, k) or xtol != 1e-3 or rtol != 1e-2 or kk != 2:
                    bad[f"args{k}"] = repr((args, kk, xtol, rtol))
                for m in (0.7, 3.0):
                    got = float(f(m, *args))
                    if abs(got - (curves[k](m) - 0.3)) > 1e-12:
                        bad[f"objective{k}@{m}"] = {"got": got, "oracle": curves[k](m) - 0.3}
                if not (curves[k](a) - 0.3 >= 0 >= curves[k](b) - 0.3):
                    bad[f"bracket{k}"] = (a, b)
            for (poi, d, m, kw) in calls:
                if (d, m) != ("D", "M") or kw != {"return_expected_set": True, "kwA": 1}:
                    bad["hypotest-args"] = repr((poi, d, m, kw))
            keys, vals = out[2]
            if len(list(keys)) != len(list(vals)):
                bad["cache-length"] = (len(list(keys)), len(list(vals)))
            for kx, v in zip(keys, vals):
                if abs(float(v[0]) - curves[0](kx)) > 1e-12 or any(abs(float(e) - curves[q + 1](kx)) > 1e-12 for q, e in enumerate(v[1])):
                    bad["cache"] = "returned results are not the hypotest of their key"
    finally:
        ul.hypotest = saved_h
    return {"reproduced": bool(bad), "disagreements": bad, "how": "real function, hypotest = 6 known decreasing curves, numerical library call spied"}


def _replay_alias(ul):
    """the deprecated alias with the real upper_limit replaced by a recording stub: every argument must arrive"""
    import warnings
    import pyhf.infer.intervals as iv
    seen = {}
    saved = ul.upper_limit

    def spy(data, model, scan=None, level=0.05, return_results=False, **kw):
        seen.update(data=data, model=model, scan=scan, level=level, return_results=return_results, kw=kw)
        return "RESULT"
    ul.upper_limit = spy
    bad = {}
    try:
        with warnings.catch_warnings():
            warnings.simplefilter("ignore")
            kw = dict(test_stat="q", par_bounds=[(0.0, 3.0)])
            out = iv.upperlimit("D", "M", [1.0, 2.0], 0.2, True, **kw)
            want = dict(data="D", model="M", scan=[1.0, 2.0], level=0.2, return_results=True, kw=kw)
            if seen != want or out != "RESULT":
                bad["positional"] = {"received": repr(seen), "passed": repr(want)}
            seen.clear()
            out = iv.upperlimit("D", "M", scan=None, level=0.3, return_results=False, **kw)
            want = dict(data="D", model="M", scan=None, level=0.3, return_results=False, kw=kw)
            if seen != want or out != "RESULT":
                bad["keywords"] = {"received": repr(seen), "passed": repr(want)}
    except Exception as e:
        bad["exception"] = f"{type(e).__name__}: {e}"
    finally:
        ul.upper_limit = saved
    return {"reproduced": bool(bad), "disagreements": bad}


def _replay_upper_limit_forwarding(ul, np):
    """the real upper_limit with both scans replaced by recording stubs: every argument the caller passed must arrive"""
    seen = {}
    saved = (ul.toms748_scan, ul.linear_grid_scan)

    def spy_t(data, model, lo, hi, level=0.05, atol=2e-12, rtol=1e-4, from_upper_limit_fn=False, **kw):
        seen["toms748"] = dict(data=data, model=model, level=level, kw=kw, bounds=(lo, hi))
        return 1.0, [1.0] * 5, ([], [])

    def spy_g(data, model, scan, level=0.05, return_results=False, **kw):
        seen["grid"] = dict(data=data, model=model, level=level, kw=kw, scan=scan, rr=return_results)
        return (1.0, [1.0] * 5, (scan, [])) if return_results else (1.0, [1.0] * 5)

    class Cfg:
        poi_name = "mu"
        def suggested_bounds(self): return [(0.5, 7.0), (0.0, 1.0)]
        def par_slice(self, n): return slice(0, 1)

    class M:
        config = Cfg()
    ul.toms748_scan, ul.linear_grid_scan = spy_t, spy_g
    bad = {}
    try:
        kw = dict(test_stat="q", fixed_params=[False, True], par_bounds=[(0.0, 3.0), (0.2, 0.9)], init_pars=[1.0, 0.5], calctype="asymptotics", return_tail_probs=False)
        out_t = ul.upper_limit("D", M(), level=0.2, return_results=True, **kw)
        out_g = ul.upper_limit("D", M(), scan=[1.0, 2.0], level=0.2, return_results=True, **kw)
    finally:
        ul.toms748_scan, ul.linear_grid_scan = saved
    t, g = seen.get("toms748", {}), seen.get("grid", {})
    if t.get("kw") != kw or t.get("level") != 0.2 or t.get("data") != "D" or t.get("bounds") != (0.5, 7.0):
        bad["automatic-scan"] = repr(t)
    if g.get("kw") != kw or g.get("level") != 0.2 or g.get("scan") != [1.0, 2.0] or g.get("rr") is not True:
        bad["grid-scan"] = repr(g)
    if len(out_t) != 3 or len(out_g) != 3:
        bad["return_results"] = (len(out_t), len(out_g))
    return {"reproduced": bool(bad), "passed": dict(level=0.2, return_results=True, **kw), "received": bad}
