"""C20 - structurally inconsistent specifications are refused, never partly evaluated.

Every fault class of the statement is injected at EVERY applicable position of every structure skeleton
(numbers symbolic), the real Model.__init__ is executed symbolically and the obligation is:
   every path raises one of pyhf's own exception types
   {InvalidSpecification, InvalidModel, InvalidModifier, InvalidNameReuse}
- no acceptance, no other exception type, no AssertionError.  For the class "bin-wise modifier shared between
places with different bin counts" the safety form is used (DESIGN section 3, C20): acceptance is admissible only
if every declared cell is bound to a component of its own parameter, i.e. the accepted model's rates equal
the oracle; otherwise it must be a refusal."""
import copy

import z3

from pyvc.values import ClassV, Unsupported
from . import hf_oracle as O
from . import hf_skeleton as K

PROPERTY = "C20"
LEVEL = "proof"
EXPLANATION = ("fault injection at every position of the structure skeletons; the real model construction is executed symbolically on each faulty "
               "specification and every path must end in one of pyhf's own exception types")
TRUSTED = ["the JSON schema validator is skipped: injected faults are all schema-valid by construction (the statement's premise)",
           "interpolator contract (C03); tensor op contracts; concrete index computations run natively"]
ASSUMPTIONS = ["structure bounded by the skeleton list and single faults (plus the pair 'compensating length errors'); numbers symbolic"]

ALLOWED = {"InvalidSpecification", "InvalidModel", "InvalidModifier", "InvalidNameReuse"}

BASES = [
    ("base-2c", {"channels": [("c1", 2, [("sig", [("normfactor", "mu"), ("normsys", "n1")]), ("bkg", [("histosys", "h1"), ("staterror", "st1")])]),
                               ("c2", 1, [("sig", [("normfactor", "mu")]), ("bkg", [("shapesys", "ss2"), ("normsys", "n1")])])], "poi": "mu"}),
    ("base-shapefactor", {"channels": [("a1", 1, [("bkg", [("shapefactor", "sf"), ("histosys", "h1")])]),
                                        ("a2", 2, [("bkg", [("normsys", "n1")]), ("sig", [("normfactor", "mu")])])], "poi": "mu"}),
    ("base-3c", {"channels": [("c1", 1, [("sig", [("normfactor", "mu"), ("shapesys", "ss1")]), ("bkg", [("histosys", "h1"), ("staterror", "st1")])]),
                               ("c2", 2, [("sig", [("normfactor", "mu"), ("normsys", "n1")]), ("qcd", [("normsys", "n1")])]),
                               ("c3", 3, [("bkg", [("histosys", "h1"), ("staterror", "st3")]), ("qcd", [("shapesys", "ss3")])])], "poi": "mu"}),
    ("base-lumi", {"channels": [("c1", 2, [("sig", [("normfactor", "mu"), ("lumi", "lumi")]), ("bkg", [("staterror", "st"), ("lumi", "lumi")])])], "poi": "mu"}),
]


def sym_list(prefix, n):
    return [z3.Real(f"{prefix}{k}") for k in range(n)]


def faults(name, spec):
    """(fault class, instance tag, faulty spec, poi override or None) for every applicable position"""
    out = []
    chs = spec["channels"]
    # 1. duplicate channel name
    for i in range(len(chs)):
        for j in range(len(chs)):
            if i != j:
                s2 = copy.deepcopy(spec)
                s2["channels"][j]["name"] = chs[i]["name"]
                out.append(("duplicate-channel-name", f"ch{j}:={chs[i]['name']}", s2, None))
    # 2. duplicate sample name within a channel
    for ci, c in enumerate(chs):
        for i in range(len(c["samples"])):
            for j in range(len(c["samples"])):
                if i != j:
                    s2 = copy.deepcopy(spec)
                    s2["channels"][ci]["samples"][j]["name"] = c["samples"][i]["name"]
                    out.append(("duplicate-sample-name", f"{c['name']}.s{j}:={c['samples'][i]['name']}", s2, None))
    # 3. the same (name, type) modifier twice on one sample, with different data
    for ci, c in enumerate(chs):
        for si, s in enumerate(c["samples"]):
            for mi, m in enumerate(s["modifiers"]):
                if m["type"] in ("normsys", "histosys", "shapesys", "staterror"):
                    s2 = copy.deepcopy(spec)
                    dup = copy.deepcopy(m)
                    nb = len(s["data"])
                    if m["type"] == "normsys":
                        dup["data"] = {"hi": z3.Real("dup.hi"), "lo": z3.Real("dup.lo")}
                    elif m["type"] == "histosys":
                        dup["data"] = {"hi_data": sym_list("dup.hi", nb), "lo_data": sym_list("dup.lo", nb)}
                    else:
                        dup["data"] = sym_list("dup.u", nb)
                    s2["channels"][ci]["samples"][si]["modifiers"].append(dup)
                    out.append(("duplicate-modifier-on-sample", f"{c['name']}.{s['name']}.{m['type']}/{m['name']}", s2, None))
    # 4a. sample data length differs from the channel's bin count
    for ci, c in enumerate(chs):
        for si, s in enumerate(c["samples"]):
            if si == 0 and len(c["samples"]) == 1:
                continue
            for delta in (+1, -1):
                if len(s["data"]) + delta < 1:
                    continue
                if si == 0:
                    continue          # the first sample defines the bin count
                s2 = copy.deepcopy(spec)
                d = s2["channels"][ci]["samples"][si]["data"]
                s2["channels"][ci]["samples"][si]["data"] = d + [z3.Real("extra.n")] if delta > 0 else d[:-1]
                # keep that sample's own bin-wise modifier data consistent with the NEW length? no: only the sample yields are faulty
                out.append(("sample-length-differs-from-bin-count", f"{c['name']}.{s['name']}{delta:+d}", s2, None))
    # 4b. modifier data length differs from the bin count
    for ci, c in enumerate(chs):
        for si, s in enumerate(c["samples"]):
            for mi, m in enumerate(s["modifiers"]):
                if m["type"] in ("histosys", "shapesys", "staterror"):
                    for delta in (+1, -1):
                        nb = len(s["data"]) + delta
                        if nb < 1:
                            continue
                        s2 = copy.deepcopy(spec)
                        mm = s2["channels"][ci]["samples"][si]["modifiers"][mi]
                        if m["type"] == "histosys":
                            mm["data"] = {"hi_data": sym_list("f.hi", nb), "lo_data": sym_list("f.lo", nb)}
                        else:
                            mm["data"] = sym_list("f.u", nb)
                        out.append(("modifier-data-length-differs-from-bin-count", f"{c['name']}.{s['name']}.{m['type']}/{m['name']}{delta:+d}", s2, None))
                        if m["type"] == "histosys":
                            for only in ("hi_data", "lo_data"):
                                s3 = copy.deepcopy(spec)
                                s3["channels"][ci]["samples"][si]["modifiers"][mi]["data"][only] = sym_list("f1." + only[:2], nb)
                                out.append(("modifier-data-length-differs-from-bin-count", f"{c['name']}.{s['name']}.histosys/{m['name']}.{only}{delta:+d}", s3, None))
    # 6. one parameter name with conflicting constraint types or sizes
    names = [(ci, si, mi, m) for ci, c in enumerate(chs) for si, s in enumerate(c["samples"]) for mi, m in enumerate(s["modifiers"])]
    fam = {"normfactor": "free1", "normsys": "normal1", "histosys": "normal1", "lumi": "lumi", "shapesys": "poisN", "staterror": "normalN", "shapefactor": "freeN"}
    for (ci, si, mi, m) in names:
        for (cj, sj, mj, m2) in names:
            if (ci, si, mi) != (cj, sj, mj) and fam[m["type"]] != fam[m2["type"]] and m2["type"] != "lumi" and m["type"] != "lumi":
                s2 = copy.deepcopy(spec)
                s2["channels"][cj]["samples"][sj]["modifiers"][mj]["name"] = m["name"]
                out.append(("parameter-name-with-conflicting-constraint", f"{m2['type']}@{cj}.{sj}:={m['type']}/{m['name']}", s2, None))
    # 6b. a modifier type that cannot be shared (shapesys) reused under one name by two samples, adjacent or not, same channel or not
    shp = [(ci, si, mi, m) for (ci, si, mi, m) in names if m["type"] == "shapesys"]
    for (ci, si, mi, m) in shp:
        for (cj, sj, mj, m2) in shp:
            if (ci, si, mi) != (cj, sj, mj):
                s2 = copy.deepcopy(spec)
                s2["channels"][cj]["samples"][sj]["modifiers"][mj]["name"] = m["name"]
                out.append(("non-shareable-modifier-name-reused", f"shapesys@{cj}.{sj}:={m['name']}", s2, None))
    # 7. override of the wrong length
    pnames = sorted({(m["name"], m["type"]) for _, _, _, m in names})
    for pn, pt in pnames:
        if pt in ("normfactor", "normsys", "histosys", "lumi"):
            size = 1
        else:
            size = None
        for key in ("inits", "bounds"):
            for nwrong in ((2,) if size == 1 else (1,)):
                s2 = copy.deepcopy(spec)
                pars = [p for p in s2.get("parameters", []) if p["name"] != pn]
                base = next((p for p in s2.get("parameters", []) if p["name"] == pn), {"name": pn})
                bad = dict(base)
                if size is None:
                    # bin-wise parameter: real size is its bin count (>= 1); give one entry too many
                    cnt = max(len(s["data"]) for c in chs for s in c["samples"] for m in s["modifiers"] if m["name"] == pn)
                    nw = cnt + 1
                else:
                    nw = nwrong
                bad[key] = [1.0] * nw if key == "inits" else [[0.0, 10.0]] * nw
                s2["parameters"] = pars + [bad]
                out.append(("override-of-wrong-length", f"{pn}.{key}x{nw}", s2, None))
    # 8. undefined POI
    out.append(("undefined-poi", "poi:=nonexistent", copy.deepcopy(spec), "nonexistent"))
    # 9. lumi modifier without lumi settings
    if any(m["type"] == "lumi" for _, _, _, m in names):
        s2 = copy.deepcopy(spec)
        s2["parameters"] = [p for p in s2.get("parameters", []) if p["name"] != "lumi"]
        if not s2["parameters"]:
            s2.pop("parameters")
        out.append(("lumi-without-settings", "no-lumi-parameter-config", s2, None))
    return out


def shared_binwise_faults(name, spec):
    """5. a bin-wise modifier shared between places with different bin counts (safety form)"""
    out = []
    chs = spec["channels"]
    for ci, c in enumerate(chs):
        for cj, c2 in enumerate(chs):
            if ci == cj or len(c["samples"][0]["data"]) == len(c2["samples"][0]["data"]):
                continue
            for t in ("shapefactor", "staterror"):
                s2 = copy.deepcopy(spec)
                for ck in (ci, cj):
                    smp = s2["channels"][ck]["samples"][-1 if (t == "staterror" and ck == cj) else 0]
                    smp["modifiers"] = [m for m in smp["modifiers"] if m["type"] != t]
                    nb = len(smp["data"])
                    smp["modifiers"].append({"name": "shared_bw", "type": t, "data": None if t == "shapefactor" else sym_list(f"sh{ck}.u", nb)})
                out.append(("binwise-modifier-shared-across-different-bin-counts", f"{t}:{c['name']}({len(c['samples'][0]['data'])})+{c2['name']}({len(c2['samples'][0]['data'])})", s2, None))
    return out


def compensating_faults(name, spec):
    """pair of faults: histosys / staterror data too long in one channel and too short in another channel of the same sample name"""
    out = []
    chs = spec["channels"]
    for t in ("histosys", "staterror"):
        for ci, c in enumerate(chs):
            for cj, c2 in enumerate(chs):
                if ci >= cj:
                    continue
                common = [s["name"] for s in c["samples"] if s["name"] in [x["name"] for x in c2["samples"]]]
                for sn in common:
                    nb1 = len(c["samples"][0]["data"])
                    nb2 = len(c2["samples"][0]["data"])
                    if nb2 < 2 and nb1 < 2:
                        continue
                    s2 = copy.deepcopy(spec)
                    d1, d2 = (nb1 + 1, nb2 - 1) if nb2 >= 2 else (nb1 - 1, nb2 + 1)
                    for ck, nbad in ((ci, d1), (cj, d2)):
                        smp = next(s for s in s2["channels"][ck]["samples"] if s["name"] == sn)
                        smp["modifiers"] = [m for m in smp["modifiers"] if m["type"] != t]
                        data = {"hi_data": sym_list(f"cmp{ck}.hi", nbad), "lo_data": sym_list(f"cmp{ck}.lo", nbad)} if t == "histosys" else sym_list(f"cmp{ck}.u", nbad)
                        smp["modifiers"].append({"name": f"cmp_{t}" if t == "histosys" else f"cmp_st_{ck}", "type": t, "data": data})
                    out.append(("compensating-length-errors-in-two-channels", f"{t}:{sn}@{c['name']}{d1 - nb1:+d},{c2['name']}{d2 - nb2:+d}", s2, None))
                    if t == "histosys":
                        for only in ("hi_data", "lo_data"):
                            s3 = copy.deepcopy(spec)
                            for ck, nbad, nbok in ((ci, d1, nb1), (cj, d2, nb2)):
                                smp = next(s for s in s3["channels"][ck]["samples"] if s["name"] == sn)
                                smp["modifiers"] = [m for m in smp["modifiers"] if m["type"] != t]
                                data = {"hi_data": sym_list(f"cmp{ck}.hi", nbad if only == "hi_data" else nbok), "lo_data": sym_list(f"cmp{ck}.lo", nbad if only == "lo_data" else nbok)}
                                smp["modifiers"].append({"name": "cmp_histosys", "type": t, "data": data})
                            out.append(("compensating-length-errors-in-two-channels", f"{t}.{only}:{sn}@{c['name']}{d1 - nb1:+d},{c2['name']}{d2 - nb2:+d}", s3, None))
    # the same for the sample's own yields: one bin too many in one channel, one too few in another
    for ci, c in enumerate(chs):
        for cj, c2 in enumerate(chs):
            if ci >= cj:
                continue
            common = [s["name"] for s in c["samples"] if s["name"] in [x["name"] for x in c2["samples"]]]
            for sn in common:
                nb1, nb2 = len(c["samples"][0]["data"]), len(c2["samples"][0]["data"])
                if nb2 < 2 and nb1 < 2:
                    continue
                d1, d2 = (nb1 + 1, nb2 - 1) if nb2 >= 2 else (nb1 - 1, nb2 + 1)
                s2 = copy.deepcopy(spec)
                for ck, nbad in ((ci, d1), (cj, d2)):
                    smp = next(s for s in s2["channels"][ck]["samples"] if s["name"] == sn)
                    smp["data"] = sym_list(f"cmpn{ck}.n", nbad)
                    # keep only modifiers without per-bin data so that the yields are the only length fault
                    smp["modifiers"] = [m for m in smp["modifiers"] if m["type"] in ("normfactor", "normsys", "lumi")]
                out.append(("compensating-length-errors-in-two-channels", f"yields:{sn}@{c['name']}{d1 - nb1:+d},{c2['name']}{d2 - nb2:+d}", s2, None))
    return out


def run_fault(T, base, cls, tag, spec, poi, safety=False):
    key = "pdf.py::Model.__init__"
    eng = T.engine(K.pipeline_policy())
    box = {}

    def thunk():
        for v in _leaves(spec):
            eng.assume(v > 0)
        m = K.make_model(eng, spec, poi)
        if safety:
            lay = K.layout_of(eng, m)
            th = K.theta_vec(lay.npars)
            box.update(lay=lay, th=th)
            return m, eng.call(eng.getattr(m, "expected_actualdata"), [th], {})
        return m, None
    try:
        results = eng.explore(thunk)
    except Unsupported as e:
        T.undecided(f"{key}#rejects.{cls}@class={cls}|{base},{tag}", f"UNSUPPORTED {e.what} at {e.where}", fault=cls, spec=_jsonable(spec), poi=poi)
        return
    T.absorb(eng, results)
    for k, r in enumerate(results):
        name = f"{key}#rejects.{cls}@class={cls}|{base},{tag},path{k}"
        meta = dict(kind="raises", fault=cls, spec=_jsonable(spec), poi=poi)
        if r.kind == "raise":
            ok = r.exc_name in ALLOWED
            (T.ok if ok else T.fail)(name, *([] if ok else [f"raises {r.exc_name} instead of a pyhf exception"]), **meta)
            continue
        if not safety:
            T.fail(name, "accepted: the inconsistent specification is built into a model", **meta)
            continue
        # safety form: an accepted model must represent every declared cell correctly
        m, ed = r.value
        lay, th = box["lay"], box["th"]
        try:
            want = O.expected_main(O.ZOps, spec, lay, th)
            got = K.elements(ed, len(want))
            T.ob(eng, name, r.path.hyps(), z3.And(*[a == b for a, b in zip(got, want)]), **meta)
        except (ValueError, IndexError, KeyError) as e:
            T.fail(name, f"accepted, and the reported layout cannot represent every declared cell ({type(e).__name__}: {e})", **meta)


def _leaves(x, acc=None):
    acc = [] if acc is None else acc
    if z3.is_expr(x):
        acc.append(x)
    elif isinstance(x, dict):
        for v in x.values():
            _leaves(v, acc)
    elif isinstance(x, (list, tuple)):
        for v in x:
            _leaves(v, acc)
    return acc


def _jsonable(x):
    if z3.is_expr(x):
        return "?"
    if isinstance(x, dict):
        return {k: _jsonable(v) for k, v in x.items()}
    if isinstance(x, (list, tuple)):
        return [_jsonable(v) for v in x]
    return x


def make_task(base, skel, part, lo, hi):
    def task(T):
        spec, _ = K.build_spec(skel)
        fl = faults(base, spec) if part == "single" else (shared_binwise_faults(base, spec) + compensating_faults(base, spec))
        fl = fl[lo:hi]
        for cls, tag, fspec, poi_override in fl:
            poi = poi_override if poi_override is not None else skel.get("poi")
            run_fault(T, base, cls, tag, fspec, poi, safety=(cls == "binwise-modifier-shared-across-different-bin-counts"))
        T.bounded_block("fault injection", f"skeleton {base}: faulty specifications {lo}..{lo + len(fl)} ({part}), numbers symbolic", len(fl), 0)
        if lo == 0:
            # vacuity guard: the unfaulted skeleton itself is accepted
            eng = T.engine(K.pipeline_policy())
            def guard():
                gspec, gsym = K.build_spec(skel)
                for c_ in gsym.positivity():
                    eng.assume(c_)
                return K.make_model(eng, gspec, skel.get("poi"))
            res = eng.explore(guard)
            ok = all(r.kind == "return" for r in res)
            (T.ok if ok else T.fail)(f"pdf.py::Model.__init__#guard.unfaulted-skeleton-is-accepted|{base},{part}", *([] if ok else ["the base skeleton is rejected"]), kind="cover")
    return task


def tasks(tier):
    out = []
    CH = 8
    for base, skel in BASES:
        spec, _ = K.build_spec(skel)
        n1 = len(faults(base, spec))
        n2 = len(shared_binwise_faults(base, spec) + compensating_faults(base, spec))
        for lo in range(0, n1, CH):
            out.append((f"faults[{base},single,{lo}]", make_task(base, skel, "single", lo, lo + CH)))
        for lo in range(0, max(n2, 1), CH):
            out.append((f"faults[{base},shared+pairs,{lo}]", make_task(base, skel, "pairs", lo, lo + CH)))
    return out


def replay(r):
    """native replay: the same faulty specification with concrete numbers through the real pyhf.Model"""
    meta = r.get("meta") or {}
    spec = meta.get("spec")
    if spec is None:
        return None
    import random
    import pyhf
    from pyhf import exceptions as E
    rng = random.Random(11)

    def fill(x, path=""):
        if x == "?":
            return round(rng.uniform(1.0, 1.3), 3) if "hi" == path[-2:] else (round(rng.uniform(0.7, 0.95), 3) if "lo" == path[-2:] else round(rng.uniform(5.0, 50.0), 3))
        if isinstance(x, dict):
            return {k: fill(v, path + "." + str(k)) for k, v in x.items()}
        if isinstance(x, list):
            return [fill(v, path) for v in x]
        return x
    cspec = fill(spec)
    allowed = (E.InvalidSpecification, E.InvalidModel, E.InvalidModifier, E.InvalidNameReuse)
    try:
        m = pyhf.Model(cspec, poi_name=meta.get("poi"))
    except allowed as e:
        return {"reproduced": False, "raised": type(e).__name__}
    except Exception as e:
        return {"reproduced": True, "fault": meta.get("fault"), "outcome": f"raises {type(e).__name__}: {e}", "spec": cspec}
    if meta.get("fault") == "binwise-modifier-shared-across-different-bin-counts":
        from .hf_native import native_layout
        from . import hf_oracle as O
        lay = native_layout(m)
        th = [rng.uniform(0.5, 1.5) for _ in range(m.config.npars)]
        try:
            want = O.expected_main(O.FOps, cspec, lay, th)
            got = list(m.expected_actualdata(th))
            bad = [(g, float(a), float(b)) for g, (a, b) in enumerate(zip(got, want)) if abs(a - b) > 1e-9 * max(1, abs(b))]
        except (ValueError, IndexError, KeyError) as e:
            bad = [f"layout cannot represent the declared cells: {type(e).__name__}: {e}"]
        return {"reproduced": bool(bad), "fault": meta.get("fault"), "outcome": "accepted", "wrong_bins": bad[:4], "spec": cspec}
    return {"reproduced": True, "fault": meta.get("fault"), "outcome": f"accepted: npars={m.config.npars}, nmaindata={m.config.nmaindata}, channels={m.config.channels}, samples={m.config.samples}", "spec": cspec}
