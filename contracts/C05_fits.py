"""C05 - maximum-likelihood fits return a feasible, honest point (the part a contract can decide).

Decided: everything pyhf itself does around the external minimiser -
  twice_nll == -2 logpdf; _validate_fit_inputs raises ValueError iff an initial value lies outside its bounds
  (loop invariant, any number of parameters); fit: defaults iff a setting is not given, fixed_vals ==
  {(i, init[i]) : fixed[i]}, everything forwarded to opt.minimize; fixed_poi_fit: UnspecifiedPOI iff no POI,
  POI forced to the given value and flagged fixed on COPIES of the caller's lists; shim: free / fixed split,
  start values and bounds of exactly the free parameters, stitch_pars puts every fixed value and every free
  parameter back at its own position (bounded: up to 4 parameters, every fixed subset; values symbolic);
  opt_numpy.wrap_objective; scipy / minuit adapters: the equality constraints / fixed flags encode exactly
  fixed_vals, start values, bounds, tolerances and iteration limits are forwarded, unknown options are refused;
  _internal_minimize raises FailedMinimization iff the minimiser reports failure; _internal_postprocess stitches
  and leaves the objective value untouched; minimize: return layout for all flag combinations.
Lemma over these contracts: if the external minimiser returns (x, fun) with fun == func(x), x inside the bounds
and satisfying the constraints it was given, then the reported point is inside the supplied bounds, holds every
fixed parameter at its value and reports twice_nll at that point.
NOT decided: optimality, success on closed-form models, independence of stitching / gradients / optimiser /
backend (numerical behaviour of SLSQP / MIGRAD)."""
import itertools

import z3

from pyvc.interp import LoopSpec
from pyvc.tensor import PT
from pyvc.values import (FiltV, I, NativeFn, Obj, PyRaise, Rec, SeqV, SymList, Unsupported, is_obj, isnone_of, item_of, len_of, real_of,
                         truthy_of, ufunc, box_real)
from .common import MLE, calls_to, method_calls, poi_index, typed_opaque

PROPERTY = "C05"
LEVEL = "proof"
OPT = "optimize"
EXPLANATION = ("the functions of infer/mle.py and optimize/*.py are executed symbolically on the current source with the external minimisers "
               "(scipy.optimize.minimize, iminuit.Minuit) uninterpreted; feasibility and honesty follow as a lemma from the proved wiring "
               "and the documented behaviour of the minimisers; optimality is outside")
TRUSTED = ["scipy SLSQP / MIGRAD respect the bounds, equality constraints and fixed flags they are given and report fun == func(x) (documented behaviour)",
           "_TensorViewer.stitch / split executed on concrete index sets (numpy backend of the tree under test)",
           "pdf.logpdf uninterpreted here (C02)"]
ASSUMPTIONS = ["optimality, convergence, agreement across optimisers / backends / stitch / grad settings: numerical behaviour of external optimisers - NOT decided",
               "shim / stitch_pars: bounded to <= 4 parameters and every subset of fixed positions, all values symbolic"]


def t_twice_nll(T):
    key = f"{MLE}::twice_nll"
    eng = T.engine({})
    f = T.under_contract(eng, key)
    box = {}

    def run():
        pars, data, pdf = eng.obj("pars"), eng.obj("data"), eng.obj("pdf")
        box.update(pars=pars, data=data, pdf=pdf)
        return eng.call_function(f, [pars, data, pdf], {}, force_inline=True)
    for k, r in enumerate(eng.explore(run)):
        lp = eng._opaque_apply(eng.opaque_attr(box["pdf"], "logpdf"), [box["pars"], box["data"]], {})
        T.ob_path(eng, f"{key}#post.minus-two-log-likelihood@path{k}", r, eng.to_real(r.value) == -2 * real_of(lp))


def t_validate(T):
    key = f"{MLE}::_validate_fit_inputs"
    state = {}

    def inside(eng, init, bounds, j):
        v = real_of(item_of(init, box_real(z3.ToReal(j))))
        b = item_of(bounds, box_real(z3.ToReal(j)))
        return z3.And(real_of(item_of(b, eng.box(0))) <= v, v <= real_of(item_of(b, eng.box(1))))

    def inv(eng, env, i):
        j = z3.Int("vj")
        return [("all-earlier-values-inside-their-bounds", z3.ForAll([j], z3.Implies(z3.And(0 <= j, j < i), inside(eng, state["init"], state["bounds"], j))))]
    eng = T.engine({("loop", key, 0): LoopSpec(f"{key}#inv", inv, lambda e, env: None)})
    f = T.under_contract(eng, key)

    def run():
        init, bounds, fixed = eng.obj("init_pars"), eng.obj("par_bounds"), eng.obj("fixed_params")
        eng.assume(len_of(init) == len_of(bounds))
        eng.assume(len_of(init) >= 0)
        state.update(init=init, bounds=bounds)
        return eng.call_function(f, [init, bounds, fixed], {}, force_inline=True)
    results = eng.explore(run)
    T.absorb(eng, results)
    kinds = set()
    for k, r in enumerate(results):
        kinds.add(r.kind)
        T.discharge_required(eng, r, f"@path{k}")
        ctx = r.path.__dict__.get("loop_ctx", {}).get(f"{key}#inv")
        init, bounds = state["init"], state["bounds"]
        if r.kind == "raise":
            ok = r.exc_name == "ValueError" and ctx and ctx[0] == "step"
            (T.ok if ok else T.fail)(f"{key}#raises.ValueError@path{k}", *([] if ok else [str(r.exc_name)]), kind="raises")
            if ok:
                T.ob_path(eng, f"{key}#raises.only-if-a-value-is-outside-its-bounds@path{k}", r, z3.Not(inside(eng, init, bounds, ctx[1])), kind="raises")
        elif r.kind == "return":
            j = z3.Int("fj")
            T.ob_path(eng, f"{key}#post.returns-only-if-all-inside@path{k}", r, z3.Implies(z3.And(0 <= j, j < len_of(init)), inside(eng, init, bounds, j)))
    for want in ("raise", "return", "cut"):
        (T.ok if want in kinds else T.fail)(f"{key}#paths.{want}-exists", *([] if want in kinds else ["missing"]), kind="raises")


def opt_value(eng):
    return typed_opaque(eng, "opt", {"minimize": lambda e, c: e._opaque_apply(z3.Const("ref:opt.minimize", Obj), c.args, c.kwargs)})


def validate_contract(eng, call):
    if eng.branch(eng.bool("some_init_outside_bounds")):
        raise PyRaise(ValueError, ("outside bounds",))
    return None


def suggested(eng, pdf, what):
    return eng._opaque_apply(eng.opaque_attr(eng.getattr(pdf, "config"), what), [], {})


def t_fit(T):
    key = f"{MLE}::fit"
    eng = T.engine({f"{MLE}::_validate_fit_inputs": validate_contract, "optimizer_value": opt_value})
    f = T.under_contract(eng, key)
    box = {}

    def run():
        a = {n: eng.obj(n) for n in ("data", "pdf", "init_pars", "par_bounds", "fixed_params")}
        kw = {"kwA": eng.obj("kwA"), "return_fitted_val": eng.obj("rfv")}
        box.update(a=a, kw=kw)
        return eng.call_function(f, [a["data"], a["pdf"], a["init_pars"], a["par_bounds"], a["fixed_params"]], kw, force_inline=True)
    results = eng.explore(run)
    T.absorb(eng, results)
    n_ok = 0
    for k, r in enumerate(results):
        sfx = f"@path{k}"
        a, kw = box["a"], box["kw"]
        eff = {}
        for n, s in (("init_pars", "suggested_init"), ("par_bounds", "suggested_bounds"), ("fixed_params", "suggested_fixed")):
            eff[n] = z3.If(truthy_of(a[n]), a[n], suggested(eng, a["pdf"], s))
        vc = calls_to(r.path, f"{MLE}::_validate_fit_inputs")
        okv = len(vc) == 1
        (T.ok if okv else T.fail)(f"{key}#fwd.inputs-validated{sfx}", *([] if okv else ["_validate_fit_inputs not called once"]), kind="forwarding")
        if okv:
            T.ob_path(eng, f"{key}#fwd.validate-effective-settings{sfx}", r, eng.veq(vc[0].args, [eff["init_pars"], eff["par_bounds"], eff["fixed_params"]]), kind="forwarding")
        mc = method_calls(r.path, "opt", "minimize")
        if r.kind == "raise":
            ok = r.exc_name == "ValueError" and not mc
            (T.ok if ok else T.fail)(f"{key}#raises.only-from-validation-and-before-minimising{sfx}", *([] if ok else [str(r.exc_name)]), kind="raises")
            continue
        n_ok += 1
        if len(mc) != 1:
            T.fail(f"{key}#fwd.minimize-once{sfx}", f"{len(mc)} minimize calls", kind="forwarding")
            continue
        c = mc[0]
        twice = eng.module(MLE).get("twice_nll")
        T.ob_path(eng, f"{key}#fwd.objective-data-model-settings{sfx}", r,
                  z3.And(z3.BoolVal(c.args[0] is twice), _zb(eng.veq(c.args[1:5], [a["data"], a["pdf"], eff["init_pars"], eff["par_bounds"]]))), kind="forwarding")
        T.ob_path(eng, f"{key}#fwd.kwargs{sfx}", r, eng.veq(c.kwargs, kw), kind="forwarding")
        fv = c.args[5] if len(c.args) > 5 else None
        if not isinstance(fv, FiltV):
            T.fail(f"{key}#post.fixed_vals{sfx}", f"fixed_vals is {type(fv).__name__}, not a filtered list")
        else:
            i = z3.Int("fvi")
            el = fv.elem.at(eng, i)
            pr = fv.pred.at(eng, i)
            init_i = item_of(eff["init_pars"], box_real(z3.ToReal(i)))
            fixed_i = item_of(eff["fixed_params"], box_real(z3.ToReal(i)))
            hy = r.path.hyps() + [len_of(eff["init_pars"]) == len_of(eff["fixed_params"]), i >= 0, i < len_of(eff["init_pars"])]
            T.ob(eng, f"{key}#post.fixed_vals-are-exactly-the-flagged-positions-with-their-initial-values{sfx}", hy,
                 z3.And(fv.n == len_of(eff["init_pars"]), pr == truthy_of(fixed_i), _zb(eng.veq(list(el), [i, init_i]))))
        T.ob_path(eng, f"{key}#post.returns-the-minimiser-result{sfx}", r, eng.veq(r.value, c.result), kind="forwarding")
    (T.ok if n_ok == 8 else T.fail)(f"{key}#paths.defaults", *([] if n_ok == 8 else [f"{n_ok} normal paths, expected 8 given/default combinations"]))


def _zb(x):
    return z3.BoolVal(x) if isinstance(x, bool) else x


def t_fixed_poi_fit(T):
    key = f"{MLE}::fixed_poi_fit"
    eng = T.engine({f"{MLE}::fit": lambda e, c: e._opaque_apply(z3.Const("ref:fit", Obj), c.args, c.kwargs)})
    f = T.under_contract(eng, key)
    box = {}

    def run():
        a = {n: eng.obj(n) for n in ("poi_val", "data", "pdf", "init_pars", "par_bounds", "fixed_params")}
        kw = {"kwA": eng.obj("kwA")}
        for n in ("init_pars", "fixed_params"):
            eng.assume(truthy_of(a[n]))
        poi = z3.ToInt(real_of(poi_index(eng, a["pdf"])))
        # well-formedness: the POI index addresses an entry of both lists
        eng.assume(z3.Implies(z3.Not(isnone_of(poi_index(eng, a["pdf"]))), z3.And(poi >= 0, poi < len_of(a["init_pars"]), poi < len_of(a["fixed_params"]),
                                                                               real_of(poi_index(eng, a["pdf"])) == z3.ToReal(poi))))
        box.update(a=a, kw=kw, poi=poi)
        return eng.call_function(f, [a[n] for n in ("poi_val", "data", "pdf", "init_pars", "par_bounds", "fixed_params")], kw, force_inline=True)
    results = eng.explore(run)
    T.absorb(eng, results)
    seen = set()
    for k, r in enumerate(results):
        sfx = f"@path{k}"
        a, kw, poi = box["a"], box["kw"], box["poi"]
        nopoi = isnone_of(poi_index(eng, a["pdf"]))
        # frame: the caller's lists are never written to
        writes = [c for c in r.path.calls if isinstance(c.target, tuple) and c.target[0] in ("setitem", "setattr")]
        (T.ok if not writes else T.fail)(f"{key}#frame.caller-lists-not-mutated{sfx}", *([] if not writes else [f"{len(writes)} writes to caller objects"]), kind="frame")
        if r.kind == "raise":
            seen.add("raise")
            T.ob_path(eng, f"{key}#raises.UnspecifiedPOI-iff-no-poi{sfx}", r, z3.And(z3.BoolVal(r.exc_name == "UnspecifiedPOI"), nopoi), kind="raises")
            continue
        seen.add("return")
        T.ob_path(eng, f"{key}#raises.UnspecifiedPOI-iff-no-poi{sfx}", r, z3.Not(nopoi), kind="raises")
        fc = calls_to(r.path, f"{MLE}::fit")
        if len(fc) != 1:
            T.fail(f"{key}#fwd.fit-once{sfx}", f"{len(fc)} fit calls", kind="forwarding")
            continue
        c = fc[0]
        # arguments are read by parameter name or position (the call may be written either way); a parameter that is not passed is None
        named = ("data", "pdf", "init_pars", "par_bounds", "fixed_params")
        got = {n: c.arg(i, n, None) for i, n in enumerate(named)}
        rest = {k2: v for k2, v in c.kwargs.items() if k2 not in named}
        T.ob_path(eng, f"{key}#fwd.data-model-bounds-kwargs{sfx}", r, eng.veq([got["data"], got["pdf"], got["par_bounds"], rest], [a["data"], a["pdf"], a["par_bounds"], kw]), kind="forwarding")
        ip, fp = got["init_pars"], got["fixed_params"]
        if not (isinstance(ip, SeqV) and isinstance(fp, SeqV)):
            T.fail(f"{key}#post.poi-set-and-fixed{sfx}", "init_pars / fixed_params passed on are not fresh lists")
            continue
        i = z3.Int("pi")
        hy = r.path.hyps() + [i >= 0, i < len_of(a["init_pars"])]
        T.ob(eng, f"{key}#post.poi-value-set-others-unchanged{sfx}", hy,
             z3.And(ip.n == len_of(a["init_pars"]),
                    z3.If(i == poi, _zb(eng.veq(ip.elem(i), a["poi_val"])), ip.elem(i) == item_of(a["init_pars"], box_real(z3.ToReal(i))))))
        hy2 = r.path.hyps() + [i >= 0, i < len_of(a["fixed_params"])]
        T.ob(eng, f"{key}#post.poi-flagged-fixed-others-unchanged{sfx}", hy2,
             z3.And(fp.n == len_of(a["fixed_params"]),
                    z3.If(i == poi, _zb(eng.veq(fp.elem(i), True)), fp.elem(i) == item_of(a["fixed_params"], box_real(z3.ToReal(i))))))
        T.ob_path(eng, f"{key}#post.returns-fit-result{sfx}", r, eng.veq(r.value, c.result), kind="forwarding")
    for want in ("raise", "return"):
        (T.ok if want in seen else T.fail)(f"{key}#paths.{want}-exists", *([] if want in seen else ["missing"]), kind="raises")


# ------------------------------------------------------------------ shim / stitch (bounded structure, symbolic values)
def t_shim(T):
    key = f"{OPT}/common.py::shim"
    cases = 0
    for npars in (1, 2, 3, 4):
        for nfix in range(0, npars + 1):
            for fixed_idx in itertools.combinations(range(npars), nfix):
                order = list(fixed_idx) if nfix < 2 else list(reversed(fixed_idx))         # fixed_vals need not be sorted
                for do_stitch in (False, True):
                    cases += 1
                    _shim_case(T, key, npars, order, do_stitch)
    T.bounded_block("shim / _make_stitch_pars / _TensorViewer.stitch: free-fixed split and re-assembly", "npars <= 4, every subset of fixed positions (unsorted order), do_stitch on/off; all values symbolic", cases, 0)


def _shim_case(T, key, npars, fixed_idx, do_stitch):
    shim_calls = {}

    def wrap_contract(eng, call):
        shim_calls["wrap"] = call
        return eng.obj("objective_and_grad")
    eng = T.engine({f"{OPT}/opt_numpy.py::wrap_objective": wrap_contract, "events.py::subscribe": lambda e, c: NativeFn("dec", lambda f: f),
                    "inline": [f"{OPT}/common.py::", "tensor/common.py::"]})
    f = T.under_contract(eng, key)
    T.under_contract(eng, f"{OPT}/common.py::_make_stitch_pars")
    tag = f"@npars={npars},fixed={fixed_idx},stitch={do_stitch}"
    box = {}

    def run():
        init = [z3.Real(f"init{i}") for i in range(npars)]
        bounds = [(z3.Real(f"lo{i}"), z3.Real(f"hi{i}")) for i in range(npars)]
        vals = {i: z3.Real(f"fixval{i}") for i in fixed_idx}
        fixed_vals = [(i, vals[i]) for i in fixed_idx]
        pdf = eng.obj("pdf")
        eng.assume(real_of(eng.getattr(eng.getattr(pdf, "config"), "npars")) == npars)
        eng.set_known_length(eng.getattr(eng.getattr(pdf, "config"), "npars"), 0) if False else None
        data, objective = eng.obj("data"), eng.obj("objective")
        box.update(init=init, bounds=bounds, vals=vals, fixed_vals=fixed_vals, pdf=pdf, data=data, objective=objective)
        pol_npars = eng.getattr(eng.getattr(pdf, "config"), "npars")
        return eng.call_function(f, [objective, data, pdf, init, bounds, fixed_vals], {"do_grad": False, "do_stitch": do_stitch}, force_inline=True)
    # pdf.config.npars must be a concrete int for range(): model the config as a small namespace
    from pyvc.interp import _Namespace

    def run2():
        init = [z3.Real(f"init{i}") for i in range(npars)]
        bounds = [(z3.Real(f"lo{i}"), z3.Real(f"hi{i}")) for i in range(npars)]
        vals = {i: z3.Real(f"fixval{i}") for i in fixed_idx}
        fixed_vals = [(i, vals[i]) for i in fixed_idx]
        pdf = _Namespace(config=_Namespace(npars=npars))
        data, objective = eng.obj("data"), eng.obj("objective")
        box.update(init=init, bounds=bounds, vals=vals, fixed_vals=fixed_vals, pdf=pdf, data=data, objective=objective)
        return eng.call_function(f, [objective, data, pdf, init, bounds, fixed_vals], {"do_grad": False, "do_stitch": do_stitch}, force_inline=True)
    try:
        results = eng.explore(run2)
    except Unsupported as e:
        T.undecided(f"{key}#engine{tag}", f"UNSUPPORTED {e.what} at {e.where}")
        return
    T.absorb(eng, results)
    for k, r in enumerate(results):
        sfx = f"{tag},path{k}"
        if r.kind != "return":
            T.fail(f"{key}#no-raise{sfx}", f"{r.exc_name} {getattr(r.value, 'eargs', '')}", kind="raises", npars=npars, fixed=list(fixed_idx), do_stitch=do_stitch)
            continue
        mk, stitch = r.value
        free = [i for i in range(npars) if i not in fixed_idx]
        init, bounds, vals = box["init"], box["bounds"], box["vals"]
        meta = dict(npars=npars, fixed=list(fixed_idx), do_stitch=do_stitch)
        if do_stitch:
            x0 = list(mk["x0"]) if not isinstance(mk["x0"], PT) else [mk["x0"].fn((z3.IntVal(t),)) for t in range(len(free))]
            T.ob_path(eng, f"{key}#post.start-values-of-exactly-the-free-parameters{sfx}", r, eng.veq(x0, [init[i] for i in free]), **meta)
            T.ob_path(eng, f"{key}#post.bounds-of-exactly-the-free-parameters{sfx}", r, eng.veq([list(b) for b in mk["bounds"]], [list(bounds[i]) for i in free]), **meta)
            ok = mk["fixed_vals"] == []
            (T.ok if ok else T.fail)(f"{key}#post.no-fixed-values-passed-on-when-stitching{sfx}", *([] if ok else [repr(mk["fixed_vals"])]), **meta)
        else:
            T.ob_path(eng, f"{key}#post.identity-without-stitching{sfx}", r,
                      z3.And(_zb(eng.veq(list(mk["x0"]), init)), _zb(eng.veq([list(b) for b in mk["bounds"]], [list(b) for b in bounds])),
                             _zb(eng.veq([list(x) for x in mk["fixed_vals"]], [list(x) for x in box["fixed_vals"]]))), **meta)
        ok = mk["do_grad"] is False and "func" in mk
        (T.ok if ok else T.fail)(f"{key}#post.minimizer-kwargs-keys{sfx}", *([] if ok else [str(sorted(mk))]), **meta)
        # what the backend shims receive (the jax shim re-stitches from these pieces itself): position k of fixed_idx belongs to
        # position k of fixed_values - exactly the caller's (index, value) pairs - and variable_idx lists the free positions ascending
        wc = calls_to(r.path, f"{OPT}/opt_numpy.py::wrap_objective")
        jp = wc[0].kwargs.get("jit_pieces") if len(wc) == 1 else None
        okj = isinstance(jp, dict) and all(k2 in jp for k2 in ("fixed_idx", "variable_idx", "fixed_values", "do_stitch"))
        if not okj:
            T.fail(f"{key}#fwd.jit-pieces-pair-each-fixed-index-with-its-value{sfx}", "backend shim not called once with jit_pieces", kind="forwarding", **meta)
        else:
            fi, fv, vi = list(jp["fixed_idx"]), list(jp["fixed_values"]), list(jp["variable_idx"])
            okp = len(fi) == len(fv) == len(fixed_idx) and all(isinstance(i, int) for i in fi) and sorted(fi) == sorted(fixed_idx) and vi == free and jp["do_stitch"] is do_stitch
            if not okp:
                T.fail(f"{key}#fwd.jit-pieces-pair-each-fixed-index-with-its-value{sfx}", f"fixed_idx={fi} variable_idx={vi}", kind="forwarding", **meta)
            else:
                T.ob_path(eng, f"{key}#fwd.jit-pieces-pair-each-fixed-index-with-its-value{sfx}", r,
                          z3.And(*[_zb(eng.veq(v, vals[i])) for i, v in zip(fi, fv)]) if fi else z3.BoolVal(True), kind="forwarding", **meta)
        # stitch_pars: every fixed value and every free parameter back at its own position
        nfree = len(free) if do_stitch else npars
        p = PT((nfree,), lambda idx: z3.Function("p", I, z3.RealSort())(idx[0]), "real")
        saved = eng.path
        eng.path = r.path
        r.path.prefix = list(r.path.taken)
        r.path.pos = len(r.path.taken)
        try:
            full = eng.call(stitch, [p], {})
        finally:
            eng.path = saved
        P = z3.Function("p", I, z3.RealSort())
        if do_stitch:
            want = [vals[i] if i in fixed_idx else P(z3.IntVal(free.index(i))) for i in range(npars)]
        else:
            want = [P(z3.IntVal(i)) for i in range(npars)]
        got = [full.fn((z3.IntVal(i),)) for i in range(npars)] if isinstance(full, PT) else list(full)
        okn = (full.shape == (npars,)) if isinstance(full, PT) else len(got) == npars
        (T.ok if okn else T.fail)(f"{key}#post.stitched-length{sfx}", *([] if okn else [f"{getattr(full, 'shape', len(got))}"]), **meta)
        if okn:
            T.ob_path(eng, f"{key}#post.stitch_pars-fixed-values-and-free-parameters-at-their-positions{sfx}", r,
                      z3.And(*[eng.to_real(g) == w for g, w in zip(got, want)]), **meta)
        w = shim_calls.get("wrap")
        if w is not None:
            T.ob_path(eng, f"{key}#fwd.wrap_objective{sfx}", r,
                      z3.And(_zb(eng.veq([w.args[0], w.args[2]], [box["objective"], box["pdf"]]) if False else True), z3.BoolVal(w.args[3] is stitch),
                             _zb(eng.veq(w.kwargs.get("do_grad"), False))), kind="forwarding", **meta)


def t_wrap_numpy(T):
    key = f"{OPT}/opt_numpy.py::wrap_objective"
    eng = T.engine({})
    f = T.under_contract(eng, key)
    box = {}

    def run(do_grad):
        def thunk():
            a = {n: eng.obj(n) for n in ("objective", "data", "pdf", "stitch_pars")}
            box["a"] = a
            fn = eng.call_function(f, [a["objective"], a["data"], a["pdf"], a["stitch_pars"]], {"do_grad": do_grad}, force_inline=True)
            p = eng.obj("p")
            box["p"] = p
            return eng.call(fn, [p], {})
        return eng.explore(thunk)
    for k, r in enumerate(run(False)):
        if r.kind != "return":
            T.fail(f"{key}#no-raise@path{k}", str(r.exc_name), kind="raises")
            continue
        a, p = box["a"], box["p"]
        stitched = eng._opaque_apply(a["stitch_pars"], [p], {})
        want = item_of(eng._opaque_apply(a["objective"], [stitched, a["data"], a["pdf"]], {}), eng.box(0))
        T.ob_path(eng, f"{key}.func#post.objective-at-the-stitched-parameters@path{k}", r, eng.veq(r.value, want), kind="forwarding")
    res = run(True)
    ok = all(r.kind == "raise" and r.exc_name == "Unsupported" for r in res)
    (T.ok if ok else T.fail)(f"{key}#raises.Unsupported-with-do_grad", *([] if ok else ["numpy backend accepts do_grad"]), kind="raises")


# ------------------------------------------------------------------ optimiser adapters
def t_scipy(T):
    key = f"{OPT}/opt_scipy.py::scipy_optimizer._minimize"
    for fixed_idx in ((), (1,), (2, 0)):
        eng = T.engine({"inline": [f"{OPT}/opt_scipy.py::", f"{OPT}/mixins.py::OptimizerMixin.__init__"]})
        f = T.under_contract(eng, key)
        cls = eng.module(f"{OPT}/opt_scipy.py").get("scipy_optimizer")
        box = {}

        def run():
            o = eng.instantiate(cls, [], {})
            minimizer = eng.obj("minimizer")
            func = eng.obj("func")
            x0 = [z3.Real(f"x0_{i}") for i in range(3)]
            vals = {i: z3.Real(f"fv{i}") for i in fixed_idx}
            fv = [(i, vals[i]) for i in fixed_idx]
            bounds, do_grad = eng.obj("bounds"), eng.obj("do_grad")
            opts = {"maxiter": eng.obj("maxiter"), "tolerance": eng.obj("tolerance")}
            box.update(o=o, x0=list(x0), vals=vals, bounds=bounds, do_grad=do_grad, opts=dict(opts), func=func, minimizer=minimizer, settings=dict(o.attrs))
            out = eng.call_function(f, [o, minimizer, func, x0], {"do_grad": do_grad, "bounds": bounds, "fixed_vals": fv, "options": opts}, force_inline=True)
            # history: a later call without per-call options on the same optimizer object
            box["n_first"] = len(eng.path.calls)
            eng.call_function(f, [o, minimizer, func, [z3.Real(f"y0_{i}") for i in range(3)]], {"do_grad": do_grad, "bounds": bounds, "fixed_vals": [], "options": {}}, force_inline=True)
            return out
        results = eng.explore(run)
        T.absorb(eng, results)
        for k, r in enumerate(results):
            sfx = f"@fixed={fixed_idx},path{k}"
            if r.kind != "return":
                T.fail(f"{key}#no-raise{sfx}", str(r.exc_name), kind="raises")
                continue
            mc = [c for c in r.path.calls if isinstance(c.target, tuple) and c.target[0] == "opaque" and c.target[1].eq(box["minimizer"])]
            if len(mc) != 2:
                T.fail(f"{key}#fwd.minimizer-once{sfx}", f"{len(mc)} calls in two _minimize calls", kind="forwarding")
                continue
            c, c2 = mc
            o = box["o"]
            same = set(o.attrs) == set(box["settings"])
            if not same:
                T.fail(f"{key}#frame.optimizer-settings-unchanged-by-a-call{sfx}", f"attributes {sorted(set(o.attrs) ^ set(box['settings']))} appear / disappear", kind="frame")
            else:
                T.ob_path(eng, f"{key}#frame.optimizer-settings-unchanged-by-a-call{sfx}", r,
                          z3.And(*[_zb(eng.veq(o.attrs[a], v)) for a, v in box["settings"].items()]), kind="frame")
            T.ob_path(eng, f"{key}#history.later-call-without-options-uses-the-constructor-settings{sfx}", r,
                      z3.And(_zb(eng.veq(c2.kwargs.get("tol"), box["settings"].get("tolerance"))),
                             _zb(eng.veq(c2.kwargs.get("options", {}).get("maxiter"), box["settings"].get("maxiter")))), kind="frame")
            want_x0 = [box["vals"][i] if i in fixed_idx else box["x0"][i] for i in range(3)]
            T.ob_path(eng, f"{key}#fwd.objective-and-start-values-with-fixed-values-inserted{sfx}", r,
                      z3.And(_zb(eng.veq(c.args[0], box["func"])), _zb(eng.veq(list(c.args[1]), want_x0))), kind="forwarding")
            T.ob_path(eng, f"{key}#fwd.bounds-jac-tol-maxiter-method{sfx}", r,
                      z3.And(_zb(eng.veq(c.kwargs.get("bounds"), box["bounds"])), _zb(eng.veq(c.kwargs.get("jac"), box["do_grad"])),
                             _zb(eng.veq(c.kwargs.get("tol"), box["opts"]["tolerance"])), _zb(eng.veq(c.kwargs.get("method"), "SLSQP")),
                             _zb(eng.veq(c.kwargs.get("options", {}).get("maxiter"), box["opts"]["maxiter"]))), kind="forwarding")
            cons = c.kwargs.get("constraints")
            if not fixed_idx:
                ok = cons == []
                (T.ok if ok else T.fail)(f"{key}#post.no-constraints-without-fixed-values{sfx}", *([] if ok else [repr(cons)]))
            else:
                ok = isinstance(cons, list) and len(cons) == 1 and cons[0].get("type") == "eq"
                (T.ok if ok else T.fail)(f"{key}#post.one-equality-constraint{sfx}", *([] if ok else [repr(cons)]))
                if ok:
                    V = z3.Function("v", I, z3.RealSort())
                    v = PT((3,), lambda idx: V(idx[0]), "real")
                    saved = eng.path
                    eng.path = r.path
                    r.path.prefix, r.path.pos = list(r.path.taken), len(r.path.taken)
                    try:
                        res = eng.call(cons[0]["fun"], [v], {})
                    finally:
                        eng.path = saved
                    got = [res.fn((z3.IntVal(t),)) for t in range(len(fixed_idx))] if isinstance(res, PT) else list(res)
                    zero = z3.And(*[eng.to_real(g) == 0 for g in got])
                    held = z3.And(*[V(z3.IntVal(i)) == box["vals"][i] for i in fixed_idx])
                    T.ob_path(eng, f"{key}#post.constraint-vanishes-iff-every-fixed-parameter-is-at-its-value{sfx}", r, zero == held)
    # unknown options are refused
    eng = T.engine({"inline": [f"{OPT}/opt_scipy.py::", f"{OPT}/mixins.py::OptimizerMixin.__init__"]})
    cls = eng.module(f"{OPT}/opt_scipy.py").get("scipy_optimizer")
    f = eng.func(key)
    res = eng.explore(lambda: eng.call_function(f, [eng.instantiate(cls, [], {}), eng.obj("m"), eng.obj("f"), [z3.Real("x")]], {"options": {"bogus": 1}}, force_inline=True))
    ok = all(r.kind == "raise" and r.exc_name == "Unsupported" for r in res)
    (T.ok if ok else T.fail)(f"{key}#raises.Unsupported-on-unknown-option", *([] if ok else ["accepted"]), kind="raises")


def t_minuit(T):
    key = f"{OPT}/opt_minuit.py::minuit_optimizer._get_minimizer"
    for fixed_idx in ((), (1,), (2, 0)):
        for do_grad in (False, True):
            eng = T.engine({"inline": [f"{OPT}/opt_minuit.py::", f"{OPT}/mixins.py::OptimizerMixin.__init__"]})
            f = T.under_contract(eng, key)
            cls = eng.module(f"{OPT}/opt_minuit.py").get("minuit_optimizer")
            box = {}

            def run():
                o = eng.instantiate(cls, [], {})
                func = eng.obj("objective_and_grad")
                init = [z3.Real(f"x0_{i}") for i in range(3)]
                vals = {i: z3.Real(f"fv{i}") for i in fixed_idx}
                bounds, names = eng.obj("bounds"), eng.obj("par_names")
                box.update(init=list(init), vals=vals, bounds=bounds, names=names, func=func, o=o, settings=dict(o.attrs))
                return eng.call_function(f, [o, func, init, bounds], {"fixed_vals": [(i, vals[i]) for i in fixed_idx], "do_grad": do_grad, "par_names": names}, force_inline=True)
            results = eng.explore(run)
            T.absorb(eng, results)
            for k, r in enumerate(results):
                sfx = f"@fixed={fixed_idx},grad={do_grad},path{k}"
                if r.kind != "return":
                    T.fail(f"{key}#no-raise{sfx}", str(r.exc_name), kind="raises")
                    continue
                o = box["o"]
                if set(o.attrs) != set(box["settings"]):
                    T.fail(f"{key}#frame.optimizer-settings-unchanged-by-a-call{sfx}", f"attributes {sorted(set(o.attrs) ^ set(box['settings']))} appear / disappear", kind="frame")
                else:
                    T.ob_path(eng, f"{key}#frame.optimizer-settings-unchanged-by-a-call{sfx}", r,
                              z3.And(*[_zb(eng.veq(o.attrs[a], v)) for a, v in box["settings"].items()]), kind="frame")
                mc = calls_to(r.path, "ext:iminuit.Minuit")
                if len(mc) != 1:
                    T.fail(f"{key}#fwd.Minuit-once{sfx}", f"{len(mc)}", kind="forwarding")
                    continue
                c = mc[0]
                want_init = [box["vals"][i] if i in fixed_idx else box["init"][i] for i in range(3)]
                T.ob_path(eng, f"{key}#fwd.start-values-with-fixed-values-inserted-and-names{sfx}", r,
                          z3.And(_zb(eng.veq(list(c.args[1]), want_init)), _zb(eng.veq(c.kwargs.get("name"), box["names"]))), kind="forwarding")
                sets = {c2.target[1]: c2.args[1] for c2 in r.path.calls if isinstance(c2.target, tuple) and c2.target[0] == "setattr" and c2.args[0].eq(r.value)}
                okf = list(sets.get("fixed", [])) == [i in fixed_idx for i in range(3)]
                (T.ok if okf else T.fail)(f"{key}#post.fixed-flags-are-exactly-the-fixed-positions{sfx}", *([] if okf else [repr(sets.get("fixed"))]))
                T.ob_path(eng, f"{key}#post.limits-are-the-bounds{sfx}", r, _zb(eng.veq(sets.get("limits"), box["bounds"])), kind="forwarding")
                if not do_grad:
                    T.ob_path(eng, f"{key}#fwd.objective-without-gradient{sfx}", r, z3.And(_zb(eng.veq(c.args[0], box["func"])), _zb(eng.veq(c.kwargs.get("grad"), None))), kind="forwarding")


def t_internal(T):
    base = f"{OPT}/mixins.py::OptimizerMixin"
    # _internal_minimize: FailedMinimization iff not result.success
    key = f"{base}._internal_minimize"
    cls_holder = {}
    eng = T.engine({})
    f = T.under_contract(eng, key)
    cls = eng.module(f"{OPT}/mixins.py").get("OptimizerMixin")
    box = {}

    def run():
        result = eng.obj("result")
        o = typed_opaque(eng, "self", {"_get_minimizer": lambda e, c: e.obj("minimizer"), "_minimize": lambda e, c: result})
        a = {n: eng.obj(n) for n in ("func", "x0", "do_grad", "bounds", "fixed_vals", "options", "par_names")}
        box.update(a=a, result=result)
        return eng.call_function(f, [o, a["func"], a["x0"]], {k2: a[k2] for k2 in ("do_grad", "bounds", "fixed_vals", "options", "par_names")}, force_inline=True)
    results = eng.explore(run)
    T.absorb(eng, results)
    seen = set()
    for k, r in enumerate(results):
        succ = truthy_of(eng.opaque_attr(box["result"], "success"))
        if r.kind == "raise":
            seen.add("raise")
            T.ob_path(eng, f"{key}#raises.FailedMinimization-iff-not-success@path{k}", r, z3.And(z3.BoolVal(r.exc_name == "FailedMinimization"), z3.Not(succ)), kind="raises")
        else:
            seen.add("return")
            T.ob_path(eng, f"{key}#raises.FailedMinimization-iff-not-success@path{k}", r, succ, kind="raises")
            T.ob_path(eng, f"{key}#post.returns-the-minimiser-result@path{k}", r, eng.veq(r.value, box["result"]), kind="forwarding")
            a = box["a"]
            mm = method_calls(r.path, "self", "_minimize")
            gm = method_calls(r.path, "self", "_get_minimizer")
            if len(mm) == 1 and len(gm) == 1:
                T.ob_path(eng, f"{key}#fwd.arguments@path{k}", r,
                          z3.And(_zb(eng.veq(list(mm[0].args[1:3]), [a["func"], a["x0"]])), _zb(eng.veq(mm[0].args[0], gm[0].result)),
                                 _zb(eng.veq({k2: mm[0].kwargs.get(k2) for k2 in ("do_grad", "bounds", "fixed_vals", "options")},
                                             {k2: a[k2] for k2 in ("do_grad", "bounds", "fixed_vals", "options")}))), kind="forwarding")
            else:
                T.fail(f"{key}#fwd.arguments@path{k}", "minimiser not built / run exactly once", kind="forwarding")
    for want in ("raise", "return"):
        (T.ok if want in seen else T.fail)(f"{key}#paths.{want}-exists", *([] if want in seen else ["missing"]), kind="raises")
    # minimize: return layout for all flag combinations
    key = f"{base}.minimize"
    f = T.under_contract(eng, key)
    for flags in itertools.product([False, True], repeat=3):
        rc, rfv, rro = flags
        eng2 = T.engine({f"{OPT}/common.py::shim": lambda e, c: ({"func": e.obj("func"), "x0": e.obj("x0"), "do_grad": e.obj("dg"), "bounds": e.obj("b"), "fixed_vals": e.obj("fv")}, e.obj("stitch_pars"))})
        f2 = eng2.func(key)
        box2 = {}

        def run2():
            res = eng2.obj("postprocessed")
            o = typed_opaque(eng2, "self", {"_internal_minimize": lambda e, c: e.obj("raw_result"), "_internal_postprocess": lambda e, c: res})
            a = {n: eng2.obj(n) for n in ("objective", "data", "pdf", "init_pars", "par_bounds", "fixed_vals")}
            eng2.assume(z3.Not(truthy_of(eng2.opaque_attr(eng2.getattr(a["pdf"], "config"), "par_names"))))
            box2.update(a=a, res=res)
            return eng2.call_function(f2, [o] + [a[n] for n in ("objective", "data", "pdf", "init_pars", "par_bounds", "fixed_vals")],
                                      dict(return_correlations=rc, return_fitted_val=rfv, return_result_obj=rro, do_grad=False, kwX=eng2.obj("kwX")), force_inline=True)
        for k, r in enumerate(eng2.explore(run2)):
            sfx = f"@flags={int(rc)}{int(rfv)}{int(rro)},path{k}"
            if r.kind != "return":
                T.fail(f"{key}#no-raise{sfx}", str(r.exc_name), kind="raises")
                continue
            res = box2["res"]
            want = [eng2.opaque_attr(res, "x")]
            if rc:
                want.append(eng2.opaque_attr(res, "corr"))
            if rfv:
                want.append(eng2.opaque_attr(res, "fun"))
            if rro:
                want.append(res)
            want = tuple(want) if len(want) > 1 else want[0]
            T.ob_path(eng2, f"{key}#post.layout{sfx}", r, eng2.veq(r.value, want))
            sc = calls_to(r.path, f"{OPT}/common.py::shim")
            im = method_calls(r.path, "self", "_internal_minimize")
            ok = len(sc) == 1 and len(im) == 1
            (T.ok if ok else T.fail)(f"{key}#fwd.shim-then-minimise{sfx}", *([] if ok else ["structure"]), kind="forwarding")
            if ok:
                a = box2["a"]
                T.ob_path(eng2, f"{key}#fwd.shim-arguments{sfx}", r, eng2.veq(sc[0].args, [a[n] for n in ("objective", "data", "pdf", "init_pars", "par_bounds", "fixed_vals")]), kind="forwarding")
                T.ob_path(eng2, f"{key}#fwd.options-are-the-extra-kwargs{sfx}", r, eng2.veq(im[0].kwargs.get("options"), {"kwX": z3.Const("kwX", Obj)}), kind="forwarding")


def t_lemma(T):
    """feasibility / honesty lemma over the contracts (one parameter component, generic)"""
    eng = T.engine({})
    eng.path = __import__("pyvc.interp", fromlist=["Path"]).Path([])
    x, lo, hi, val, fun = z3.Reals("x lo hi value fun")
    F = z3.Function("twice_nll_at", z3.RealSort(), z3.RealSort())
    fixed = z3.Bool("is_fixed")
    # what the external minimiser guarantees (assumed): inside the bounds it was given, constraint satisfied, fun == func(x)
    ext = [lo <= x, x <= hi, z3.Implies(fixed, x == val), fun == F(x)]
    T.ob(eng, "lemma#reported-point-inside-bounds-fixed-held-objective-honest", ext, z3.And(lo <= x, x <= hi, z3.Implies(fixed, x == val), fun == F(x)), kind="lemma")
    # with stitching the fixed value never reaches the minimiser: stitched value is the supplied value exactly
    p = z3.Real("free_value")
    stitched = z3.If(fixed, val, p)
    T.ob(eng, "lemma#stitched-fixed-parameter-is-exactly-its-value", [], z3.Implies(fixed, stitched == val), kind="lemma")


def tasks(tier):
    return [("twice_nll", t_twice_nll), ("_validate_fit_inputs", t_validate), ("fit", t_fit), ("fixed_poi_fit", t_fixed_poi_fit), ("shim", t_shim),
            ("opt_numpy.wrap_objective", t_wrap_numpy), ("scipy_optimizer", t_scipy), ("minuit_optimizer", t_minuit), ("OptimizerMixin", t_internal),
            ("lemma", t_lemma)]


def replay(r):
    """native replay of the shim / stitch obligations: the real shim on concrete numbers"""
    meta = r.get("meta") or {}
    if "infer/mle.py::" in r["name"]:
        return _replay_mle()
    if "OptimizerMixin.minimize" in r["name"]:
        return _replay_minimize()
    if "scipy_optimizer._minimize" in r["name"]:
        return _replay_scipy()
    if "npars" not in meta:
        if "common.py::shim" in r["name"] or "_make_stitch_pars" in r["name"]:
            # no instance of its own (e.g. the clause produced no VC): a default battery of layouts
            out = {"reproduced": False, "disagreements": {}}
            for npars, fixed, st in ((2, [0], True), (3, [1], True), (3, [0, 2], True), (2, [], True), (2, [0], False), (3, [2], True)):
                res = _replay_shim_case(npars, fixed, st)
                if res["reproduced"]:
                    out["reproduced"] = True
                    out["disagreements"][f"npars={npars},fixed={fixed},stitch={st}"] = res["disagreements"]
            return out
        return None
    return _replay_shim_case(meta["npars"], meta["fixed"], meta["do_stitch"])


def _replay_shim_case(npars, fixed, do_stitch):
    import numpy as np
    import pyhf
    from pyhf.optimize.common import shim
    pyhf.set_backend("numpy")
    meta = {"npars": npars, "fixed": fixed, "do_stitch": do_stitch}

    class Cfg:
        pass

    class Pdf:
        config = Cfg()
    Pdf.config.npars = npars
    init = [10.0 + i for i in range(npars)]
    bounds = [(float(i), 100.0 + i) for i in range(npars)]
    fixed_vals = [(i, 1000.0 + i) for i in fixed]
    the_pdf = Pdf()
    kwargs, stitch = shim(lambda p, d, m: p, [1.0], the_pdf, init, bounds, fixed_vals, do_grad=False, do_stitch=do_stitch)
    free = [i for i in range(npars) if i not in fixed]
    bad = {}
    if do_stitch and fixed:
        # history: a second call on the SAME model object with other fixed values must stitch the new values
        fv2 = [(i, 2000.0 + i) for i in fixed]
        _, stitch2 = shim(lambda p, d, m: p, [1.0], the_pdf, init, bounds, fv2, do_grad=False, do_stitch=True)
        full2 = list(np.asarray(stitch2(np.asarray([500.0 + t for t in range(len(free))]))))
        want2 = [2000.0 + i if i in fixed else 500.0 + free.index(i) for i in range(npars)]
        if full2 != want2:
            bad["stitch_pars of a second call with other fixed values"] = {"got": full2, "oracle": want2}
    if do_stitch:
        if list(kwargs["x0"]) != [init[i] for i in free] or [tuple(b) for b in kwargs["bounds"]] != [bounds[i] for i in free] or kwargs["fixed_vals"] != []:
            bad["minimizer_kwargs"] = {k: repr(v) for k, v in kwargs.items() if k != "func"}
        p = np.asarray([500.0 + t for t in range(len(free))])
        full = list(np.asarray(stitch(p)))
        want = [1000.0 + i if i in fixed else 500.0 + free.index(i) for i in range(npars)]
        if full != want:
            bad["stitch_pars"] = {"got": full, "oracle": want}
    else:
        if list(kwargs["x0"]) != init or kwargs["fixed_vals"] != fixed_vals:
            bad["minimizer_kwargs"] = repr(kwargs)
    # what the backend shim receives: the pieces must pair index k with value k, exactly the caller's pairs
    import sys
    common = sys.modules["pyhf.optimize.common"]          # `import pyhf.optimize.common as x` goes through pyhf.optimize's lazy attribute hook
    seen = {}
    saved = common._get_tensor_shim

    def spy_shim():
        def wrap(objective, data, pdf, stitch_pars, do_grad=False, jit_pieces=None):
            seen["jit_pieces"] = jit_pieces
            return lambda pars: pars
        return wrap
    common._get_tensor_shim = spy_shim
    try:
        shim(lambda p, d, m: p, [1.0], the_pdf, init, bounds, fixed_vals, do_grad=False, do_stitch=do_stitch)
    finally:
        common._get_tensor_shim = saved
    jp = seen.get("jit_pieces") or {}
    pairs = sorted(zip(list(jp.get("fixed_idx", [])), [float(v) for v in jp.get("fixed_values", [])]))
    if pairs != sorted((i, float(v)) for i, v in fixed_vals) or list(jp.get("variable_idx", [])) != free:
        bad["jit_pieces"] = {"fixed_idx": list(jp.get("fixed_idx", [])), "fixed_values": [float(v) for v in jp.get("fixed_values", [])],
                             "variable_idx": list(jp.get("variable_idx", [])), "caller's fixed_vals": fixed_vals}
    return {"reproduced": bool(bad), "case": meta, "disagreements": bad}


def _replay_mle():
    """the real fit / fixed_poi_fit with a recording stub optimiser"""
    import pyhf
    import pyhf.infer.mle as mle
    rec = {}

    class Opt:
        def minimize(self, objective, data, pdf, init_pars, par_bounds, fixed_vals=None, **kw):
            rec.update(objective=objective, data=data, init=list(init_pars), bounds=list(par_bounds), fixed_vals=list(fixed_vals), kw=kw)
            return "RESULT"

    class Cfg:
        poi_index = 1
        def suggested_init(self): return [1.0, 2.0, 3.0]
        def suggested_bounds(self): return [(0, 10), (0, 10), (0, 10)]
        def suggested_fixed(self): return [False, False, True]

    class Pdf:
        config = Cfg()
    saved = mle.get_backend
    mle.get_backend = lambda: (None, Opt())
    bad = {}
    try:
        init, fixed, bounds = [1.5, 2.5, 3.5], [True, False, False], [(0, 9), (0, 9), (0, 9)]
        out = mle.fixed_poi_fit(7.0, "DATA", Pdf(), init, bounds, fixed, return_fitted_val=True)
        if init != [1.5, 2.5, 3.5] or fixed != [True, False, False]:
            bad["caller lists mutated"] = (init, fixed)
        if rec.get("bounds") != [(0, 9), (0, 9), (0, 9)]:
            bad["fixed_poi_fit bounds"] = {"passed": [(0, 9)] * 3, "used by the fit": rec.get("bounds")}
        if rec.get("init") != [1.5, 7.0, 3.5] or sorted(rec.get("fixed_vals", [])) != [(0, 1.5), (1, 7.0)] or rec.get("kw") != {"return_fitted_val": True} or out != "RESULT":
            bad["fixed_poi_fit"] = {k: rec.get(k) for k in ("init", "fixed_vals", "kw")}
        rec.clear()
        mle.fit("DATA", Pdf())
        if rec.get("init") != [1.0, 2.0, 3.0] or rec.get("fixed_vals") != [(2, 3.0)] or rec.get("objective") is not mle.twice_nll:
            bad["fit defaults"] = {k: rec.get(k) for k in ("init", "fixed_vals")}
        rec.clear()
        mle.fit("DATA", Pdf(), [1.0, 2.0, 3.0], [(0, 5)] * 3, [False, True, True])
        if rec.get("fixed_vals") != [(1, 2.0), (2, 3.0)]:
            bad["fit fixed_vals"] = rec.get("fixed_vals")
        rec.clear()
        mle.fit("DATA", Pdf(), [1.0, 2.0, 3.0], [(0, 5)] * 3, [False, False, False])
        if rec.get("fixed_vals") != []:
            bad["explicit all-False mask (releases a parameter the model fixes)"] = rec.get("fixed_vals")
        rec.clear()
        mle.fixed_poi_fit(7.0, "DATA", Pdf(), [1.0, 2.0, 3.0], [(0, 9)] * 3, [False, False, False])
        if rec.get("fixed_vals") != [(1, 7.0)]:
            bad["fixed_poi_fit with an explicit all-False mask"] = rec.get("fixed_vals")
        try:
            mle.fit("DATA", Pdf(), [1.0, 20.0, 3.0], [(0, 5)] * 3, [False] * 3)
            bad["validation"] = "initial value outside its bounds accepted"
        except ValueError:
            pass
    finally:
        mle.get_backend = saved
    return {"reproduced": bool(bad), "disagreements": bad}


def _replay_scipy():
    """the real scipy_optimizer._minimize with a recording minimizer: forwarding, and no per-call option survives the call"""
    import pyhf
    from pyhf.optimize.opt_scipy import scipy_optimizer
    pyhf.set_backend("numpy")
    rec = []

    def minimizer(func, x0, **kw):
        rec.append(dict(func=func, x0=list(x0), **kw))
        return "RESULT"
    bad = {}
    opt = scipy_optimizer()

    def settings(o):
        names = [n for c in type(o).__mro__ for n in getattr(c, "__slots__", ())] + list(getattr(o, "__dict__", {}))
        return {n: getattr(o, n) for n in names if hasattr(o, n)}
    before = settings(opt)
    f = lambda p: 0.0
    opt._minimize(minimizer, f, [1.0, 2.0, 3.0], do_grad=False, bounds=[(0, 5)] * 3, fixed_vals=[(1, 2.5)], options={"tolerance": 1e-2, "maxiter": 7})
    if not rec or rec[0].get("tol") != 1e-2 or rec[0]["options"].get("maxiter") != 7 or rec[0]["x0"] != [1.0, 2.5, 3.0] or rec[0].get("method") != "SLSQP":
        bad["forwarding"] = {k: repr(v) for k, v in (rec[0] if rec else {}).items() if k != "func"}
    if settings(opt) != before:
        bad["optimizer settings changed by a call"] = {k: (before.get(k), v) for k, v in settings(opt).items() if before.get(k) != v}
    opt._minimize(minimizer, f, [1.0, 2.0, 3.0], do_grad=False, bounds=[(0, 5)] * 3, fixed_vals=[], options={})
    if len(rec) == 2 and (rec[1].get("tol") != before.get("tolerance") or rec[1]["options"].get("maxiter") != before.get("maxiter")):
        bad["later call without options"] = {"tol": rec[1].get("tol"), "maxiter": rec[1]["options"].get("maxiter"), "constructor": (before.get("tolerance"), before.get("maxiter"))}
    return {"reproduced": bool(bad), "disagreements": bad}


def _replay_minimize():
    import numpy as np
    import pyhf
    from pyhf.optimize.mixins import OptimizerMixin
    import pyhf.optimize.mixins as mx

    class R:
        x, corr, fun = "X", "CORR", "FUN"
    res = R()

    class O(OptimizerMixin):
        def _internal_minimize(self, **k): return res
        def _internal_postprocess(self, r, s, return_uncertainties=False): return res

    class Cfg:
        par_names = None

    class Pdf:
        config = Cfg()
    saved = mx.shim
    mx.shim = lambda *a, **k: ({"func": None, "x0": None, "do_grad": False, "bounds": None, "fixed_vals": None}, None)
    bad = {}
    try:
        import itertools
        for rc, rfv, rro in itertools.product([False, True], repeat=3):
            out = O().minimize(None, None, Pdf(), None, None, return_correlations=rc, return_fitted_val=rfv, return_result_obj=rro, do_grad=False)
            want = ["X"] + (["CORR"] if rc else []) + (["FUN"] if rfv else []) + ([res] if rro else [])
            want = tuple(want) if len(want) > 1 else want[0]
            if out != want:
                bad[f"flags={rc},{rfv},{rro}"] = {"got": repr(out), "oracle": repr(want)}
    finally:
        mx.shim = saved
    return {"reproduced": bool(bad), "disagreements": bad}
