"""Sidecar contracts for the real pyhf functions, one module per property (DESIGN.md 3)."""
from pyvc.harness import PROPERTY_MODULES

PROPERTY_MODULES.update({
    "C01": "contracts.C01_rates",
    "C02": "contracts.C02_likelihood",
    "C03": "contracts.C03_interpolators",
    "C04": "contracts.C04_primitives",
    "C05": "contracts.C05_fits",
    "C06": "contracts.C06_test_statistics",
    "C07": "contracts.C07_asymptotics",
    "C08": "contracts.C08_hypotest",
    "C09": "contracts.C09_upper_limits",
    "C10": "contracts.C10_batching",
    "C11": "contracts.C11_backend_history",
    "C12": "contracts.C12_config",
    "C13": "contracts.C13_gradients",
    "C14": "contracts.C14_toys",
    "C15": "contracts.C15_invariance",
    "C16": "contracts.C16_workspace_ops",
    "C17": "contracts.C17_patchset",
    "C18": "contracts.C18_roundtrip",
    "C19": "contracts.C19_cli",
    "C20": "contracts.C20_refusal",
})
